import TlsProofs.Resume
/-
  History invariant for C13: everything the server can resume from (sealed tickets, session
  objects) stems from a completed connection of the log and carries that connection's parameters.
-/
namespace Tls.Resume

/-- `pr` are the parameters of a completed connection of the log -/
def Logged (w : World) (pr : Params) : Prop := ∃ r ∈ w.conns, r.params = some pr

structure Inv (w : World) : Prop where
  sealed : ∀ e ∈ w.sealed, e.2.2.completed = true ∧ Logged w e.2.2.params
  sheap : ∀ s ∈ w.sheap, s.completed = true ∧ Logged w s.params

theorem Inv.init : Inv World.init := ⟨by simp [World.init], by simp [World.init]⟩

theorem Inv.of_eq {w w' : World} (h1 : w'.sealed = w.sealed) (h2 : w'.sheap = w.sheap)
    (h3 : w'.conns = w.conns) (hi : Inv w) : Inv w' := by
  constructor
  · intro e he; rw [h1] at he; obtain ⟨hc, r, hr, hp⟩ := hi.sealed e he
    exact ⟨hc, r, by rw [h3]; exact hr, hp⟩
  · intro s hs; rw [h2] at hs; obtain ⟨hc, r, hr, hp⟩ := hi.sheap s hs
    exact ⟨hc, r, by rw [h3]; exact hr, hp⟩

theorem Logged.mono {w w' : World} {pr : Params} (l : List ConnRec) (h : w'.conns = w.conns ++ l)
    (hl : Logged w pr) : Logged w' pr := by
  obtain ⟨r, hr, hp⟩ := hl
  exact ⟨r, by rw [h]; exact List.mem_append_left _ hr, hp⟩

theorem mem_modifyAt {α : Type} {l : List α} {i : Nat} {f : α → α} {x : α}
    (h : x ∈ modifyAt l i f) : x ∈ l ∨ ∃ y ∈ l, x = f y := by
  induction l generalizing i with
  | nil => simp [modifyAt] at h
  | cons a r ih =>
    cases i with
    | zero =>
      simp only [modifyAt, List.mem_cons] at h
      rcases h with h | h
      · right; exact ⟨a, by simp, h⟩
      · left; simp [h]
    | succ i =>
      simp only [modifyAt, List.mem_cons] at h
      rcases h with h | h
      · left; simp [h]
      · rcases ih h with h | ⟨y, hy, hxy⟩
        · left; simp [h]
        · right; exact ⟨y, by simp [hy], hxy⟩

theorem env_open_mem {w : World} {sha : List Nat} {k : Nat} {n c : Bytes} {p : Payload}
    (h : (w.env sha).aeadOpen k n c = some p) : ∃ e ∈ w.sealed, e.2.2 = p := by
  simp only [World.env, Option.map_eq_some_iff] at h
  obtain ⟨e, he, hp⟩ := h
  exact ⟨e, List.mem_of_find?_eq_some he, hp⟩

theorem lookup_mem {w : World} {srv : Nat} {id : Bytes} {s : Sess} (h : w.lookup srv id = some s) :
    s ∈ w.sheap := by
  rw [lookup_eq_bind] at h
  cases hi : w.lookupIdx srv id with
  | none => simp [hi] at h
  | some i => simp only [hi, Option.bind_some] at h; exact List.mem_of_getElem? h

theorem Inv.close {w : World} (hi : Inv w) (k : Nat) (ck : CloseKind) : Inv (stepClose w k ck) := by
  have hsealed : (stepClose w k ck).sealed = w.sealed := by
    unfold stepClose; split
    · rfl
    · split <;> split <;> rfl
  have hconns : (stepClose w k ck).conns = w.conns := by
    unfold stepClose; split
    · rfl
    · split <;> split <;> rfl
  constructor
  · intro e he; rw [hsealed] at he; obtain ⟨hc, r, hr, hp⟩ := hi.sealed e he
    exact ⟨hc, r, by rw [hconns]; exact hr, hp⟩
  · intro s hs
    have hmem : s ∈ w.sheap ∨ ∃ y ∈ w.sheap, ∃ b, s = y.shutdown b := by
      unfold stepClose at hs
      split at hs
      · left; exact hs
      · split at hs <;> split at hs
        · rcases mem_modifyAt hs with h | ⟨y, hy, hxy⟩
          · left; exact h
          · right; exact ⟨y, hy, _, hxy⟩
        · left; exact hs
        · rcases mem_modifyAt hs with h | ⟨y, hy, hxy⟩
          · left; exact h
          · right; exact ⟨y, hy, _, hxy⟩
        · left; exact hs
    rcases hmem with h | ⟨y, hy, b, hxy⟩
    · obtain ⟨hc, r, hr, hp⟩ := hi.sheap s h
      exact ⟨hc, r, by rw [hconns]; exact hr, hp⟩
    · obtain ⟨hc, r, hr, hp⟩ := hi.sheap y hy
      have h1 : s.completed = y.completed := by rw [hxy]; unfold Sess.shutdown; split <;> rfl
      have h2 : s.params = y.params := by rw [hxy]; unfold Sess.shutdown; split <;> rfl
      exact ⟨by rw [h1]; exact hc, r, by rw [hconns]; exact hr, by rw [h2]; exact hp⟩


@[simp] theorem issueTickets_conns (w : World) (a : HsArgs) (p : Payload) (n : Nat) :
    (issueTickets w a p n).conns = w.conns := by
  unfold issueTickets; split <;> rfl

theorem issueTickets_sealed_mem {w : World} {a : HsArgs} {p : Payload} {n : Nat} {e : Bytes × Nat × Payload}
    (h : e ∈ (issueTickets w a p n).sealed) : e ∈ w.sealed ∨ e.2.2 = p := by
  unfold issueTickets at h
  split at h
  · left; exact h
  · simp only [List.mem_append, List.mem_map] at h
    rcases h with h | ⟨b, _, hb⟩
    · left; exact h
    · right; rw [← hb]

@[simp] theorem purgeCache_sealed (w : World) (srv : Nat) : (w.purgeCache srv).sealed = w.sealed := rfl
@[simp] theorem purgeCache_conns (w : World) (srv : Nat) : (w.purgeCache srv).conns = w.conns := rfl
@[simp] theorem cacheSet_sealed (w : World) (srv : Nat) (id : Bytes) (i : Option Nat) :
    (w.cacheSet srv id i).sealed = w.sealed := rfl
@[simp] theorem cacheSet_conns (w : World) (srv : Nat) (id : Bytes) (i : Option Nat) :
    (w.cacheSet srv id i).conns = w.conns := rfl
@[simp] theorem prune_sealed (w : World) (o : Option Nat) (s : Option CSess) : (w.prune o s).sealed = w.sealed := by
  unfold World.prune; split <;> rfl
@[simp] theorem prune_conns (w : World) (o : Option Nat) (s : Option CSess) : (w.prune o s).conns = w.conns := by
  unfold World.prune; split <;> rfl

/-- a world that extends `w`: more tickets (all of one completed payload `p` logged by the new
    record), more session objects (completed, parameters logged), one more connection record -/
theorem Inv.extend {w w' : World} (hi : Inv w) (rec : ConnRec)
    (hconns : w'.conns = w.conns ++ [rec])
    (hsealed : ∀ e ∈ w'.sealed, e ∈ w.sealed ∨ (e.2.2.completed = true ∧ rec.params = some e.2.2.params))
    (hsheap : ∀ s ∈ w'.sheap, s ∈ w.sheap ∨ (s.completed = true ∧ rec.params = some s.params)) :
    Inv w' := by
  constructor
  · intro e he
    rcases hsealed e he with h | ⟨hc, hp⟩
    · obtain ⟨hc, hl⟩ := hi.sealed e h
      exact ⟨hc, hl.mono [rec] hconns⟩
    · exact ⟨hc, rec, by rw [hconns]; simp, hp⟩
  · intro s hs
    rcases hsheap s hs with h | ⟨hc, hp⟩
    · obtain ⟨hc, hl⟩ := hi.sheap s h
      exact ⟨hc, hl.mono [rec] hconns⟩
    · exact ⟨hc, rec, by rw [hconns]; simp, hp⟩

theorem commit13_inv {w1 : World} (hi : Inv w1) (a : HsArgs) (h0 h : Hello) (dec : Decision) (out : Outcome) :
    Inv (commit13 w1 a h0 h dec out).1 := by
  unfold commit13
  simp only
  split
  · refine hi.extend _ (by simp; rfl) ?_ ?_
    · intro e he
      rcases issueTickets_sealed_mem he with h | h
      · left; exact h
      · right; rw [h]; exact ⟨rfl, rfl⟩
    · intro s hs
      simp only [issueTickets_sheap, List.mem_append, List.mem_singleton] at hs
      rcases hs with h | h
      · left; exact h
      · right; rw [h]; exact ⟨rfl, rfl⟩
  · exact hi.extend failRec rfl (fun e he => Or.inl he) (fun s hs => Or.inl hs)

theorem commit12_inv {w1 : World} (hi : Inv w1) (a : HsArgs) (s1 : Option CSess) (h0 h : Hello) (vc : Bool)
    (dec : Decision) (out : Outcome) (hdec : ∀ s, dec = .resume s → s.completed = true) :
    Inv (commit12 w1 a s1 h0 h vc dec out).1 := by
  unfold commit12
  simp only
  split
  · split
    · rename_i s
      have hc := hdec s rfl
      split
      · exact hi.extend _ rfl (fun e he => Or.inl he) (fun s hs => Or.inl hs)
      · refine hi.extend _ rfl (fun e he => Or.inl he) ?_
        intro s' hs'
        simp only [List.mem_append, List.mem_singleton] at hs'
        rcases hs' with h | h
        · left; exact h
        · right; rw [h]; exact ⟨hc, rfl⟩
    · split
      · refine hi.extend _ (by simp; rfl) ?_ ?_
        · intro e he
          simp only [cacheSet_sealed] at he
          rcases issueTickets_sealed_mem he with h | h
          · left; exact h
          · right; rw [h]; exact ⟨rfl, rfl⟩
        · intro s hs
          simp only [cacheSet_sheap, issueTickets_sheap, List.mem_append, List.mem_singleton] at hs
          rcases hs with h | h
          · left; exact h
          · right; rw [h]; exact ⟨rfl, rfl⟩
      · refine hi.extend _ (by simp; rfl) ?_ ?_
        · intro e he
          rcases issueTickets_sealed_mem he with h | h
          · left; exact h
          · right; rw [h]; exact ⟨rfl, rfl⟩
        · intro s hs
          simp only [issueTickets_sheap, List.mem_append, List.mem_singleton] at hs
          rcases hs with h | h
          · left; exact h
          · right; rw [h]; exact ⟨rfl, rfl⟩
  · exact hi.extend failRec rfl (fun e he => Or.inl he) (fun s hs => Or.inl hs)


/-- in a world satisfying the invariant, whatever the <=1.2 server resumes from is a completed
    session whose parameters are those of a logged (earlier) connection -/
theorem Inv.resume12 {w w1 : World} (hi : Inv w) (hs : w1.sheap = w.sheap) (sha : List Nat) (srv : Nat)
    (now : Nat) (st : SrvSettings) (h : Hello) (s : Sess)
    (hr : serverResume12 (w.env sha) (w1.lookup srv) now st h = .resume s) :
    s.completed = true ∧ Logged w s.params := by
  have hc : ∀ id s, w1.lookup srv id = some s → s.completed = true := by
    intro id s hl
    have := lookup_mem hl
    rw [hs] at this
    exact (hi.sheap s this).1
  have hp : ∀ k n c p, (w.env sha).aeadOpen k n c = some p → p.completed = true := by
    intro k n c p ho
    obtain ⟨e, he, hep⟩ := env_open_mem ho
    rw [← hep]; exact (hi.sealed e he).1
  obtain ⟨hcomp, _, hvia, _⟩ := serverResume12_resume_cond _ _ _ _ _ _ hc hp hr
  refine ⟨hcomp, ?_⟩
  rcases hvia with ⟨t, k, p, _, _, _, hop, _, hsp⟩ | ⟨_, _, _, hl, _⟩
  · obtain ⟨e, he, hep⟩ := env_open_mem hop
    have := (hi.sealed e he).2
    rw [hep] at this
    have hpar : s.params = p.params := by rw [hsp]; split <;> rfl
    rw [hpar]; exact this
  · have := lookup_mem hl
    rw [hs] at this
    exact (hi.sheap s this).2

theorem negAdjust_resume {nf : Bool} {d : Decision} {s : Sess} (h : negAdjust nf d = .resume s) :
    d = .resume s := by
  unfold negAdjust at h
  split at h
  · contradiction
  · exact h

theorem stepHs_inv {w : World} (hi : Inv w) (a : HsArgs) : Inv (stepHs w a).1 := by
  unfold stepHs
  split
  · exact hi
  · split
    · exact hi
    · rename_i sess1 h0 _
      have hi1 : Inv (w.prune a.offer sess1) := Inv.of_eq (by simp) (by simp) (by simp) hi
      simp only
      split
      · exact commit13_inv hi1 a _ _ _ _
      · have hdec : ∀ s, negAdjust a.negFail (serverResume12 (w.env a.sha384) ((w.prune a.offer sess1).lookup a.srv)
            (w.prune a.offer sess1).nowS a.st (a.edits.foldl applyEdit h0)) = .resume s → s.completed = true :=
          fun s hr => (hi.resume12 (by simp) _ _ _ _ _ s (negAdjust_resume hr)).1
        split
        · exact commit12_inv (Inv.of_eq (by simp) (by simp) (by simp) hi1) a _ _ _ _ _ _ hdec
        · exact commit12_inv hi1 a _ _ _ _ _ _ hdec

theorem cacheFill_proj (srv : Nat) (ids : List Bytes) (w : World) :
    (ids.foldl (fun w id => w.cacheSet srv id none) w).sealed = w.sealed ∧
    (ids.foldl (fun w id => w.cacheSet srv id none) w).conns = w.conns := by
  induction ids generalizing w with
  | nil => exact ⟨rfl, rfl⟩
  | cons id r ih => simp only [List.foldl_cons]; exact ih _

theorem step_inv {w : World} (hi : Inv w) (op : Op) : Inv (step w op) := by
  cases op with
  | hs a => exact stepHs_inv hi a
  | close k ck => exact hi.close k ck
  | tick c dt => cases c <;> exact Inv.of_eq (w := w) rfl rfl rfl hi
  | newServer c =>
    cases c with
    | none => exact Inv.of_eq (w := w) rfl rfl rfl hi
    | some p => exact Inv.of_eq (w := w) rfl rfl rfl hi
  | cacheFill srv ids =>
    exact Inv.of_eq (cacheFill_proj srv ids w).1 (cacheFill_heaps srv ids w).1 (cacheFill_proj srv ids w).2 hi
  | tamper j b => exact Inv.of_eq (w := w) rfl rfl rfl hi

theorem run_inv {w : World} (hi : Inv w) (ops : List Op) : Inv (run w ops) := by
  induction ops generalizing w with
  | nil => exact hi
  | cons op r ih => exact ih (step_inv hi op)

/-- the decision recorded in the observation of a <=1.2 attempt is `serverResume12` evaluated on
    the world (ticket table, cache, server clock) the attempt started from -/
theorem stepHs_dec12 {w : World} {a : HsArgs} {d : Decision} (hv : is13 a.ver = false)
    (hd : (stepHs w a).2.dec = some d) :
    ∃ (w1 : World) (h : Hello), w1.sheap = w.sheap ∧
      d = negAdjust a.negFail (serverResume12 (w.env a.sha384) (w1.lookup a.srv) w.nowS a.st h) := by
  unfold stepHs at hd
  split at hd
  · simp [HsObs.err] at hd
  · split at hd
    · simp [HsObs.err] at hd
    · rename_i sess1 h0 _
      simp only [hv] at hd
      have hn : (w.prune a.offer sess1).nowS = w.nowS := by unfold World.prune; split <;> rfl
      have key : ∀ (w1' : World) vc dec out,
          (commit12 w1' a sess1 h0 (a.edits.foldl applyEdit h0) vc dec out).2.dec = some dec := by
        intro w1' vc dec out
        unfold commit12
        simp only
        split
        · split
          · split <;> rfl
          · split <;> rfl
        · rfl
      simp only [Bool.false_eq_true, if_false] at hd
      split at hd <;>
      · rw [key] at hd
        injection hd with hd
        exact ⟨w.prune a.offer sess1, _, by simp, by rw [← hd, hn]⟩

end Tls.Resume
