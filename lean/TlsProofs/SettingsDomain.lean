import TlsProofs.SettingsValidate
/-
  C19 — a successful `validate` implies the documented domains (for the input) and
  "only what this installation supports" (for the result).
-/
namespace Tls.Settings

/-! ### small helpers -/

theorem subset_of_all (L D : List String) (h : L.all (fun a => D.contains a) = true) :
    ∀ a ∈ L, a ∈ D := by
  intro a ha
  have := List.all_eq_true.mp h a ha
  simpa using this

theorem not_contains_false {α : Type} [BEq α] [LawfulBEq α] (S : List α) (x : α)
    (h : (!S.contains x) = false) : x ∈ S := by
  simpa using h

theorem any_not_contains_false {α : Type} [BEq α] [LawfulBEq α] (l S : List α)
    (h : (l.any fun v => !S.contains v) = false) : ∀ a ∈ l, a ∈ S := by
  intro a ha
  rw [List.any_eq_false] at h
  have := h a ha
  simpa using this

theorem ilt_false {a b : Int} (h : ilt a b = false) : b ≤ a := by
  simp only [ilt, decide_eq_false_iff_not] at h
  omega

theorem ilt_true {a b : Int} (h : ilt a b = true) : a < b := by
  simpa [ilt] using h

theorem ile_true {a b : Int} (h : ile a b = true) : a ≤ b := by
  simpa [ile] using h

theorem verLe_of_not_verLt (a b : Ver) (h : verLt b a = false) : verLe a b = true := by
  obtain ⟨a1, a2⟩ := a
  obtain ⟨b1, b2⟩ := b
  simp only [verLt, verLe, Bool.or_eq_false_iff, Bool.and_eq_false_iff, decide_eq_false_iff_not,
    Bool.or_eq_true, Bool.and_eq_true, decide_eq_true_eq, beq_iff_eq, beq_eq_false_iff_ne, ne_eq] at h ⊢
  omega

theorem vhostsErr_none (l : List (List (Bool × Bool))) (h : vhostsErr l = none) :
    ∀ vh ∈ l, vh ≠ [] ∧ ∀ k ∈ vh, k = (true, true) := by
  induction l with
  | nil => intro vh hv; cases hv
  | cons v r ih =>
    simp only [vhostsErr] at h
    cases hv : vhostErr v with
    | some e => simp [hv] at h
    | none =>
      simp only [hv] at h
      intro vh hmem
      rcases List.mem_cons.mp hmem with rfl | hr
      · cases he : vh.isEmpty with
        | true => simp [vhostErr, he] at hv
        | false =>
          cases ha : (vh.any fun k => !(k.1 && k.2)) with
          | true => simp only [vhostErr, he, ha, cond_true, cond_false] at hv; cases hv
          | false =>
            refine ⟨by intro hc; simp [hc] at he, ?_⟩
            intro k hk
            rw [List.any_eq_false] at ha
            have := ha k hk
            obtain ⟨k1, k2⟩ := k
            simp only [Bool.not_eq_true, Bool.not_eq_false', Bool.and_eq_true] at this
            simp [this.1, this.2]
      · exact ih h vh hr

theorem compression_known (l S : List String)
    (h : (!l.isEmpty && !(notMatching l S).isEmpty) = false) : ∀ a ∈ l, a ∈ S := by
  cases hl : l.isEmpty with
  | true =>
    intro a ha
    have : l = [] := List.isEmpty_iff.mp hl
    simp [this] at ha
  | false =>
    simp only [hl, Bool.not_false, Bool.true_and] at h
    exact mem_of_notMatching_empty l S h

/-! ### the generated tables stay inside the documented name sets -/

/-- unfold the generated definitions (the `Env` argument disappears or is a constructor after the
    case split), then evaluate -/
macro "gen_decide" "[" ds:Lean.Parser.Tactic.simpLemma,* "]" : tactic =>
  `(tactic| (simp only [$ds,*, ↓reduceIte, Bool.false_eq_true, cond_true, cond_false]; decide))

theorem gen_allCipherNames_doc (env : Env) : ∀ a ∈ Gen.allCipherNames env, a ∈ docCipherNames :=
  subset_of_all _ _ (by gen_decide [Gen.allCipherNames, docCipherNames])
theorem gen_allMacNames_doc (env : Env) : ∀ a ∈ Gen.allMacNames env, a ∈ docMacNames :=
  subset_of_all _ _ (by gen_decide [Gen.allMacNames, docMacNames])
theorem gen_keyExchangeNames_doc (env : Env) : ∀ a ∈ Gen.keyExchangeNames env, a ∈ docKeyExchangeNames :=
  subset_of_all _ _ (by gen_decide [Gen.keyExchangeNames, docKeyExchangeNames])
theorem gen_cipherImplementations_doc (env : Env) :
    ∀ a ∈ Gen.cipherImplementations env, a ∈ docImplementations :=
  subset_of_all _ _ (by gen_decide [Gen.cipherImplementations, docImplementations])
theorem gen_certificateTypes_doc (env : Env) : ∀ a ∈ Gen.certificateTypes env, a ∈ docCertificateTypes :=
  subset_of_all _ _ (by gen_decide [Gen.certificateTypes, docCertificateTypes])
theorem gen_allRsaSignatureHashes_doc (env : Env) :
    ∀ a ∈ Gen.allRsaSignatureHashes env, a ∈ docRsaSigHashes :=
  subset_of_all _ _ (by gen_decide [Gen.allRsaSignatureHashes, docRsaSigHashes])
theorem gen_dsaSignatureHashes_doc (env : Env) : ∀ a ∈ Gen.dsaSignatureHashes env, a ∈ docSigHashes :=
  subset_of_all _ _ (by gen_decide [Gen.dsaSignatureHashes, docSigHashes])
theorem gen_ecdsaSignatureHashes_doc (env : Env) : ∀ a ∈ Gen.ecdsaSignatureHashes env, a ∈ docSigHashes :=
  subset_of_all _ _ (by gen_decide [Gen.ecdsaSignatureHashes, docSigHashes])
theorem gen_rsaSchemes_doc (env : Env) : ∀ a ∈ Gen.rsaSchemes env, a ∈ docRsaSchemes :=
  subset_of_all _ _ (by gen_decide [Gen.rsaSchemes, docRsaSchemes])
theorem gen_allDhGroupNames_doc (env : Env) : ∀ a ∈ Gen.allDhGroupNames env, a ∈ docDhGroups :=
  subset_of_all _ _ (by gen_decide [Gen.allDhGroupNames, docDhGroups])
theorem gen_ticketCiphers_doc (env : Env) : ∀ a ∈ Gen.ticketCiphers env, a ∈ docTicketCiphers :=
  subset_of_all _ _ (by gen_decide [Gen.ticketCiphers, docTicketCiphers])
theorem gen_pskModes_doc (env : Env) : ∀ a ∈ Gen.pskModes env, a ∈ docPskModes :=
  subset_of_all _ _ (by gen_decide [Gen.pskModes, docPskModes])

theorem gen_signatureSchemes_doc (env : Env) : ∀ a ∈ Gen.signatureSchemes env, a ∈ docMoreSigSchemes env := by
  apply subset_of_all
  obtain ⟨m2, py, td, mk, md, ec, bc, zc, bd, zd⟩ := env
  cases md <;> gen_decide [Gen.signatureSchemes, docMoreSigSchemes]

theorem gen_allCurveNames_doc (env : Env) : ∀ a ∈ Gen.allCurveNames env, a ∈ docCurves env := by
  apply subset_of_all
  obtain ⟨m2, py, td, mk, md, ec, bc, zc, bd, zd⟩ := env
  cases mk <;> cases ec <;> gen_decide [Gen.allCurveNames, docCurves]

theorem gen_compressionSend_doc (env : Env) : ∀ a ∈ Gen.allCompressionAlgosSend env, a ∈ docCompression := by
  apply subset_of_all
  obtain ⟨m2, py, td, mk, md, ec, bc, zc, bd, zd⟩ := env
  cases bc <;> cases zc <;> gen_decide [Gen.allCompressionAlgosSend, docCompression]

theorem gen_compressionReceive_doc (env : Env) :
    ∀ a ∈ Gen.allCompressionAlgosReceive env, a ∈ docCompression := by
  apply subset_of_all
  obtain ⟨m2, py, td, mk, md, ec, bc, zc, bd, zd⟩ := env
  cases bd <;> cases zd <;> gen_decide [Gen.allCompressionAlgosReceive, docCompression]

theorem gen_knownVersions_doc (env : Env) (v : Ver) (h : v ∈ Gen.knownVersions env) : v ∈ docVersions := by
  have : (Gen.knownVersions env).all (fun a => docVersions.contains a) = true := by
    gen_decide [Gen.knownVersions, docVersions]
  have := List.all_eq_true.mp this v h
  simpa using this

theorem gen_mlKem_absent (env : Env) (h : env.mlKem = false) :
    ∀ a ∈ Gen.allCurveNames env ++ Gen.allDhGroupNames env,
      a ∉ ["secp256r1mlkem768", "x25519mlkem768", "secp384r1mlkem1024"] := by
  have : (Gen.allCurveNames env ++ Gen.allDhGroupNames env).all
      (fun a => !["secp256r1mlkem768", "x25519mlkem768", "secp384r1mlkem1024"].contains a) = true := by
    obtain ⟨m2, py, td, mk, md, ec, bc, zc, bd, zd⟩ := env
    simp only at h
    subst h
    cases ec <;> gen_decide [Gen.allCurveNames, Gen.allDhGroupNames]
  intro a ha
  have := List.all_eq_true.mp this a ha
  simpa using this

theorem gen_mlDsa_absent (env : Env) (h : env.mlDsa = false) :
    ∀ a ∈ Gen.signatureSchemes env, a ∉ ["mldsa87", "mldsa65", "mldsa44"] := by
  have : (Gen.signatureSchemes env).all (fun a => !["mldsa87", "mldsa65", "mldsa44"].contains a) = true := by
    obtain ⟨m2, py, td, mk, md, ec, bc, zc, bd, zd⟩ := env
    simp only at h
    subst h
    gen_decide [Gen.signatureSchemes]
  intro a ha
  have := List.all_eq_true.mp this a ha
  simpa using this

theorem gen_brotli_send (env : Env) (h : "brotli" ∈ Gen.allCompressionAlgosSend env) : env.brotliCompress = true := by
  obtain ⟨m2, py, td, mk, md, ec, bc, zc, bd, zd⟩ := env
  cases bc
  · cases zc <;> simp [Gen.allCompressionAlgosSend] at h
  · rfl

theorem gen_zstd_send (env : Env) (h : "zstd" ∈ Gen.allCompressionAlgosSend env) : env.zstdCompress = true := by
  obtain ⟨m2, py, td, mk, md, ec, bc, zc, bd, zd⟩ := env
  cases zc
  · cases bc <;> simp [Gen.allCompressionAlgosSend] at h
  · rfl

theorem gen_brotli_receive (env : Env) (h : "brotli" ∈ Gen.allCompressionAlgosReceive env) :
    env.brotliDecompress = true := by
  obtain ⟨m2, py, td, mk, md, ec, bc, zc, bd, zd⟩ := env
  cases bd
  · cases zd <;> simp [Gen.allCompressionAlgosReceive] at h
  · rfl

theorem gen_zstd_receive (env : Env) (h : "zstd" ∈ Gen.allCompressionAlgosReceive env) :
    env.zstdDecompress = true := by
  obtain ⟨m2, py, td, mk, md, ec, bc, zc, bd, zd⟩ := env
  cases zd
  · cases bd <;> simp [Gen.allCompressionAlgosReceive] at h
  · rfl

/-! ### fields `normalize` does not touch -/

theorem normalize_maxVersion (env : Env) (s : Settings) : (normalize env s).maxVersion = s.maxVersion := by
  simp only [normalize, filter3des, filterImpls, filterMacs, filterVersions]
theorem normalize_eccCurves (env : Env) (s : Settings) : (normalize env s).eccCurves = s.eccCurves := by
  simp only [normalize, filter3des, filterImpls, filterMacs, filterVersions]
theorem normalize_keyShares (env : Env) (s : Settings) : (normalize env s).keyShares = s.keyShares := by
  simp only [normalize, filter3des, filterImpls, filterMacs, filterVersions]
theorem normalize_more_sig_schemes (env : Env) (s : Settings) :
    (normalize env s).more_sig_schemes = s.more_sig_schemes := by
  simp only [normalize, filter3des, filterImpls, filterMacs, filterVersions]
theorem normalize_compression_send (env : Env) (s : Settings) :
    (normalize env s).certificate_compression_send = s.certificate_compression_send := by
  simp only [normalize, filter3des, filterImpls, filterMacs, filterVersions]
theorem normalize_compression_receive (env : Env) (s : Settings) :
    (normalize env s).certificate_compression_receive = s.certificate_compression_receive := by
  simp only [normalize, filter3des, filterImpls, filterMacs, filterVersions]

/-! ### the two implications -/

theorem validate_inDomain (env : Env) (s o : Settings) (h : validate env s = .ok o) : InDomain env s := by
  obtain ⟨hA, hB, hC, _, hN, _⟩ := (validate_ok_iff env s o).mp h
  rw [stageB_filterVersions] at hB
  rw [stageC_filters] at hC
  simp only [stageA, firstSome_cons, firstSome_nil, chk_eq_none, and_true] at hA
  obtain ⟨h1, h2, h3, h4, h5, h6, h7, h8, h9, h10, h11, h12, h13, h14, h15, h16, h17, _, _, h20,
    h21, h22, h23, h24, h25, h26, h27, h28⟩ := hA
  simp only [stageB, firstSome_cons, firstSome_nil, chk_eq_none, and_true] at hB
  obtain ⟨b1, b2, b3, b4, b5, b6, b7, _, b9, b10, b11, b12, b13, b14⟩ := hB
  simp only [stageC, firstSome_cons, firstSome_nil, chk_eq_none, and_true] at hC
  obtain ⟨c1, c2, c3, c4, c5, c6, c7, c8⟩ := hC
  constructor
  · -- keySizes
    have := ilt_false h2; have := ilt_false h5; have := ilt_false h6
    omega
  · exact vhostsErr_none _ h7
  · -- cipherNames
    refine ⟨?_, fun a ha => gen_allCipherNames_doc env a (mem_of_notMatching_empty _ _ h8 a ha)⟩
    intro hc
    rw [normalize_cipherNames, hc] at hN
    cases env.tripleDES <;> simp at hN
  · exact fun a ha => gen_allMacNames_doc env a (mem_of_notMatching_empty _ _ h9 a ha)
  · exact fun a ha => gen_keyExchangeNames_doc env a (mem_of_notMatching_empty _ _ h10 a ha)
  · exact fun a ha => gen_cipherImplementations_doc env a (mem_of_notMatching_empty _ _ h11 a ha)
  · refine ⟨?_, fun a ha => gen_certificateTypes_doc env a (mem_of_notMatching_empty _ _ h21 a ha)⟩
    intro hc; simp [hc] at h1
  · exact ⟨gen_knownVersions_doc env _ (not_contains_false _ _ h27),
      gen_knownVersions_doc env _ (not_contains_false _ _ h28), verLe_of_not_verLt _ _ h26⟩
  · exact fun a ha => gen_allRsaSignatureHashes_doc env a (mem_of_notMatching_empty _ _ h22 a ha)
  · exact fun a ha => gen_dsaSignatureHashes_doc env a (mem_of_notMatching_empty _ _ h24 a ha)
  · exact fun a ha => gen_ecdsaSignatureHashes_doc env a (mem_of_notMatching_empty _ _ h15 a ha)
  · exact fun a ha => gen_rsaSchemes_doc env a (mem_of_notMatching_empty _ _ h23 a ha)
  · exact fun a ha => gen_signatureSchemes_doc env a (mem_of_notMatching_empty _ _ h16 a ha)
  · -- sigAlgsForTls12
    intro hv
    rw [hv, Bool.and_true] at h25
    cases hr : s.rsaSigHashes with
    | cons _ _ => exact Or.inl (by simp)
    | nil =>
      cases he : s.ecdsaSigHashes with
      | cons _ _ => exact Or.inr (Or.inl (by simp))
      | nil =>
        cases hd : s.dsaSigHashes with
        | cons _ _ => exact Or.inr (Or.inr (Or.inl (by simp)))
        | nil =>
          cases hm : s.more_sig_schemes with
          | cons _ _ => exact Or.inr (Or.inr (Or.inr (by simp)))
          | nil => simp [hr, he, hd, hm] at h25
  · exact fun a ha => gen_allCurveNames_doc env a (mem_of_notMatching_empty _ _ h12 a ha)
  · exact gen_allCurveNames_doc env _ (not_contains_false _ _ h13)
  · exact fun a ha => gen_allDhGroupNames_doc env a (mem_of_notMatching_empty _ _ h17 a ha)
  · -- keyShares
    intro a ha
    rw [List.any_eq_false] at h14
    have := h14 a ha
    simp only [Bool.and_eq_true, Bool.not_eq_true', not_and, Bool.not_eq_false] at this
    by_cases he : a ∈ s.eccCurves
    · exact Or.inl he
    · right
      have h1 : s.eccCurves.contains a = false := by simpa using he
      have := this h1
      simpa using this
  · intro hc; simp [hc] at h20
  · refine ⟨?_, ?_, ?_, ?_, ?_⟩ <;> intro hc
    · simp [hc] at b1
    · simp [hc] at b2
    · simp [hc] at b3
    · simp [hc] at b10
    · simp [hc] at b11
  · intro hr
    rw [hr] at b12
    cases hu : s.useExtendedMasterSecret <;> simp [hu, Flag.truthy] at b12 ⊢
  · intro hcb
    rw [hcb] at b4
    cases hu : s.use_heartbeat_extension <;> simp [hu, Flag.truthy] at b4 ⊢
  · intro v hv
    rw [hv] at b5
    simp only [Bool.not_eq_false', Bool.and_eq_true] at b5
    have := ile_true b5.1; have := ile_true b5.2
    omega
  · constructor
    · intro r hr
      have := any_not_contains_false _ _ b6 r hr
      simp [Gen.ecPointFormats] at this
      omega
    · have := not_contains_false _ _ b7
      simpa [Gen.ecPointUncompressed] using this
  · have := ilt_false b9
    simpa [Gen.dcValidTime] using this
  · exact fun a ha => gen_compressionSend_doc env a (compression_known _ _ b13 a ha)
  · exact fun a ha => gen_compressionReceive_doc env a (compression_known _ _ b14 a ha)
  · -- pskConfigs
    intro p hp
    rw [List.any_eq_false] at c1 c2
    have h1 := c1 p hp
    have h2 := c2 p hp
    simp only [Bool.not_eq_true', Bool.not_eq_false, Bool.or_eq_true, beq_iff_eq] at h1
    rcases h1 with h1 | h1
    · exact Or.inl h1
    · right
      refine ⟨h1, ?_⟩
      simp only [h1, BEq.rfl, Bool.true_and, Bool.not_eq_true', Bool.not_eq_false] at h2
      simp only [pskHashOk] at h2
      cases hh : p.hash with
      | none => simp [hh] at h2
      | some x =>
        simp only [hh, Bool.or_eq_true, beq_iff_eq] at h2
        rcases h2 with h2 | h2
        · exact Or.inl (by rw [h2])
        · exact Or.inr (by rw [h2])
  · exact fun a ha => gen_pskModes_doc env a (any_not_contains_false _ _ c3 a ha)
  · exact gen_ticketCiphers_doc env _ (not_contains_false _ _ c4)
  · intro n hn
    rw [List.any_eq_false] at c5
    have := c5 n hn
    simp only [Bool.not_eq_true', Bool.not_eq_false, Bool.or_eq_true, beq_iff_eq] at this
    exact this
  · simp only [Bool.not_eq_false', Bool.and_eq_true] at c6
    have := ilt_true c6.1; have := ile_true c6.2
    omega
  · simp only [Bool.not_eq_false', Bool.and_eq_true] at c7
    have := ilt_true c7.1; have := ile_true c7.2
    omega
  · simp only [Bool.not_eq_false', Bool.and_eq_true] at c8
    have := ile_true c8.1; have := ilt_true c8.2
    omega

theorem validate_supportedBy (env : Env) (s o : Settings) (h : validate env s = .ok o) : SupportedBy env o := by
  obtain ⟨hA, hB, _, _, _, rfl⟩ := (validate_ok_iff env s o).mp h
  rw [stageB_filterVersions] at hB
  simp only [stageA, firstSome_cons, firstSome_nil, chk_eq_none, and_true] at hA
  obtain ⟨_, _, _, _, _, _, _, h8, h9, _, h11, h12, _, _, _, h16, _, _, h19, _,
    _, _, _, _, _, _, _, _⟩ := hA
  simp only [stageB, firstSome_cons, firstSome_nil, chk_eq_none, and_true] at hB
  obtain ⟨_, _, _, _, _, _, _, _, _, _, _, _, b13, b14⟩ := hB
  have hcurves : ∀ a ∈ s.eccCurves, a ∈ Gen.allCurveNames env := mem_of_notMatching_empty _ _ h12
  have hshares : ∀ a ∈ s.keyShares, a ∈ Gen.allDhGroupNames env ∨ a ∈ Gen.allCurveNames env := by
    intro a ha
    rw [List.any_eq_false] at h19
    have := h19 a ha
    simp only [Bool.and_eq_true, Bool.not_eq_true', not_and, Bool.not_eq_false] at this
    by_cases hd : a ∈ Gen.allDhGroupNames env
    · exact Or.inl hd
    · right
      have h1 : (Gen.allDhGroupNames env).contains a = false := by simpa using hd
      simpa using this h1
  have hsig : ∀ a ∈ s.more_sig_schemes, a ∈ Gen.signatureSchemes env := mem_of_notMatching_empty _ _ h16
  have hcs := compression_known _ _ b13
  have hcr := compression_known _ _ b14
  constructor
  · -- implementations
    intro i hi
    rw [normalize_impls] at hi
    obtain ⟨hm, ho, hp⟩ := (mem_loadedImpls env _ i).mp hi
    have hk := mem_of_notMatching_empty _ _ h11 i hm
    simp only [Gen.cipherImplementations, List.mem_cons, List.not_mem_nil, or_false] at hk
    rcases hk with hk | hk | hk
    · exact Or.inr (Or.inl ⟨hk, ho hk⟩)
    · exact Or.inr (Or.inr ⟨hk, hp hk⟩)
    · exact Or.inl hk
  · -- tripleDES
    intro h3
    rw [normalize_cipherNames] at h3
    cases ht : env.tripleDES with
    | true => rfl
    | false =>
      rw [ht] at h3
      simp at h3
  · exact fun a ha => mem_of_notMatching_empty _ _ h8 a (mem_normalize_cipherNames env s a ha)
  · exact fun a ha => mem_of_notMatching_empty _ _ h9 a (mem_normalize_macNames env s a ha)
  · intro hv a ha
    rw [normalize_maxVersion] at hv
    rw [normalize_macNames, hv] at ha
    have := (List.mem_filter.mp ha).2
    simpa using this
  · intro hv v hm
    rw [normalize_maxVersion] at hv
    rw [normalize_versions, hv] at hm
    exact (List.mem_filter.mp hm).2
  · intro a ha
    rw [normalize_eccCurves] at ha
    exact hcurves a ha
  · intro hk a ha
    rw [normalize_eccCurves, normalize_keyShares] at ha
    apply gen_mlKem_absent env hk a
    rcases List.mem_append.mp ha with ha | ha
    · exact List.mem_append.mpr (Or.inl (hcurves a ha))
    · rcases hshares a ha with h1 | h1
      · exact List.mem_append.mpr (Or.inr h1)
      · exact List.mem_append.mpr (Or.inl h1)
  · intro a ha
    rw [normalize_keyShares] at ha
    exact hshares a ha
  · intro a ha
    rw [normalize_more_sig_schemes] at ha
    exact hsig a ha
  · intro hk a ha
    rw [normalize_more_sig_schemes] at ha
    exact gen_mlDsa_absent env hk a (hsig a ha)
  · intro a ha
    rw [normalize_compression_send] at ha
    exact hcs a ha
  · intro a ha
    rw [normalize_compression_receive] at ha
    exact hcr a ha
  · intro hb
    rw [normalize_compression_send] at hb
    exact gen_brotli_send env (hcs _ hb)
  · intro hb
    rw [normalize_compression_send] at hb
    exact gen_zstd_send env (hcs _ hb)
  · intro hb
    rw [normalize_compression_receive] at hb
    exact gen_brotli_receive env (hcr _ hb)
  · intro hb
    rw [normalize_compression_receive] at hb
    exact gen_zstd_receive env (hcr _ hb)

end Tls.Settings
