import TlsProofs.RsaBasic
import Mathlib.FieldTheory.Finite.Basic
/-
  `invMod` (extended Euclid of cryptomath.py): the fuel is never exhausted, and a non-zero
  result is an inverse.
-/
namespace Tls.Rsa

theorem invModLoop_fuel (f c d : Nat) (uc ud : Int) (h : c < f) :
    ∃ r, invModLoop f c d uc ud = some r := by
  induction f generalizing c d uc ud with
  | zero => omega
  | succ f ih =>
    unfold invModLoop
    by_cases hc : c = 0
    · simp [hc]
    · simp only [hc, if_false]
      exact ih _ _ _ _ (Nat.lt_of_lt_of_le (Nat.mod_lt _ (Nat.pos_of_ne_zero hc)) (by omega))

/-- loop invariant: `uc·a ≡ c`, `ud·a ≡ d (mod b)` -/
theorem invModLoop_inv (a b : Nat) (f c d : Nat) (uc ud : Int) (r : Nat × Int)
    (hc : uc * a ≡ c [ZMOD b]) (hd : ud * a ≡ d [ZMOD b])
    (h : invModLoop f c d uc ud = some r) : r.2 * a ≡ r.1 [ZMOD b] := by
  induction f generalizing c d uc ud with
  | zero => simp [invModLoop] at h
  | succ f ih =>
    unfold invModLoop at h
    by_cases hc0 : c = 0
    · simp only [hc0, if_true, Option.some.injEq] at h
      subst h; exact hd
    · simp only [hc0, if_false] at h
      refine ih _ _ _ _ ?_ hc h
      have e : ((d % c : Nat) : Int) = (d : Int) - ((d / c : Nat) : Int) * (c : Int) := by
        have h1 := Nat.div_add_mod d c
        have h2 : ((d % c : Nat) : Int) = (d : Int) - ((c * (d / c) : Nat) : Int) := by omega
        rw [h2, Nat.cast_mul, mul_comm]
      rw [e, sub_mul, mul_assoc]
      exact hd.sub (hc.mul_left _)

/-- a result different from the "no inverse" answers is an inverse -/
theorem invMod_spec (a b : Nat) (hb : 1 < b) (h : invMod a b ≠ 0) : invMod a b * a % b = 1 := by
  unfold invMod at h ⊢
  obtain ⟨⟨d, ud⟩, hr⟩ := invModLoop_fuel (a + 1) a b 1 0 (by omega)
  rw [hr] at h ⊢
  simp only at h ⊢
  by_cases hd : d = 1
  · simp only [hd, if_true] at h ⊢
    have inv := invModLoop_inv a b (a + 1) a b 1 0 (d, ud) (by simp) (by simp [Int.ModEq]) hr
    simp only [hd] at inv
    have hb0 : (0 : Int) < b := by exact_mod_cast (by omega : 0 < b)
    have hnn : 0 ≤ ud % (b : Int) := Int.emod_nonneg _ (by omega)
    have hcast : (((ud % (b : Int)).toNat * a % b : Nat) : Int) = 1 % (b : Int) := by
      push_cast
      rw [Int.toNat_of_nonneg hnn]
      have : ud % (b : Int) * a ≡ 1 [ZMOD b] := ((Int.mod_modEq ud b).mul_right _).trans (by simpa using inv)
      exact this
    have h1 : (1 : Int) % (b : Int) = 1 := Int.emod_eq_of_lt (by omega) (by exact_mod_cast hb)
    rw [h1] at hcast
    exact_mod_cast hcast
  · simp [hd] at h

end Tls.Rsa
