import TlsProofs.Conc
/-
  C18 — serial executions of calls on a lock-protected object are sequential histories of the
  object's sequential model (generic form; used for the verifier database).  Core Lean only.
-/
namespace Tls.Conc

variable {σ ρ ω ο : Type}

/-- one completed call in a serial history -/
structure Ev (ω ο : Type) where
  thread : Nat
  call : ω
  out : ο

def evOf (t : Nat) (hist : List (Ev ω ο)) : List (Ev ω ο) := hist.filter (fun e => e.thread == t)

/-- run calls one after the other on the sequential model -/
def runSeq (step : ω → σ → σ × ο) : σ → List ω → σ × List ο
  | s, [] => (s, [])
  | s, o :: os =>
    let r := step o s
    let r2 := runSeq step r.1 os
    (r2.1, r.2 :: r2.2)

theorem runSeq_append (step : ω → σ → σ × ο) (s : σ) (a b : List ω) :
    runSeq step s (a ++ b) =
      ((runSeq step (runSeq step s a).1 b).1, (runSeq step s a).2 ++ (runSeq step (runSeq step s a).1 b).2) := by
  induction a generalizing s with
  | nil => simp [runSeq]
  | cons o a ih => simp only [List.cons_append, runSeq]; rw [ih]

structure LinHist (res : ρ → List ο) (sem : ω → List (Act σ ρ)) (step : ω → σ → σ × ο)
    (T : Nat → List ω) (s0 : σ) (s : SCfg σ ρ) (hist : List (Ev ω ο)) : Prop where
  rem : ∃ rem : Nat → List ω, (∀ t, (s.th t).ops = (rem t).map sem) ∧
          ∀ t, (evOf t hist).map (·.call) ++ rem t = T t
  outs : ∀ t, res (s.th t).loc = (evOf t hist).map (·.out)
  run : runSeq step s0 (hist.map (·.call)) = (s.sh, hist.map (·.out))

theorem evOf_snoc_same (t : Nat) (hist : List (Ev ω ο)) (e : Ev ω ο) (h : e.thread = t) :
    evOf t (hist ++ [e]) = evOf t hist ++ [e] := by
  simp [evOf, List.filter_append, h]

theorem evOf_snoc_other (t : Nat) (hist : List (Ev ω ο)) (e : Ev ω ο) (h : e.thread ≠ t) :
    evOf t (hist ++ [e]) = evOf t hist := by
  simp [evOf, List.filter_append, h]

theorem linHist_step (res : ρ → List ο) (sem : ω → List (Act σ ρ)) (step : ω → σ → σ × ο)
    (T : Nat → List ω) (s0 : σ)
    (hseq : ∀ o x l, (runActs (sem o) (x, l)).1 = (step o x).1 ∧
                     res (runActs (sem o) (x, l)).2 = res l ++ [(step o x).2])
    (s : SCfg σ ρ) (hist : List (Ev ω ο)) (h : LinHist res sem step T s0 s hist) (t : Nat) :
    ∃ hist', LinHist res sem step T s0 (serialStep s t) hist' := by
  obtain ⟨rem, hrem, hT⟩ := h.rem
  cases hr : rem t with
  | nil =>
    have : (s.th t).ops = [] := by rw [hrem t, hr]; rfl
    refine ⟨hist, ?_⟩
    have hs : serialStep s t = s := by simp [serialStep, this]
    rw [hs]; exact h
  | cons o rest =>
    have hops : (s.th t).ops = sem o :: rest.map sem := by rw [hrem t, hr]; rfl
    obtain ⟨hsh, hres⟩ := hseq o s.sh (s.th t).loc
    let e : Ev ω ο := ⟨t, o, (step o s.sh).2⟩
    refine ⟨hist ++ [e], ?_⟩
    have hstep : serialStep s t =
        { sh := (runActs (sem o) (s.sh, (s.th t).loc)).1,
          th := setTh s.th t ⟨(runActs (sem o) (s.sh, (s.th t).loc)).2, rest.map sem⟩ } := by
      simp [serialStep, hops]
    rw [hstep]
    constructor
    · refine ⟨fun u => if u = t then rest else rem u, ?_, ?_⟩
      · intro u
        by_cases hu : u = t
        · subst hu; simp [setTh]
        · simp [setTh, hu, hrem u]
      · intro u
        by_cases hu : u = t
        · subst hu
          rw [evOf_snoc_same u hist e rfl]
          simp only [if_true, List.map_append, List.map_cons, List.map_nil, List.append_assoc,
            List.cons_append, List.nil_append]
          rw [← hT u, hr]
        · have hne : e.thread ≠ u := fun x => hu x.symm
          rw [evOf_snoc_other u hist e hne]
          simp only [hu, if_false]
          exact hT u
    · intro u
      by_cases hu : u = t
      · subst hu
        rw [evOf_snoc_same u hist e rfl]
        simp only [setTh, if_true, List.map_append, List.map_cons, List.map_nil]
        rw [hres, h.outs u]
      · have hne : e.thread ≠ u := fun x => hu x.symm
        rw [evOf_snoc_other u hist e hne]
        simp only [setTh, hu, if_false]
        exact h.outs u
    · simp only [List.map_append, List.map_cons, List.map_nil]
      rw [runSeq_append, h.run]
      simp only [hsh]
      simp [runSeq, e]

theorem linHist_run (res : ρ → List ο) (sem : ω → List (Act σ ρ)) (step : ω → σ → σ × ο)
    (T : Nat → List ω) (s0 : σ)
    (hseq : ∀ o x l, (runActs (sem o) (x, l)).1 = (step o x).1 ∧
                     res (runActs (sem o) (x, l)).2 = res l ++ [(step o x).2])
    (order : List Nat) : ∀ (s : SCfg σ ρ) (hist : List (Ev ω ο)), LinHist res sem step T s0 s hist →
    ∃ hist', LinHist res sem step T s0 (serialRun order s) hist' := by
  induction order with
  | nil => intro s hist h; exact ⟨hist, h⟩
  | cons t order ih =>
    intro s hist h
    obtain ⟨hist1, h1⟩ := linHist_step res sem step T s0 hseq s hist h t
    exact ih (serialStep s t) hist1 h1

end Tls.Conc
