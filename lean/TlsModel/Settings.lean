import TlsModel.SettingsBase
import TlsModel.Gen.Settings
/-
  C19 — model of `HandshakeSettings.validate()` (tlslite/handshakesettings.py).

  Part 1: object-store semantics of the alias/copy/mutate op list that the translator reads from the
          AST of `validate()` and its helpers, and the decidable check `pureOps`.
  Part 2: value-level model `validate : Env → Settings → Except String Settings`, mirroring every
          `_sanityCheck*` in program order (the error string is the constant prefix of the Python
          message), the version filter, the MAC filter for `maxVersion < (3,3)`, backend and 3DES
          filtering.  All name lists and defaults come from `Gen` (regenerated on every run).
-/
namespace Tls.Settings

/-! ## Part 1 — object store -/

/-- heap of list objects plus the attribute bindings of the receiver (`self`) and of the copy -/
structure Store (α : Type) where
  objs : Nat → α
  next : Nat
  selfF : String → Option Nat
  otherF : String → Option Nat

/-- everything the abstraction leaves open: contents of new objects, what an in-place change does,
    which `raise` sites fire, and what an unclassified statement does -/
structure Interp (α : Type) where
  new : Nat → α
  mutf : Nat → α → α
  raises : Nat → Bool
  havoc : Store α → Store α

def setF (m : String → Option Nat) (f : String) (v : Option Nat) : String → Option Nat :=
  fun g => if g = f then v else m g

def setObj {α : Type} (h : Nat → α) (o : Nat) (v : α) : Nat → α :=
  fun p => if p = o then v else h p

def Store.lookup {α : Type} (st : Store α) : Owner → String → Option Nat
  | .self, f => st.selfF f
  | .other, f => st.otherF f

/-- one effect; `none` = a Python exception (missing attribute, or a `raise` that fires) leaves
    `validate()`, nothing more is executed -/
def step {α : Type} (I : Interp α) : Act → Store α → Option (Store α)
  | .initOther fields, st =>
    some { st with
      otherF := fun f => if f ∈ fields then some (st.next + fields.idxOf f) else none
      objs := fun p => if st.next ≤ p ∧ p < st.next + fields.length then I.new p else st.objs p
      next := st.next + fields.length }
  | .alias dst o src, st =>
    (st.lookup o src).map fun p => { st with otherF := setF st.otherF dst (some p) }
  | .copy dst o src, st =>
    (st.lookup o src).map fun p =>
      { st with objs := setObj st.objs st.next (st.objs p)
                otherF := setF st.otherF dst (some st.next)
                next := st.next + 1 }
  | .fresh dst k, st =>
    some { st with objs := setObj st.objs st.next (I.new k)
                   otherF := setF st.otherF dst (some st.next)
                   next := st.next + 1 }
  | .mutate o tgt k, st =>
    (st.lookup o tgt).map fun p => { st with objs := setObj st.objs p (I.mutf k (st.objs p)) }
  | .rebindSelf dst, st =>
    some { st with objs := setObj st.objs st.next (I.new 0)
                   selfF := setF st.selfF dst (some st.next)
                   next := st.next + 1 }
  | .mayRaise k, st => if I.raises k then none else some st
  | .unknown _, st => some (I.havoc st)

/-- `bits[i]` = truth value of branch condition `i` on this run -/
def guardsHold (bits : List Bool) (gs : List (Nat × Bool)) : Bool :=
  gs.all fun g => bits.getD g.1 false == g.2

def runOps {α : Type} (I : Interp α) (bits : List Bool) : List AliasOp → Store α → Store α
  | [], st => st
  | op :: rest, st =>
    if guardsHold bits op.guards then
      match step I op.act st with
      | some st' => runOps I bits rest st'
      | none => st
    else runOps I bits rest st

/-- which attributes of `other` may refer to an object that the receiver can also reach -/
abbrev Taint := String → Bool

/-- abstract effect on the taint; `none` = the op may change something the receiver reaches -/
def stepTaint : Act → Taint → Option Taint
  | .initOther _, _ => some fun _ => false
  | .alias dst .self _, T => some fun f => if f = dst then true else T f
  | .alias dst .other src, T => some fun f => if f = dst then T src else T f
  | .copy dst _ _, T => some fun f => if f = dst then false else T f
  | .fresh dst _, T => some fun f => if f = dst then false else T f
  | .mutate .self _ _, _ => none
  | .mutate .other tgt _, T => if T tgt then none else some T
  | .rebindSelf _, _ => none
  | .mayRaise _, T => some T
  | .unknown _, _ => none

def pureFrom (bits : List Bool) : List AliasOp → Taint → Bool
  | [], _ => true
  | op :: rest, T =>
    if guardsHold bits op.guards then
      match stepTaint op.act T with
      | some T' => pureFrom bits rest T'
      | none => false
    else pureFrom bits rest T

/-- taint at the end of a run (for the correspondence with `result.f is receiver.f`) -/
def finalTaint (bits : List Bool) : List AliasOp → Taint → Option Taint
  | [], T => some T
  | op :: rest, T =>
    if guardsHold bits op.guards then
      match stepTaint op.act T with
      | some T' => finalTaint bits rest T'
      | none => none
    else finalTaint bits rest T

def condBound (ops : List AliasOp) : Nat :=
  ops.foldl (fun n op => op.guards.foldl (fun m g => max m (g.1 + 1)) n) 0

def guardsBelow (n : Nat) (ops : List AliasOp) : Bool :=
  ops.all fun op => op.guards.all fun g => g.1 < n

def allBits : Nat → List (List Bool)
  | 0 => [[]]
  | n + 1 => (allBits n).flatMap fun l => [false :: l, true :: l]

/-- on every path (every truth assignment of the branch conditions) no op changes an object the
    receiver reaches, re-binds a receiver attribute, or is unclassified.  Before `initOther` every
    attribute of `other` counts as shared. -/
def pureOps (ops : List AliasOp) : Bool :=
  guardsBelow (condBound ops) ops &&
    (allBits (condBound ops)).all fun bits => pureFrom bits ops (fun _ => true)

/-- No list that the copy returned by `validate()` may share with the receiver (on any path) is among
    the lists `mutated` that the rest of the library changes in place. -/
def useSafe (ops : List AliasOp) (mutated : List String) : Bool :=
  (allBits (condBound ops)).all fun bits =>
    match finalTaint bits ops (fun _ => true) with
    | some T => mutated.all fun f => !T f
    | none => false

/-! ## Part 2 — value level -/

def notMatching (values sieve : List String) : List String :=
  values.filter fun v => !sieve.contains v

/-- integer comparisons as explicit Boolean functions (no `Decidable` instance mentions the operands,
    so that `simp` can rewrite them) -/
def ilt (a b : Int) : Bool := decide (a < b)
def ile (a b : Int) : Bool := decide (a ≤ b)

def chk (bad : Bool) (msg : String) : Option String := if bad then some msg else none

def firstSome : List (Option String) → Option String
  | [] => none
  | some e :: _ => some e
  | none :: r => firstSome r

/-- `VirtualHost.validate` / `Keypair.validate` -/
def vhostErr (vh : List (Bool × Bool)) : Option String :=
  bif vh.isEmpty then some "Virtual host missing keys"
  else bif vh.any (fun k => !(k.1 && k.2)) then some "Key or certificate missing in Keypair"
  else none

def vhostsErr : List (List (Bool × Bool)) → Option String
  | [] => none
  | v :: r => match vhostErr v with
    | some e => some e
    | none => vhostsErr r

def pskHashOk (p : Psk) : Bool :=
  match p.hash with
  | some h => h == "sha256" || h == "sha384"
  | none => false

/-- `validate()` up to and including `_sanityCheckProtocolVersions`' three tests -/
def stageA (env : Env) (s : Settings) : List (Option String) := [
  chk s.certificateTypes.isEmpty "No supported certificate types",
  -- _sanityCheckKeySizes
  chk (ilt s.minKeySize 512) "minKeySize too small",
  chk (ilt 16384 s.minKeySize) "minKeySize too large",
  chk (ilt s.maxKeySize 512) "maxKeySize too small",
  chk (ilt 16384 s.maxKeySize) "maxKeySize too large",
  chk (ilt s.maxKeySize s.minKeySize) "maxKeySize smaller than minKeySize",
  vhostsErr s.virtual_hosts,
  -- _sanityCheckCipherSettings
  chk (!(notMatching s.cipherNames (Gen.allCipherNames env)).isEmpty) "Unknown cipher name: ",
  chk (!(notMatching s.macNames (Gen.allMacNames env)).isEmpty) "Unknown MAC name: ",
  chk (!(notMatching s.keyExchangeNames (Gen.keyExchangeNames env)).isEmpty) "Unknown key exchange name: ",
  chk (!(notMatching s.cipherImplementations (Gen.cipherImplementations env)).isEmpty)
    "Unknown cipher implementation: ",
  -- _sanityCheckECDHSettings
  chk (!(notMatching s.eccCurves (Gen.allCurveNames env)).isEmpty) "Unknown ECC Curve name: ",
  chk (!(Gen.allCurveNames env).contains s.defaultCurve) "Unknown default ECC Curve name: ",
  chk (s.keyShares.any fun v => !s.eccCurves.contains v && !s.dhGroups.contains v)
    "Key shares for not enabled groups specified: ",
  chk (!(notMatching s.ecdsaSigHashes (Gen.ecdsaSignatureHashes env)).isEmpty) "Unknown ECDSA signature hash: '",
  chk (!(notMatching s.more_sig_schemes (Gen.signatureSchemes env)).isEmpty) "Unkonwn more_sig_schemes specified: '",
  chk (!(notMatching s.dhGroups (Gen.allDhGroupNames env)).isEmpty) "Unknown FFDHE group name: '",
  chk (!s.versions.contains (3, 3) && s.versions.contains (3, 4) &&
        !(notMatching s.eccCurves (Gen.tls13PermittedGroups env)).isEmpty)
    "The following enabled groups are forbidden in TLS 1.3: ",
  -- _sanityCheckDHSettings
  chk (s.keyShares.any fun v => !(Gen.allDhGroupNames env).contains v && !(Gen.allCurveNames env).contains v)
    "Unknown key share: '",
  chk (s.dhParams == .malformed) "DH parameters need to be a tuple of integers",
  -- _sanityCheckPrimitivesNames
  chk (!(notMatching s.certificateTypes (Gen.certificateTypes env)).isEmpty) "Unknown certificate type: ",
  chk (!(notMatching s.rsaSigHashes (Gen.allRsaSignatureHashes env)).isEmpty) "Unknown RSA signature hash: '",
  chk (!(notMatching s.rsaSchemes (Gen.rsaSchemes env)).isEmpty) "Unknown RSA padding mode: '",
  chk (!(notMatching s.dsaSigHashes (Gen.dsaSignatureHashes env)).isEmpty) "Unknown DSA signature hash: '",
  chk (s.rsaSigHashes.isEmpty && s.ecdsaSigHashes.isEmpty && s.dsaSigHashes.isEmpty &&
        s.more_sig_schemes.isEmpty && verLe (3, 3) s.maxVersion)
    "TLS 1.2 requires signature algorithms to be set",
  -- _sanityCheckProtocolVersions
  chk (verLt s.maxVersion s.minVersion) "Versions set incorrectly",
  chk (!(Gen.knownVersions env).contains s.minVersion) "minVersion set incorrectly",
  chk (!(Gen.knownVersions env).contains s.maxVersion) "maxVersion set incorrectly" ]

/-- `if other.maxVersion < (3, 4): other.versions = [i for i in other.versions if i < (3, 4)]` -/
def filterVersions (s : Settings) : Settings :=
  { s with versions := bif verLt s.maxVersion (3, 4) then s.versions.filter (fun v => verLt v (3, 4))
                       else s.versions }

/-- `_sanityCheckExtensions` (incl. `_sanityCheckEMSExtension`) -/
def stageB (env : Env) (s : Settings) : List (Option String) := [
  chk (s.useEncryptThenMAC == .other) "useEncryptThenMAC can only be True or False",
  chk (s.usePaddingExtension == .other) "usePaddingExtension must be True or False",
  chk (s.use_heartbeat_extension == .other) "use_heartbeat_extension must be True or False",
  chk (s.heartbeat_response_callback && !s.use_heartbeat_extension.truthy)
    "heartbeat_response_callback requires use_heartbeat_extension",
  chk (match s.record_size_limit with
       | none => false
       | some v => !(ile 64 v && ile v 16385))
    "record_size_limit cannot exceed 2**14+1 bytes",
  chk (s.ec_point_formats.any fun r => !(Gen.ecPointFormats env).contains r) "Unknown EC point format provided: ",
  chk (!s.ec_point_formats.contains Gen.ecPointUncompressed) "Uncompressed EC point format is not provided",
  chk (match s.dc_sig_algs with
       | .scheme x => (Gen.delegetedCredentialForbiddenAlg env).contains x
       | .list _ => false)
    "The usage of the algorithm is forbidden to use with delegated credentials",
  chk (ilt (Gen.dcValidTime env) s.dc_valid_time) "Delegated credentials cannot be valid for more than 7 days.",
  chk (s.useExtendedMasterSecret == .other) "useExtendedMasterSecret must be True or False",
  chk (s.requireExtendedMasterSecret == .other) "requireExtendedMasterSecret must be True or False",
  chk (s.requireExtendedMasterSecret.truthy && !s.useExtendedMasterSecret.truthy)
    "requireExtendedMasterSecret requires useExtendedMasterSecret",
  chk (!s.certificate_compression_send.isEmpty &&
        !(notMatching s.certificate_compression_send (Gen.allCompressionAlgosSend env)).isEmpty)
    "Unknown compression algorithm: '",
  chk (!s.certificate_compression_receive.isEmpty &&
        !(notMatching s.certificate_compression_receive (Gen.allCompressionAlgosReceive env)).isEmpty)
    "Unknown compression algorithm: '" ]

/-- `if other.maxVersion < (3, 3): other.macNames = [e for e in self.macNames if e == "sha" or e == "md5"]`
    (`self.macNames` and `other.macNames` are the same list at that point) -/
def filterMacs (s : Settings) : Settings :=
  { s with macNames := bif verLt s.maxVersion (3, 3) then s.macNames.filter (fun e => e == "sha" || e == "md5")
                       else s.macNames }

/-- `_sanityCheckPsks`, `_sanityCheckTicketSettings` -/
def stageC (env : Env) (s : Settings) : List (Option String) := [
  chk (s.pskConfigs.any fun p => !(p.len == 2 || p.len == 3)) "pskConfigs items must be a 2 or 3-elementtuples",
  chk (s.pskConfigs.any fun p => p.len == 3 && !pskHashOk p) "pskConfigs include invalid hash specifications: ",
  chk (s.psk_modes.any fun m => !(Gen.pskModes env).contains m) "psk_modes includes invalid key exchange modes: ",
  chk (!(Gen.ticketCiphers env).contains s.ticketCipher) "Invalid cipher for session ticket encryption: ",
  chk (s.ticketKeys.any fun n => !(n == 16 || n == 32)) "Session ticket encryption keys must be 16 or 32bytes long",
  chk (!(ilt 0 s.ticketLifetime && ile s.ticketLifetime 604800))
    "Ticket lifetime must be a positive integer smaller or equal 604800 (7 days)",
  chk (!(ilt 0 s.max_early_data && ile s.max_early_data 18446744073709551616))
    "max_early_data must be between 0 and 2GiB",
  chk (!(ile 0 s.ticket_count && ilt s.ticket_count 65536))
    "Incorrect amount for number of new session tickets to send" ]

/-- `_remove_all_matches(other.cipherImplementations, "openssl")` unless m2crypto is loaded, then the
    same for "pycrypto" -/
def loadedImpls (env : Env) (impls : List String) : List String :=
  (impls.filter fun i => env.m2crypto || i != "openssl").filter fun i => env.pycrypto || i != "pycrypto"

/-- `_sanity_check_implementations`: drop the backends that are not loaded (on a copy) -/
def filterImpls (env : Env) (s : Settings) : Settings :=
  { s with cipherImplementations := loadedImpls env s.cipherImplementations }

/-- `_sanity_check_ciphers`: drop "3des" when no implementation of it exists (on a copy) -/
def filter3des (env : Env) (s : Settings) : Settings :=
  { s with cipherNames := bif env.tripleDES then s.cipherNames else s.cipherNames.filter fun c => c != "3des" }

/-- the tail of `validate()`: `_sanity_check_implementations`, `_sanity_check_ciphers`, `return other` -/
def validateD (env : Env) (s2 : Settings) : Except String Settings :=
  let s3 := filterImpls env s2
  bif s3.cipherImplementations.isEmpty then .error "No supported cipher implementations"
  else
    let s4 := filter3des env s3
    bif s4.cipherNames.isEmpty then .error "No supported ciphers" else .ok s4

/-- from the MAC filter on -/
def validateC (env : Env) (s1 : Settings) : Except String Settings :=
  let s2 := filterMacs s1
  match firstSome (stageC env s2) with
  | some e => .error e
  | none => validateD env s2

/-- from `_sanityCheckProtocolVersions`' filter on -/
def validateB (env : Env) (s : Settings) : Except String Settings :=
  let s1 := filterVersions s
  match firstSome (stageB env s1) with
  | some e => .error e
  | none => validateC env s1

def validate (env : Env) (s : Settings) : Except String Settings :=
  match firstSome (stageA env s) with
  | some e => .error e
  | none => validateB env s

/-- the error message, if any (decidable view of the result for examples and the driver) -/
def errorOf (r : Except String Settings) : Option String :=
  match r with
  | .error e => some e
  | .ok _ => none

/-- all four filters at once -/
def normalize (env : Env) (s : Settings) : Settings :=
  filter3des env (filterImpls env (filterMacs (filterVersions s)))

/-! ### the documented domains (written from the docstrings of `HandshakeSettings` and the error
messages of its checks, *not* from the generated tables: `Props/C19.lean` proves that a successful
`validate` implies them, so a table that grows beyond the documentation breaks the theorem) -/

/-- docstring of `cipherNames` plus the CCM suites (RFC 6655), which the code accepts and enables by
    default but the docstring does not list yet -/
def docCipherNames : List String :=
  ["chacha20-poly1305", "aes256gcm", "aes128gcm", "aes256", "aes128", "3des",
   "chacha20-poly1305_draft00", "null", "rc4", "aes256ccm", "aes128ccm", "aes128ccm_8", "aes256ccm_8"]
def docMacNames : List String := ["sha384", "sha256", "aead", "sha", "md5"]
def docCertificateTypes : List String := ["x509"]
/-- the docstrings of `minVersion`/`maxVersion` stop at (3, 3); (3, 4) is the shipped default -/
def docVersions : List Ver := [(3, 0), (3, 1), (3, 2), (3, 3), (3, 4)]
def docRsaSigHashes : List String := ["md5", "sha1", "sha224", "sha256", "sha384", "sha512"]
def docSigHashes : List String := ["sha1", "sha224", "sha256", "sha384", "sha512"]
def docRsaSchemes : List String := ["pss", "pkcs1"]
def docMoreSigSchemes (env : Env) : List String :=
  ["Ed25519", "Ed448", "ecdsa_brainpoolP256r1tls13_sha256", "ecdsa_brainpoolP384r1tls13_sha384",
   "ecdsa_brainpoolP512r1tls13_sha512"] ++ (bif env.mlDsa then ["mldsa44", "mldsa65", "mldsa87"] else [])
def docKeyExchangeNames : List String :=
  ["rsa", "dhe_rsa", "ecdhe_rsa", "ecdhe_ecdsa", "dhe_dsa", "srp_sha", "srp_sha_rsa", "ecdh_anon", "dh_anon"]
def docImplementations : List String := ["openssl", "pycrypto", "python"]
def docCurves (env : Env) : List String :=
  ["secp256r1", "secp384r1", "secp521r1", "secp256k1", "x25519", "x448",
   "brainpoolP256r1", "brainpoolP384r1", "brainpoolP512r1",
   "brainpoolP256r1tls13", "brainpoolP384r1tls13", "brainpoolP512r1tls13"] ++
  (bif env.ecdsaAllCurves then ["secp224r1", "secp192r1"] else []) ++
  (bif env.mlKem then ["secp256r1mlkem768", "x25519mlkem768", "secp384r1mlkem1024"] else [])
def docDhGroups : List String := ["ffdhe2048", "ffdhe3072", "ffdhe4096", "ffdhe6144", "ffdhe8192"]
def docTicketCiphers : List String :=
  ["aes256gcm", "aes128gcm", "chacha20-poly1305", "aes128ccm", "aes128ccm_8", "aes256ccm", "aes256ccm_8"]
def docPskModes : List String := ["psk_dhe_ke", "psk_ke"]
def docCompression : List String := ["zlib", "brotli", "zstd"]

/-- every setting inside its documented domain -/
structure InDomain (env : Env) (s : Settings) : Prop where
  keySizes : 512 ≤ s.minKeySize ∧ s.minKeySize ≤ s.maxKeySize ∧ s.maxKeySize ≤ 16384
  virtualHosts : ∀ vh ∈ s.virtual_hosts, vh ≠ [] ∧ ∀ k ∈ vh, k = (true, true)
  cipherNames : s.cipherNames ≠ [] ∧ ∀ a ∈ s.cipherNames, a ∈ docCipherNames
  macNames : ∀ a ∈ s.macNames, a ∈ docMacNames
  keyExchangeNames : ∀ a ∈ s.keyExchangeNames, a ∈ docKeyExchangeNames
  cipherImplementations : ∀ a ∈ s.cipherImplementations, a ∈ docImplementations
  certificateTypes : s.certificateTypes ≠ [] ∧ ∀ a ∈ s.certificateTypes, a ∈ docCertificateTypes
  versions : s.minVersion ∈ docVersions ∧ s.maxVersion ∈ docVersions ∧ verLe s.minVersion s.maxVersion = true
  rsaSigHashes : ∀ a ∈ s.rsaSigHashes, a ∈ docRsaSigHashes
  dsaSigHashes : ∀ a ∈ s.dsaSigHashes, a ∈ docSigHashes
  ecdsaSigHashes : ∀ a ∈ s.ecdsaSigHashes, a ∈ docSigHashes
  rsaSchemes : ∀ a ∈ s.rsaSchemes, a ∈ docRsaSchemes
  moreSigSchemes : ∀ a ∈ s.more_sig_schemes, a ∈ docMoreSigSchemes env
  sigAlgsForTls12 : verLe (3, 3) s.maxVersion = true →
    s.rsaSigHashes ≠ [] ∨ s.ecdsaSigHashes ≠ [] ∨ s.dsaSigHashes ≠ [] ∨ s.more_sig_schemes ≠ []
  eccCurves : ∀ a ∈ s.eccCurves, a ∈ docCurves env
  defaultCurve : s.defaultCurve ∈ docCurves env
  dhGroups : ∀ a ∈ s.dhGroups, a ∈ docDhGroups
  keyShares : ∀ a ∈ s.keyShares, a ∈ s.eccCurves ∨ a ∈ s.dhGroups
  dhParams : s.dhParams ≠ .malformed
  flags : s.useEncryptThenMAC ≠ .other ∧ s.usePaddingExtension ≠ .other ∧
    s.use_heartbeat_extension ≠ .other ∧ s.useExtendedMasterSecret ≠ .other ∧
    s.requireExtendedMasterSecret ≠ .other
  requireEMS : s.requireExtendedMasterSecret = .t → s.useExtendedMasterSecret = .t
  heartbeatCallback : s.heartbeat_response_callback = true → s.use_heartbeat_extension = .t
  recordSizeLimit : ∀ v, s.record_size_limit = some v → 64 ≤ v ∧ v ≤ 2 ^ 14 + 1
  ecPointFormats : (∀ r ∈ s.ec_point_formats, r = 0 ∨ r = 1) ∧ 0 ∈ s.ec_point_formats
  dcValidTime : s.dc_valid_time ≤ 604800
  compressionSend : ∀ a ∈ s.certificate_compression_send, a ∈ docCompression
  compressionReceive : ∀ a ∈ s.certificate_compression_receive, a ∈ docCompression
  pskConfigs : ∀ p ∈ s.pskConfigs, p.len = 2 ∨ (p.len = 3 ∧ (p.hash = some "sha256" ∨ p.hash = some "sha384"))
  pskModes : ∀ a ∈ s.psk_modes, a ∈ docPskModes
  ticketCipher : s.ticketCipher ∈ docTicketCiphers
  ticketKeys : ∀ n ∈ s.ticketKeys, n = 16 ∨ n = 32
  ticketLifetime : 0 < s.ticketLifetime ∧ s.ticketLifetime ≤ 7 * 24 * 60 * 60
  maxEarlyData : 0 < s.max_early_data ∧ s.max_early_data ≤ 2 ^ 64
  ticketCount : 0 ≤ s.ticket_count ∧ s.ticket_count < 2 ^ 16

/-- the validated object names only what this installation (`env`) can actually do -/
structure SupportedBy (env : Env) (o : Settings) : Prop where
  implementations : ∀ i ∈ o.cipherImplementations,
    i = "python" ∨ (i = "openssl" ∧ env.m2crypto = true) ∨ (i = "pycrypto" ∧ env.pycrypto = true)
  tripleDES : "3des" ∈ o.cipherNames → env.tripleDES = true
  ciphers : ∀ a ∈ o.cipherNames, a ∈ Gen.allCipherNames env
  macs : ∀ a ∈ o.macNames, a ∈ Gen.allMacNames env
  tls10macs : verLt o.maxVersion (3, 3) = true → ∀ a ∈ o.macNames, a = "sha" ∨ a = "md5"
  noTls13WithoutIt : verLt o.maxVersion (3, 4) = true → ∀ v ∈ o.versions, verLt v (3, 4) = true
  curves : ∀ a ∈ o.eccCurves, a ∈ Gen.allCurveNames env
  mlKemCurves : env.mlKem = false →
    ∀ a ∈ o.eccCurves ++ o.keyShares, a ∉ ["secp256r1mlkem768", "x25519mlkem768", "secp384r1mlkem1024"]
  keyShares : ∀ a ∈ o.keyShares, a ∈ Gen.allDhGroupNames env ∨ a ∈ Gen.allCurveNames env
  sigSchemes : ∀ a ∈ o.more_sig_schemes, a ∈ Gen.signatureSchemes env
  mlDsaSchemes : env.mlDsa = false → ∀ a ∈ o.more_sig_schemes, a ∉ ["mldsa87", "mldsa65", "mldsa44"]
  compressionSend : ∀ a ∈ o.certificate_compression_send, a ∈ Gen.allCompressionAlgosSend env
  compressionReceive : ∀ a ∈ o.certificate_compression_receive, a ∈ Gen.allCompressionAlgosReceive env
  brotliSend : "brotli" ∈ o.certificate_compression_send → env.brotliCompress = true
  zstdSend : "zstd" ∈ o.certificate_compression_send → env.zstdCompress = true
  brotliReceive : "brotli" ∈ o.certificate_compression_receive → env.brotliDecompress = true
  zstdReceive : "zstd" ∈ o.certificate_compression_receive → env.zstdDecompress = true

/-! ### model-level compatibility (second half of C19; the live part is shared with C03/C07) -/

/-- versions an endpoint with validated settings `s` is willing to negotiate -/
def offeredVersions (s : Settings) : List Ver :=
  s.versions.filter fun v => verLe s.minVersion v && verLe v s.maxVersion

/-- two validated endpoints share a version, a cipher, a MAC, a key exchange and (for the EC / FFDH
    exchanges) a group — the model-level precondition of "compatible settings connect" -/
def compatible (c srv : Settings) : Bool :=
  (offeredVersions c).any (fun v => (offeredVersions srv).contains v) &&
  c.cipherNames.any (fun n => srv.cipherNames.contains n) &&
  c.macNames.any (fun n => srv.macNames.contains n) &&
  c.keyExchangeNames.any (fun n => srv.keyExchangeNames.contains n) &&
  ((c.eccCurves ++ c.dhGroups).any fun g => (srv.eccCurves ++ srv.dhGroups).contains g)

end Tls.Settings
