/-
  C19 — types shared by the generated tables (`TlsModel/Gen/Settings.lean`) and the hand-written
  model (`TlsModel/Settings.lean`) of `tlslite/handshakesettings.py`.  Core Lean only.
-/
namespace Tls.Settings

/-- What the running installation has.  Every module-level conditional of handshakesettings.py and
    every backend test inside `validate()` reads exactly one of these. -/
structure Env where
  m2crypto : Bool          -- cryptomath.m2cryptoLoaded
  pycrypto : Bool          -- cryptomath.pycryptoLoaded
  tripleDES : Bool         -- cipherfactory.tripleDESPresent
  mlKem : Bool             -- compat.ML_KEM_AVAILABLE
  mlDsa : Bool             -- compat.ML_DSA_AVAILABLE
  ecdsaAllCurves : Bool    -- compat.ecdsaAllCurves
  brotliCompress : Bool    -- compression_algo_impls["brotli_compress"] is truthy
  zstdCompress : Bool
  brotliDecompress : Bool
  zstdDecompress : Bool
deriving DecidableEq, Repr

/-- protocol version tuple `(major, minor)`; Python compares tuples lexicographically -/
abbrev Ver := Nat × Nat

def verLt (a b : Ver) : Bool := a.1 < b.1 || (a.1 == b.1 && a.2 < b.2)
def verLe (a b : Ver) : Bool := a.1 < b.1 || (a.1 == b.1 && a.2 ≤ b.2)

/-- A setting documented as "True or False".  `other` = any value that is neither `== True` nor
    `== False` (the code tests `x not in (True, False)`). -/
inductive Flag | t | f | other
deriving DecidableEq, Repr

def Flag.truthy : Flag → Bool
  | .t => true
  | _ => false

/-- `dhParams`: `None` (or anything falsy), a 2-tuple of integers, or anything else truthy -/
inductive DhParams | none | pair | malformed
deriving DecidableEq, Repr

/-- one `pskConfigs` item: the tuple length and, for length ≥ 3, the third element -/
structure Psk where
  len : Nat
  hash : Option String
deriving DecidableEq, Repr

/-- `dc_sig_algs`: documented as a list of signature schemes; the code compares the attribute
    itself with the members of DELEGETED_CREDENTIAL_FORBIDDEN_ALG, which only a bare scheme
    (tuple) can equal. -/
inductive DcAlgs
  | list (xs : List (Nat × Nat))
  | scheme (x : Nat × Nat)
deriving DecidableEq, Repr

/-- value-level view of a HandshakeSettings instance (every attribute set by `__init__`) -/
structure Settings where
  minKeySize : Int
  maxKeySize : Int
  rsaSigHashes : List String
  rsaSchemes : List String
  dsaSigHashes : List String
  /-- each virtual host = its keypairs as (key present, certificates non-empty) -/
  virtual_hosts : List (List (Bool × Bool))
  eccCurves : List String
  dhParams : DhParams
  dhGroups : List String
  defaultCurve : String
  keyShares : List String
  /-- `padding_cb is not None` -/
  padding_cb : Bool
  use_heartbeat_extension : Flag
  /-- truthiness of `heartbeat_response_callback` -/
  heartbeat_response_callback : Bool
  certificateTypes : List String
  useExperimentalTackExtension : Bool
  sendFallbackSCSV : Bool
  useEncryptThenMAC : Flag
  ecdsaSigHashes : List String
  more_sig_schemes : List String
  usePaddingExtension : Flag
  useExtendedMasterSecret : Flag
  requireExtendedMasterSecret : Flag
  pskConfigs : List Psk
  psk_modes : List String
  /-- lengths of the ticket keys -/
  ticketKeys : List Nat
  ticketCipher : String
  ticketLifetime : Int
  max_early_data : Int
  ticket_count : Int
  record_size_limit : Option Int
  ec_point_formats : List Nat
  certificate_compression_send : List String
  certificate_compression_receive : List String
  dc_sig_algs : DcAlgs
  dc_valid_time : Int
  minVersion : Ver
  maxVersion : Ver
  versions : List Ver
  cipherNames : List String
  macNames : List String
  keyExchangeNames : List String
  cipherImplementations : List String
deriving DecidableEq, Repr

/-! ### alias / copy / mutate structure of `validate()` (object-store abstraction) -/

inductive Owner | self | other
deriving DecidableEq, Repr

/-- One effect of `validate()` (or a helper it calls) on attribute bindings and list objects.
    `self` is the receiver, `other` the object created by `HandshakeSettings()` and returned. -/
inductive Act
  /-- `other = HandshakeSettings()`: every listed attribute of `other` is a brand-new object -/
  | initOther (fields : List String)
  /-- `other.dst = o.src` — the same object, now reachable from both -/
  | alias (dst : String) (o : Owner) (src : String)
  /-- `other.dst = o.src[:]`, `list(o.src)` — a new object with the same content -/
  | copy (dst : String) (o : Owner) (src : String)
  /-- `other.dst = <comprehension / literal / immutable value>` — a new object, content `new k` -/
  | fresh (dst : String) (k : Nat)
  /-- in-place change (`x[:] = …`, `.append`, `.remove`, `.sort`, `del x[i]`, `+=`) of the object
      `o.tgt` refers to; the new content is `mutf k old` -/
  | mutate (o : Owner) (tgt : String) (k : Nat)
  /-- `self.dst = …` — an attribute of the receiver is re-bound -/
  | rebindSelf (dst : String)
  /-- a `raise` site: the run may stop here -/
  | mayRaise (k : Nat)
  /-- a statement the translator could not classify -/
  | unknown (what : String)
deriving Repr

/-- an effect together with the branch conditions (condition id, polarity) it is executed under -/
structure AliasOp where
  guards : List (Nat × Bool)
  act : Act
deriving Repr

end Tls.Settings
