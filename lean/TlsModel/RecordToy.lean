import TlsModel.Record
/-
  Toy primitives for the record-layer model: concrete, executable instances of `Prims` used
  (a) by the drivers of C01/C02 — harness/props/rectoy.py implements the very same functions as
      duck-typed `encContext` / `macContext` objects plugged into a real `RecordLayer`, so that the
      wire bytes of model and implementation can be compared byte for byte, and
  (b) as non-vacuity witnesses for the hypotheses of the theorems in Props/C01.lean, Props/C02.lean.
  They are NOT cryptography.
-/
namespace Tls.Rec.Toy
open Tls.CT (MacAlg)

def modP : Nat := 2147483647   -- 2^31 - 1 (products stay below 2^63: no bignum arithmetic)

/-- rolling hash of key ‖ input -/
def roll (key x : Bytes) : Nat :=
  (key ++ x).foldl (fun a b => (a * 16777619 + b.toNat + 7) % modP) 0x1234

def tagBytes (a : Nat) (n : Nat) : Bytes :=
  (List.range n).map fun i => UInt8.ofNat ((a / 256 ^ (i % 4) + i * 17) % 256)

def toyMac (key : Bytes) (dlen mblock : Nat) : MacAlg :=
  { dlen := dlen, blockSize := mblock, digest := fun x => tagBytes (roll key x) dlen }

/-- key-stream byte at absolute position `i` -/
def ksByte (key : Bytes) (i : Nat) : UInt8 :=
  UInt8.ofNat ((key.getD (i % key.length) 0).toNat + i * 7 + i / 256)

/-- XOR stream cipher; the state is the stream position (8 bytes big endian) -/
def streamXor (key : Bytes) (st : Bytes) (data : Bytes) : Bytes × Bytes :=
  let pos := beDecode st
  (beEncode 8 (pos + data.length),
   (List.range data.length).zipWith (fun i b => b ^^^ ksByte key (pos + i)) data)

/-- toy block permutation: `E(b)[i] = b[(i+1) % bs] + key[i]` -/
def blockE (key : Bytes) (bs : Nat) (b : Bytes) : Bytes :=
  (List.range bs).map fun i => (b.getD ((i + 1) % bs) 0) + (key.getD (i % key.length) 0)

def blockD (key : Bytes) (bs : Nat) (c : Bytes) : Bytes :=
  (List.range bs).map fun j =>
    let i := (j + bs - 1) % bs
    (c.getD i 0) - (key.getD (i % key.length) 0)

/-- CBC over a block permutation; the state is the chaining block (initially the IV) -/
def cbcEnc (E : Bytes → Bytes) (bs : Nat) : Nat → Bytes → Bytes → Bytes × Bytes
  | 0, iv, _ => (iv, [])
  | n + 1, iv, data =>
    let c := E (xorBytes (data.take bs) iv)
    let r := cbcEnc E bs n c (data.drop bs)
    (r.1, c ++ r.2)

def cbcDec (D : Bytes → Bytes) (bs : Nat) : Nat → Bytes → Bytes → Bytes × Bytes
  | 0, iv, _ => (iv, [])
  | n + 1, iv, data =>
    let c := data.take bs
    let p := xorBytes (D c) iv
    let r := cbcDec D bs n c (data.drop bs)
    (r.1, p ++ r.2)

def aeadKs (key nonce : Bytes) (i : Nat) : UInt8 :=
  UInt8.ofNat ((key.getD (i % key.length) 0).toNat + (nonce.getD (i % nonce.length) 0).toNat + i)

def aeadXor (key nonce data : Bytes) : Bytes :=
  (List.range data.length).zipWith (fun i b => b ^^^ aeadKs key nonce i) data

def aeadTag (key : Bytes) (tagLen : Nat) (nonce aad ct : Bytes) : Bytes :=
  tagBytes (roll key (nonce ++ beEncode 2 aad.length ++ aad ++ ct)) tagLen

def toySeal (key : Bytes) (tagLen : Nat) (nonce pt aad : Bytes) : Bytes :=
  let ct := aeadXor key nonce pt
  ct ++ aeadTag key tagLen nonce aad ct

def toyOpen (key : Bytes) (tagLen : Nat) (nonce c aad : Bytes) : Option Bytes :=
  if c.length < tagLen then none
  else
    let ct := c.take (c.length - tagLen)
    let tag := c.drop (c.length - tagLen)
    if aeadTag key tagLen nonce aad ct == tag then some (aeadXor key nonce ct) else none

inductive Kind | stream | cbc
  deriving DecidableEq

/-- toy primitives; the cipher state is a byte string (stream position / chaining block) -/
def prims (kind : Kind) (macKey : Bytes) (dlen mblock : Nat) (bs : Nat) (key : Bytes) (tagLen : Nat) :
    Prims Bytes :=
  { mac := toyMac macKey dlen mblock
    bs := bs
    enc := fun s d =>
      match kind with
      | .stream => streamXor key s d
      | .cbc => cbcEnc (blockE key bs) bs (d.length / bs) s d
    dec := fun s d =>
      match kind with
      | .stream => streamXor key s d
      | .cbc => cbcDec (blockD key bs) bs (d.length / bs) s d
    tagLen := tagLen
    aeadSeal := toySeal key tagLen
    aeadOpen := toyOpen key tagLen }

end Tls.Rec.Toy
