import TlsModel.Basic
/-
  C05 — base vocabulary shared by the generated signature-scheme tables
  (`TlsModel/Gen/SigSchemes.lean`, regenerated from tlslite/constants.py on every run) and the
  hand-written authentication model (`TlsModel/Auth.lean`).  Core Lean only.
-/
namespace Tls.Auth

/-- names of `HashAlgorithm` (what `HashAlgorithm.toRepr` / `SignatureScheme.getHash` return) -/
inductive HashName
  | none | md5 | sha1 | sha224 | sha256 | sha384 | sha512 | intrinsic
  deriving DecidableEq, Repr, Inhabited

/-- RSA padding names used by `settings.rsaSchemes` and `SignatureScheme.getPadding` -/
inductive RsaPad
  | pkcs1 | pss
  deriving DecidableEq, Repr, Inhabited

/-- `SignatureScheme.getKeyType` -/
inductive KeyFam
  | rsa | ecdsa | dsa | eddsa | mldsa
  deriving DecidableEq, Repr, Inhabited

/-- entries of `settings.more_sig_schemes` -/
inductive MoreScheme
  | ed25519 | ed448 | bp256 | bp384 | bp512 | mldsa44 | mldsa65 | mldsa87
  deriving DecidableEq, Repr, Inhabited

/-- python-ecdsa curve names as seen through `publicKey.curve_name` -/
inductive Curve
  | nist256 | nist384 | nist521 | bp256 | bp384 | bp512 | other
  deriving DecidableEq, Repr, Inhabited

/-- wire identifier of a signature scheme: (hash byte, signature byte) -/
abbrev SchemeId := Nat × Nat

/-- What the `SignatureScheme` class says about an identifier that has a name:
    `toRepr` (the name), `getKeyType`, `getPadding` (RSA names only), `getHash`. -/
structure SchemeInfo where
  name : String
  fam : KeyFam
  pad : Option RsaPad
  hash : HashName
  deriving Repr, Inhabited

end Tls.Auth
