import TlsModel.Fmt
/-
  SSLv2-framed structures of tlslite/messages.py.  They do not fit the `Fmt` language: their
  length fields are grouped in front of the data they describe (`len1 len2 len3 data1 data2
  data3`), and the record header packs flags into the length bytes.  They are modelled directly;
  values are the generic `Val` so that the driver and the harness treat them like every other
  format.

    RecordHeader2           (n length, (n padding, n securityEscape))
    ClientHello(ssl2=True)  (n major, (n minor, ([n cipher...], (b session_id, b challenge))))
    ServerHello2            (n hit, (n cert_type, (n major, (n minor, (b cert, ([n cipher...], b session_id))))))
    ClientMasterKey         (n cipher, (b clear_key, (b encrypted_key, b key_argument)))
  (the handshake messages as `parse()` sees them, i.e. after the message type byte)
-/
namespace Tls.Ssl2
open Tls Tls.Fmt

/-! ## RecordHeader2 -/

/-- `RecordHeader2.write`: 2-byte header (bit 7 set) unless padding or security escape are
    present, then 3 bytes; `ValueError("length too large")` for lengths beyond 15 / 14 bits;
    `Writer.add(padding, 1)` raises for padding ≥ 256 -/
def rh2Encode (length padding : Nat) (esc : Bool) : Option Bytes :=
  let short := padding == 0 && !esc
  if (short && length ≥ 0x8000) || (!short && length ≥ 0x4000) then none
  else if padding ≥ 256 then none
  else
    let first := (if short then 0x80 else 0) ||| (if esc then 0x40 else 0) ||| (length >>> 8)
    let second := length &&& 0xff
    some ([UInt8.ofNat first, UInt8.ofNat second] ++ (if short then [] else [UInt8.ofNat padding]))

/-- `RecordHeader2.parse` into a fresh object (padding 0, securityEscape False by default) -/
def rh2Decode (b : Bytes) : Except Err ((Nat × Nat × Bool) × Bytes) :=
  match b with
  | f :: s :: rest =>
    if f.toNat &&& 0x80 ≠ 0 then
      .ok ((((f.toNat &&& 0x7f) <<< 8) ||| s.toNat, 0, false), rest)
    else
      match rest with
      | p :: rest' =>
        .ok ((((f.toNat &&& 0x3f) <<< 8) ||| s.toNat, p.toNat, decide (f.toNat &&& 0x40 ≠ 0)), rest')
      | [] => .error .truncated
  | _ => .error .truncated

/-! ## three 2-byte lengths, then the three byte strings -/

def enc3 (d1 d2 d3 : Bytes) : Option Bytes :=
  if d1.length < 65536 ∧ d2.length < 65536 ∧ d3.length < 65536 then
    some (beEncode 2 d1.length ++ beEncode 2 d2.length ++ beEncode 2 d3.length ++ d1 ++ d2 ++ d3)
  else none

/-- `a = get(2); b = get(2); c = get(2); setLengthCheck(a+b+c); getFixBytes(a) …; stopLengthCheck()` -/
def dec3 (b : Bytes) : Except Err ((Bytes × Bytes × Bytes) × Bytes) :=
  if shorter b 6 then .error .truncated
  else
    let l1 := beDecode (b.take 2)
    let l2 := beDecode ((b.drop 2).take 2)
    let l3 := beDecode ((b.drop 4).take 2)
    let body := b.drop 6
    if shorter body (l1 + l2 + l3) then .error .truncated
    else .ok ((body.take l1, (body.drop l1).take l2, (body.drop (l1 + l2)).take l3), body.drop (l1 + l2 + l3))

/-! ## 3-byte cipher kinds -/

def encCiphers : Val → Option Bytes
  | .nil => some []
  | .cons (.nat x) t =>
    if x < 256 ^ 3 then (encCiphers t).map (beEncode 3 x ++ ·) else none
  | _ => none

/-- `getFixList(3, len // 3)`; a length that is not a multiple of 3 leaves bytes unread and
    `stopLengthCheck` raises -/
def decCiphers : Nat → Bytes → Except Err Val
  | _, [] => .ok .nil
  | 0, _ :: _ => .error .noProgress
  | fuel + 1, b@(_ :: _) =>
    if shorter b 3 then .error .trailing
    else
      match decCiphers fuel (b.drop 3) with
      | .error e => .error e
      | .ok t => .ok (.cons (.nat (beDecode (b.take 3))) t)

def pad32 (c : Bytes) : Bytes := List.replicate (32 - c.length) 0 ++ c

/-! ## the three messages -/

def u8 (x : Nat) : Option Bytes := if x < 256 then some [UInt8.ofNat x] else none

/-- `ClientHello._writeSSL2` without the message type byte -/
def chEncode : Val → Option Bytes
  | .pair (.nat a) (.pair (.nat b) (.pair cs (.pair (.bytes sid) (.bytes ch)))) => do
    let a ← u8 a
    let b ← u8 b
    let c ← encCiphers cs
    let r ← enc3 c sid ch
    pure (a ++ b ++ r)
  | _ => none

/-- `ClientHello.parse` with `ssl2=True`; a challenge shorter than 32 bytes is left-padded -/
def chDecode (b : Bytes) : Except Err (Val × Bytes) :=
  match b with
  | a :: m :: rest =>
    match dec3 rest with
    | .error e => .error e
    | .ok ((c, sid, ch), r) =>
      match decCiphers c.length c with
      | .error e => .error e
      | .ok cs =>
        .ok (.pair (.nat a.toNat) (.pair (.nat m.toNat) (.pair cs (.pair (.bytes sid) (.bytes (pad32 ch))))), r)
  | _ => .error .truncated

/-- `ServerHello2.write` without the message type byte -/
def shEncode : Val → Option Bytes
  | .pair (.nat hit) (.pair (.nat ct) (.pair (.nat a) (.pair (.nat b)
      (.pair (.bytes cert) (.pair cs (.bytes sid)))))) => do
    let hit ← u8 hit
    let ct ← u8 ct
    let a ← u8 a
    let b ← u8 b
    let c ← encCiphers cs
    let r ← enc3 cert c sid
    pure (hit ++ ct ++ a ++ b ++ r)
  | _ => none

def shDecode (b : Bytes) : Except Err (Val × Bytes) :=
  match b with
  | hit :: ct :: a :: m :: rest =>
    match dec3 rest with
    | .error e => .error e
    | .ok ((cert, c, sid), r) =>
      match decCiphers c.length c with
      | .error e => .error e
      | .ok cs =>
        .ok (.pair (.nat hit.toNat) (.pair (.nat ct.toNat) (.pair (.nat a.toNat) (.pair (.nat m.toNat)
              (.pair (.bytes cert) (.pair cs (.bytes sid)))))), r)
  | _ => .error .truncated

/-- `ClientMasterKey.write` without the message type byte -/
def cmkEncode : Val → Option Bytes
  | .pair (.nat cipher) (.pair (.bytes ck) (.pair (.bytes ek) (.bytes ka))) =>
    if cipher < 256 ^ 3 then (enc3 ck ek ka).map (beEncode 3 cipher ++ ·) else none
  | _ => none

def cmkDecode (b : Bytes) : Except Err (Val × Bytes) :=
  if shorter b 3 then .error .truncated
  else
    match dec3 (b.drop 3) with
    | .error e => .error e
    | .ok ((ck, ek, ka), r) =>
      .ok (.pair (.nat (beDecode (b.take 3))) (.pair (.bytes ck) (.pair (.bytes ek) (.bytes ka))), r)

def rh2EncodeVal : Val → Option Bytes
  | .pair (.nat l) (.pair (.nat p) (.nat e)) => if e < 2 then rh2Encode l p (e == 1) else none
  | _ => none

def rh2DecodeVal (b : Bytes) : Except Err (Val × Bytes) :=
  match rh2Decode b with
  | .error e => .error e
  | .ok ((l, p, e), r) => .ok (.pair (.nat l) (.pair (.nat p) (.nat (if e then 1 else 0))), r)

end Tls.Ssl2
