import TlsModel.Order
/-
  C06, tie by regeneration: the vocabulary in which translate/gen_order.py writes down what it
  reads from the AST of tlslite/tlsconnection.py and tlsrecordlayer.py (hand-written; the DATA in
  TlsModel/Gen/Order.lean is regenerated from the tree under check on every run).
-/
namespace Tls.Order.Gen

/-- the flow functions whose bodies are transcribed -/
inductive Fn
  | clientHelper | clientGetServerHello | clientTLS13Handshake | clientResume | clientKeyExchange
  | clientFinished
  | serverHelper | serverGetClientHello | serverTLS13Handshake | serverCertKeyExchange
  | serverSRPKeyExchange | serverAnonKeyExchange | serverFinished
  | getFinished | sendFinished
  deriving DecidableEq, Repr, Inhabited

/-- local variables of the flows that decide what is expected next -/
inductive Var
  | expected_msg | expected_types | expect_ccs_message | expect_next_protocol
  deriving DecidableEq, Repr, Inhabited

/-- named guard atoms: the translator maps the source text of a condition to one of these; a
    condition it does not know becomes `poison` (every generated obligation is then false) -/
inductive Atom
  | tls13            -- version > (3, 3) / ext.version > (3, 3)
  | ssl3             -- self.version == (3, 0)
  | tls10to12        -- self.version in ((3, 1), (3, 2), (3, 3))
  | isClientNST      -- self._client and self._expect_new_session_ticket
  | certSuite        -- certAllSuites ∪ ecdheEcdsaSuites ∪ dheDsaSuites
  | skeSuite         -- cipherSuite not in certSuites
  | kxSrp | kxCertFamily | kxAnon
  | certReqIncompatible
  | resuming         -- the client's / the server's "this session is being resumed" conditions
  | subflowResumed   -- result == "resumed_and_finished"
  | calleeDone       -- result == None after _serverGetClientHello (it yields None when it resumed)
  | subflowFinished  -- result in ["finished", "resumed_and_finished"] / result == "finished"
  | reqCert
  | npnOffered       -- nextProtos is not None (server: NPN negotiated)
  | notPsk           -- not sr_psk / selected_psk is None
  | hrrSeen          -- the ServerHello just read is a HelloRetryRequest
  | hrrNeeded        -- server: no acceptable key share (hrr_ext)
  | hrrHasKeyShare   -- the HRR carries a key_share extension
  | hrrShareAlreadySent  -- client: the HRR asks for a group whose share was already sent
  | compOffered      -- compress_certificate offered for the certificate this side receives
  | clientCertGot    -- a non-empty client chain was received
  | lastIs (k : MsgKind)   -- isinstance(result, …)
  | var (v : Var)
  | poison (src : String)
  deriving DecidableEq, Repr, Inhabited

inductive G
  | tt
  | atom (a : Atom)
  | not (g : G)
  | and (a b : G)
  | or (a b : G)
  /-- guard of a block that only sends: its value does not matter for what is accepted -/
  | opaque (src : String)
  deriving Repr, Inhabited

/-- record content types -/
inductive CT | handshake | ccs | alert | appdata | poison
  deriving DecidableEq, Repr, Inhabited

/-- an argument of `_getMsg`: a literal (tuple) or a local variable -/
inductive TRef (α : Type)
  | lit (xs : List α)
  | var (v : Var)
  deriving Repr, Inhabited

inductive Tok
  | ifB (g : G) | elseB | endB
  /-- `_getMsg(expectedType, secondaryType)` -/
  | get (cts : TRef CT) (hts : TRef MsgKind)
  | assignCT (v : Var) (xs : List CT)
  | assignHT (v : Var) (xs : List MsgKind)
  | assignBool (v : Var) (b : Bool)
  | send (what : String)
  | readChange | writeChange
  /-- `if <defragmenter not empty>: _sendError(unexpected_message)` -/
  | defragCheck
  /-- `_sendError` under a guard made of known atoms -/
  | abort
  | call (f : Fn) (binds : List (Var × G))
  | ret | raise
  /-- `self._middlebox_compat_mode = False` -/
  | clearCompat
  /-- `_handshakeDone(...)` -/
  | complete
  /-- `yield None`: the callee tells the helper that the (resumed) handshake is done -/
  | done
  | poison (src : String)
  deriving Repr, Inhabited

end Tls.Order.Gen
