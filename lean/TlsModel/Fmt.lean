import TlsModel.Basic
/-
  A small description language for TLS wire formats and its generic codec.

  Every message / extension / header format of tlslite is one value of `Fmt`
  (TlsModel/Msgs.lean); `encode`/`decode` are defined once, by recursion on the
  description, and the round-trip / framing theorems are proved once, by induction on it
  (TlsProofs/Fmt*.lean, Props/C15.lean).

  The "current tag" argument `t` carries the value of the innermost enclosing `tagged`
  field (extension type, status type ...) so that `caseOf` can select the format of what
  follows from it; outside any `tagged` it is irrelevant.
-/
deriving instance DecidableEq for Except

namespace Tls.Fmt

/-- generic values -/
inductive Val where
  | unit
  | nat (n : Nat)
  | bytes (b : Bytes)
  | pair (a b : Val)
  | nil
  | cons (h t : Val)
  | none
  | some (v : Val)
  deriving DecidableEq, Repr, Inhabited

/-- format descriptions -/
inductive Fmt where
  /-- nothing -/
  | unit
  /-- `n`-byte big-endian unsigned integer (`Writer.add(x, n)` / `Parser.get(n)`) -/
  | uint (n : Nat)
  /-- exactly `n` opaque bytes (`w.bytes += x` / `getFixBytes(n)`) -/
  | bytes (n : Nat)
  /-- every remaining byte of the enclosing region (`getFixBytes(getRemainingLength())`) -/
  | rest
  /-- `f` followed by `g` -/
  | pair (f g : Fmt)
  /-- `ll`-byte length `L`, then exactly `L` bytes that `f` must consume completely
      (`startLengthCheck(ll)` … `stopLengthCheck()` / `Parser(p.getVarBytes(ll))` + trailing check) -/
  | lenPref (ll : Nat) (f : Fmt)
  /-- items `f` until the enclosing region is exhausted (`while not atLengthCheck()` /
      `while p.getRemainingLength()`) -/
  | many (f : Fmt)
  /-- absent when the enclosing region is exhausted, otherwise `f` -/
  | optTail (f : Fmt)
  /-- `n`-byte tag `t`, then `f` read with current tag `t` -/
  | tagged (n : Nat) (f : Fmt)
  /-- `f` when the current tag is `k`, otherwise `g` -/
  | caseOf (k : Nat) (f g : Fmt)
  /-- always rejected -/
  | fail
  deriving Repr, Inhabited

inductive Err where
  | truncated     -- fewer bytes than a field or a declared length needs
  | trailing      -- bytes left inside a length-delimited structure
  | noProgress    -- items of a repetition consumed nothing (excluded by well-formedness)
  | rejected      -- `fail`
  deriving DecidableEq, Repr

abbrev varBytes (ll : Nat) : Fmt := .lenPref ll .rest
abbrev list (ll : Nat) (f : Fmt) : Fmt := .lenPref ll (.many f)

/-! ## encode -/

def encodeMany (e : Val → Option Bytes) : Val → Option Bytes
  | .nil => some []
  | .cons h t => do
    let a ← e h
    let b ← encodeMany e t
    pure (a ++ b)
  | _ => none

/-- Serialisation.  `none` when the value does not have the shape the format describes or
    a field does not fit (`Writer` raises); a value is never masked or truncated. -/
def encode : Fmt → Nat → Val → Option Bytes
  | .unit, _, .unit => some []
  | .uint n, _, .nat x => if x < 256 ^ n then some (beEncode n x) else none
  | .bytes n, _, .bytes b => if b.length = n then some b else none
  | .rest, _, .bytes b => some b
  | .pair f g, t, .pair v w => do
    let a ← encode f t v
    let b ← encode g t w
    pure (a ++ b)
  | .lenPref ll f, t, v => do
    let b ← encode f t v
    if b.length < 256 ^ ll then some (beEncode ll b.length ++ b) else none
  | .many f, t, v => encodeMany (encode f t) v
  | .optTail _, _, .none => some []
  | .optTail f, t, .some v => encode f t v
  | .tagged n f, _, .pair (.nat x) v =>
    if x < 256 ^ n then do
      let b ← encode f x v
      pure (beEncode n x ++ b)
    else none
  | .caseOf k f g, t, v => if t = k then encode f t v else encode g t v
  | _, _, _ => none

/-! ## decode -/

/-- `b.length < n`, looking at no more than `n` cells of `b` -/
def shorter : Bytes → Nat → Bool
  | _, 0 => false
  | [], _ + 1 => true
  | _ :: t, n + 1 => shorter t n

/-- repeat `d` until the input is exhausted; `fuel` bounds the number of items (callers pass
    the input length: in a well-formed format every item consumes at least one byte, so the
    fuel never runs out before the input does) -/
def decodeMany (d : Bytes → Except Err (Val × Bytes)) : Nat → Bytes → Except Err Val
  | _, [] => .ok .nil
  | 0, _ :: _ => .error .noProgress
  | fuel + 1, b@(_ :: _) =>
    match d b with
    | .error e => .error e
    | .ok (v, r) =>
      match decodeMany d fuel r with
      | .error e => .error e
      | .ok vs => .ok (.cons v vs)

/-- Deserialisation: the value and the unconsumed rest of the input. -/
def decode : Fmt → Nat → Bytes → Except Err (Val × Bytes)
  | .unit, _, b => .ok (.unit, b)
  | .uint n, _, b =>
    if shorter b n then .error .truncated else .ok (.nat (beDecode (b.take n)), b.drop n)
  | .bytes n, _, b =>
    if shorter b n then .error .truncated else .ok (.bytes (b.take n), b.drop n)
  | .rest, _, b => .ok (.bytes b, [])
  | .pair f g, t, b =>
    match decode f t b with
    | .error e => .error e
    | .ok (v, r) =>
      match decode g t r with
      | .error e => .error e
      | .ok (w, r') => .ok (.pair v w, r')
  | .lenPref ll f, t, b =>
    if shorter b ll then .error .truncated
    else
      let len := beDecode (b.take ll)
      let b1 := b.drop ll
      if shorter b1 len then .error .truncated
      else
        match decode f t (b1.take len) with
        | .error e => .error e
        | .ok (v, []) => .ok (v, b1.drop len)
        | .ok (_, _ :: _) => .error .trailing
  | .many f, t, b =>
    match decodeMany (decode f t) b.length b with
    | .error e => .error e
    | .ok vs => .ok (vs, [])
  | .optTail f, t, b =>
    match b with
    | [] => .ok (.none, [])
    | _ :: _ =>
      match decode f t b with
      | .error e => .error e
      | .ok (v, r) => .ok (.some v, r)
  | .tagged n f, _, b =>
    if shorter b n then .error .truncated
    else
      let x := beDecode (b.take n)
      match decode f x (b.drop n) with
      | .error e => .error e
      | .ok (v, r) => .ok (.pair (.nat x) v, r)
  | .caseOf k f g, t, b => if t = k then decode f t b else decode g t b
  | .fail, _, _ => .error .rejected

/-- the whole input must be one value (a parser handed exactly the structure's bytes) -/
def decodeAll (f : Fmt) (t : Nat) (b : Bytes) : Except Err Val :=
  match decode f t b with
  | .error e => .error e
  | .ok (v, []) => .ok v
  | .ok (_, _ :: _) => .error .trailing

/-! ## well-formedness (decidable) -/

/-- a lower bound on the length of every encoding -/
def minLen : Fmt → Nat
  | .unit => 0
  | .uint n => n
  | .bytes n => n
  | .rest => 0
  | .pair f g => minLen f + minLen g
  | .lenPref ll _ => ll
  | .many _ => 0
  | .optTail _ => 0
  | .tagged n f => n + minLen f
  | .caseOf _ f g => min (minLen f) (minLen g)
  | .fail => 1

/-- `wf false f`: `f` is self-delimiting (its decoding does not depend on what follows).
    `wf true f`: `f` may stand where its enclosing region ends right after it.
    `rest`, `many`, `optTail` are allowed in tail position only; items of `many` and the
    body of `optTail` have non-empty encodings. -/
def wf : Bool → Fmt → Bool
  | _, .unit => true
  | _, .uint _ => true
  | _, .bytes _ => true
  | tl, .rest => tl
  | tl, .pair f g => wf false f && wf tl g
  | _, .lenPref _ f => wf true f
  | tl, .many f => tl && wf false f && decide (0 < minLen f)
  | tl, .optTail f => tl && wf true f && decide (0 < minLen f)
  | tl, .tagged _ f => wf tl f
  | tl, .caseOf _ f g => wf tl f && wf tl g
  | _, .fail => true

/-! ## sizes, independent of `encode` -/

def encLenMany (l : Val → Nat) : Val → Nat
  | .cons h t => l h + encLenMany l t
  | _ => 0

/-- the length the encoding of a well-shaped value has (no bound is checked here) -/
def encLen : Fmt → Nat → Val → Nat
  | .uint n, _, _ => n
  | .bytes n, _, _ => n
  | .rest, _, .bytes b => b.length
  | .pair f g, t, .pair v w => encLen f t v + encLen g t w
  | .lenPref ll f, t, v => ll + encLen f t v
  | .many f, t, v => encLenMany (encLen f t) v
  | .optTail f, t, .some v => encLen f t v
  | .tagged n f, _, .pair (.nat x) v => n + encLen f x v
  | .caseOf k f g, t, v => if t = k then encLen f t v else encLen g t v
  | _, _, _ => 0

def allMany (p : Val → Bool) : Val → Bool
  | .nil => true
  | .cons h t => p h && allMany p t
  | _ => false

/-- the value has the type the format describes (fixed-size byte strings have their size) -/
def shape : Fmt → Nat → Val → Bool
  | .unit, _, .unit => true
  | .uint _, _, .nat _ => true
  | .bytes n, _, .bytes b => b.length == n
  | .rest, _, .bytes _ => true
  | .pair f g, t, .pair v w => shape f t v && shape g t w
  | .lenPref _ f, t, v => shape f t v
  | .many f, t, v => allMany (shape f t) v
  | .optTail _, _, .none => true
  | .optTail f, t, .some v => shape f t v
  | .tagged _ f, _, .pair (.nat x) v => shape f x v
  | .caseOf k f g, t, v => if t = k then shape f t v else shape g t v
  | _, _, _ => false

/-- every integer fits its field and the length of every length-prefixed body fits its
    length field -/
def fits : Fmt → Nat → Val → Bool
  | .unit, _, _ => true
  | .uint n, _, .nat x => decide (x < 256 ^ n)
  | .bytes _, _, _ => true
  | .rest, _, _ => true
  | .pair f g, t, .pair v w => fits f t v && fits g t w
  | .lenPref ll f, t, v => fits f t v && decide (encLen f t v < 256 ^ ll)
  | .many f, t, v => allMany (fits f t) v
  | .optTail _, _, .none => true
  | .optTail f, t, .some v => fits f t v
  | .tagged n f, _, .pair (.nat x) v => decide (x < 256 ^ n) && fits f x v
  | .caseOf k f g, t, v => if t = k then fits f t v else fits g t v
  | _, _, _ => false

end Tls.Fmt
