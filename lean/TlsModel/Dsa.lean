import TlsModel.Rsa
import TlsModel.Der
/-
  tlslite/utils/python_dsakey.py: `sign` / `verify` at the level of the integers (r, s).
  The DER wrapping (`encode_sequence(encode_integer(r), encode_integer(s))`, `remove_sequence`,
  `remove_integer`) is python-ecdsa code and stays outside; the random `k` is an argument.
-/
namespace Tls.Dsa
open Tls Tls.Rsa

structure Key where
  p : Nat
  q : Nat
  g : Nat
  x : Nat      -- private_key
  y : Nat      -- public_key
  deriving Repr

/-- `digest = bytesToNumber(data); if N < digest_len: digest >>= digest_len - N` -/
def digestOf (q : Nat) (data : Bytes) : Nat :=
  let n := numBits q
  let digestLen := data.length * 8
  let digest := beDecode data
  if n < digestLen then digest >>> (digestLen - n) else digest

/-- `sign(data)` with `k = getRandomNumber(1, q-1)` given: the pair (r, s) that gets DER-encoded -/
def signRS (key : Key) (k : Nat) (data : Bytes) : Nat × Nat :=
  let digest := digestOf key.q data
  let r := powMod key.g k key.p % key.q
  let s := invMod k key.q * (digest + key.x * r) % key.q
  (r, s)

/-- the check of `verify` after `r`, `s` have been parsed out of the DER signature -/
def verifyRS (key : Key) (r s : Nat) (data : Bytes) : Bool :=
  let digest := digestOf key.q data
  if 0 < r ∧ r < key.q ∧ 0 < s ∧ s < key.q then
    let w := invMod s key.q
    let u1 := (digest * w) % key.q
    let u2 := (r * w) % key.q
    let v := ((powMod key.g u1 key.p * powMod key.y u2 key.p) % key.p) % key.q
    r == v
  else false

/-- `sign(data)`: DER `SEQUENCE { INTEGER r, INTEGER s }` -/
def sign (key : Key) (k : Nat) (data : Bytes) : Bytes :=
  let rs := signRS key k data
  Der.encodeSequence [Der.encodeInteger rs.1, Der.encodeInteger rs.2]

/-- `verify(signature, hashData)` on bytes: a string that is not a DER pair of integers is an
    invalid signature (`except (UnexpectedDER, IndexError, AssertionError): return False`) -/
def verify (key : Key) (signature data : Bytes) : Bool :=
  if signature.isEmpty then false
  else
    match Der.removeSequence signature with
    | .error () => false
    | .ok (body, rest) =>
      if ¬ rest.isEmpty then false
      else
        match Der.removeInteger body with
        | .error () => false
        | .ok (r, rest1) =>
          match Der.removeInteger rest1 with
          | .error () => false
          | .ok (s, rest2) =>
            if ¬ rest2.isEmpty then false
            else verifyRS key r s data

end Tls.Dsa
