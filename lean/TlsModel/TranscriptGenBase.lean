import TlsModel.Transcript
/-
  Vocabulary of the tables that translate/gen_transcript.py regenerates from the source on every
  run (lean/TlsModel/Gen/Transcript.lean), their evaluators, and the RFC 8446 / RFC 5246 / RFC 7627
  reading of "which transcript does each secret use" for the flows of TlsModel/Transcript.lean.
  Core Lean only.
-/
namespace Tls.Transcript.GenBase
open Tls.Transcript

inductive Var | version | selfVersion | maxVersion | minVersion
deriving DecidableEq, Repr

inductive VExp
  | var (v : Var)
  | const (a b : Nat)
deriving DecidableEq, Repr

inductive CmpOp | lt | le | eq | ne | gt | ge
deriving DecidableEq, Repr

/-- a Python test expression, as far as the translator understands it -/
inductive Cond
  | cmp (op : CmpOp) (l r : VExp)
  | tailIs (which : Nat)          -- serverHello.random[-8:] == TLS_1_<which>_DOWNGRADE_SENTINEL
  | scsvOffered                   -- TLS_FALLBACK_SCSV in clientHello.cipher_suites
  | flag (name : String)
  | and (a b : Cond)
  | or (a b : Cond)
  | not (a : Cond)
  | poison (source : String)      -- not understood: every evaluation fails
deriving DecidableEq, Repr

structure Env where
  version : Version := (0, 0)        -- the local `version` of the server
  selfVersion : Version := (0, 0)    -- self.version
  maxVersion : Version := (0, 0)     -- settings.maxVersion
  minVersion : Version := (0, 0)
  tail : Bytes := []                 -- serverHello.random[-8:]
  scsv : Bool := false
  flags : List String := []

def VExp.eval (e : Env) : VExp → Version
  | .var .version => e.version
  | .var .selfVersion => e.selfVersion
  | .var .maxVersion => e.maxVersion
  | .var .minVersion => e.minVersion
  | .const a b => (a, b)

def CmpOp.eval (a b : Version) : CmpOp → Bool
  | .lt => vlt a b
  | .le => vle a b
  | .eq => a == b
  | .ne => a != b
  | .gt => vlt b a
  | .ge => vle b a

def sentinelOf : Nat → Option Bytes
  | 1 => some sentinel11
  | 2 => some sentinel12
  | _ => none

def Cond.eval (e : Env) : Cond → Option Bool
  | .cmp op l r => some (op.eval (l.eval e) (r.eval e))
  | .tailIs n => (sentinelOf n).map (fun s => e.tail == s)
  | .scsvOffered => some e.scsv
  | .flag n => some (e.flags.contains n)
  | .and a b => do
    let x ← a.eval e
    let y ← b.eval e
    pure (x && y)
  | .or a b => do
    let x ← a.eval e
    let y ← b.eval e
    pure (x || y)
  | .not a => (a.eval e).map (!·)
  | .poison _ => none

/-- the server's writes, applied in source order to what getRandomBytes left in random[-8:] -/
def applyWrites (e : Env) : List (Cond × Nat) → Bytes → Option Bytes
  | [], t => some t
  | (c, n) :: r, t =>
    match c.eval e, sentinelOf n with
    | some true, some s => applyWrites e r s
    | some false, some _ => applyWrites e r t
    | _, _ => none

/-- first check that fires: `some (some alert)`, none fires: `some none`, not understood: `none` -/
def firstAlert (e : Env) : List (Cond × String) → Option (Option String)
  | [] => some none
  | (c, a) :: r =>
    match c.eval e with
    | some true => some (some a)
    | some false => firstAlert e r
    | none => none

def verdictAlert : Verdict → Option String
  | .proceed => none
  | .abort .illegalParameter => some "illegal_parameter"
  | .abort .inappropriateFallback => some "inappropriate_fallback"
  | .abort .protocolVersion => some "protocol_version"

/-! ## TLS 1.3: which transcript each derivation uses -/

abbrev Pat := List (List String × Bool)     -- (acceptable message kinds, inside an `if`)

inductive SchedEv
  | msg (dir : String) (kinds : List String) (optional : Bool)
  | derive (label hh : String) (pre : Option Pat)
  | snapshot (var hh : String) (pre : Option Pat)
  | digest (target hh : String) (pre : Option Pat)
  | certverify (who hh : String) (pre : Option Pat)
  | binder (fn hh : String) (pre : Option Pat)
  | poison (source : String)
deriving DecidableEq, Repr

/-- HandshakeType names of constants.py -/
def kindHtype : String → Option UInt8
  | "client_hello" => some 1 | "server_hello" => some 2 | "new_session_ticket" => some 4
  | "encrypted_extensions" => some 8 | "certificate" => some 11 | "server_key_exchange" => some 12
  | "certificate_request" => some 13 | "server_hello_done" => some 14 | "certificate_verify" => some 15
  | "client_key_exchange" => some 16 | "finished" => some 20 | "compressed_certificate" => some 25
  | _ => none

/-- Run the (source-ordered) message calls preceding a derivation against the messages of a
    concrete flow: a required call must see the next message, a call inside an `if` is skipped when
    the next message is none of its kinds.  Result: how many messages the transcript holds. -/
def matchPat : Pat → List UInt8 → Option Nat
  | [], _ => some 0
  | (kinds, opt) :: r, msgs =>
    match kinds.mapM kindHtype with
    | none => none                               -- unknown kind name ("?…"): not understood
    | some hts =>
      match msgs with
      | m :: rest =>
        if hts.contains m then (matchPat r rest).map (· + 1)
        else if opt then matchPat r msgs else none
      | [] => if opt then matchPat r [] else none

/-- hashed handshake types of a script from the last ClientHello on -/
def hashedFromLastHello (script : List Ev) : List UInt8 :=
  let all := script.filterMap fun
    | .msg _ k => some k.htype
    | .fin _ => some Kind.finished.htype
    | _ => none
  let rec lastFrom : List UInt8 → List UInt8 → List UInt8
    | [], acc => acc
    | m :: r, acc => if m == Kind.clientHello.htype then lastFrom r (m :: r) else lastFrom r acc
  lastFrom all all

/-- the points RFC 8446 7.1 / 4.4 prescribe, as numbers of messages since the last ClientHello:
    handshake traffic secrets after ServerHello; server CertificateVerify / Finished over everything
    before them; application traffic secrets through the server Finished; client CertificateVerify,
    exporter master secret and client Finished over everything before the client Finished;
    resumption master secret through the client Finished -/
structure Points13 where
  hs : Nat
  sCertVerify : Option Nat
  sFinished : Nat
  ap : Nat
  cCertVerify : Option Nat
  cFinished : Nat
  res : Nat
deriving DecidableEq, Repr

def idxOf (l : List UInt8) (p : Nat → UInt8 → Bool) : Option Nat :=
  let rec go : List UInt8 → Nat → Option Nat
    | [], _ => none
    | m :: r, i => if p i m then some i else go r (i + 1)
  go l 0

def specPoints13 (f : Flow) (o : Opts) : Option Points13 :=
  let h := hashedFromLastHello (flowScript f o)
  match idxOf h (fun _ m => m == 2), idxOf h (fun _ m => m == 20) with
  | some sh, some sf =>
    match idxOf h (fun i m => m == 20 && i > sf) with
    | some cf =>
      some { hs := sh + 1,
             sCertVerify := idxOf h (fun i m => m == 15 && i < sf),
             sFinished := sf, ap := sf + 1,
             cCertVerify := idxOf h (fun i m => m == 15 && i > sf),
             cFinished := cf, res := cf + 1 }
    | none => none
  | _, _ => none

inductive Key
  | label (l : String)       -- Derive-Secret label
  | digest (k : Nat)         -- k-th Finished digest in source order
  | certverify (who : String)
  | snapshot (var : String)
deriving DecidableEq, Repr

/-- what the generated schedule of one role says for a flow: (key, transcript length) per
    derivation -/
def schedTable (evs : List SchedEv) (h : List UInt8) : Option (List (Key × Option Nat)) :=
  let rec go : List SchedEv → Nat → Option (List (Key × Option Nat))
    | [], _ => some []
    | ev :: r, nd =>
      let item (key : Key) (pre : Option Pat) (nd' : Nat) : Option (List (Key × Option Nat)) :=
        match pre with
        | none => (go r nd').map ((key, none) :: ·)
        | some p =>
          match matchPat p h with
          | none => none
          | some n => (go r nd').map ((key, some n) :: ·)
      match ev with
      | .msg _ _ _ => go r nd
      | .derive l _ pre => item (.label l) pre nd
      | .digest _ _ pre => item (.digest (nd + 1)) pre (nd + 1)
      | .certverify w _ pre => item (.certverify w) pre nd
      | .snapshot v _ pre => item (.snapshot v) pre nd
      | .binder _ _ _ => go r nd
      | .poison _ => none
  go evs 0

def lookupKey (t : List (Key × Option Nat)) (k : Key) : List (Option Nat) :=
  (t.filter (·.1 == k)).map (·.2)

def knownLabels : List String :=
  ["s hs traffic", "c hs traffic", "c ap traffic", "s ap traffic", "exp master", "res master", "derived"]

def keyExpected : Key → Bool
  | .label l => knownLabels.contains l
  | .digest k => k == 1 || k == 2
  | .certverify w => w == "b'server'" || w == "b'client'"
  | .snapshot _ => true

/-- does a role's generated schedule agree with the prescribed points on this flow? -/
def schedConforms (evs : List SchedEv) (f : Flow) (o : Opts) : Bool :=
  match specPoints13 f o, schedTable evs (hashedFromLastHello (flowScript f o)) with
  | some p, some t =>
    lookupKey t (.label "s hs traffic") == [some p.hs] && lookupKey t (.label "c hs traffic") == [some p.hs] &&
    lookupKey t (.digest 1) == [some p.sFinished] &&
    lookupKey t (.label "c ap traffic") == [some p.ap] && lookupKey t (.label "s ap traffic") == [some p.ap] &&
    lookupKey t (.label "exp master") == [some p.cFinished] && lookupKey t (.digest 2) == [some p.cFinished] &&
    lookupKey t (.label "res master") == [some p.res] &&
    lookupKey t (.snapshot "self._first_handshake_hashes") == [some p.res] &&
    lookupKey t (.label "derived") == [none, none] &&
    (p.sCertVerify.isNone || lookupKey t (.certverify "b'server'") == [p.sCertVerify]) &&
    (p.cCertVerify.isNone || lookupKey t (.certverify "b'client'") == [p.cCertVerify]) &&
    -- nothing else is derived from the transcript
    t.all (fun kv => keyExpected kv.1)
  | _, _ => false

end Tls.Transcript.GenBase
