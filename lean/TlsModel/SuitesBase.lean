import TlsModel.Basic
/-
  C20 — vocabulary shared by the generated key-exchange chains (TlsModel/Gen/KexChains.lean) and
  the suite model (TlsModel/Suites.lean): list membership, the KeyExchange classes, and the small
  expression / decision-tree language in which the translator renders the `if cipherSuite in
  CipherSuite.<list> … elif …` chains it reads from the AST of tlslite/tlsconnection.py.
  Anything the translator cannot classify becomes `unknown`, which evaluates to `none` and so
  falsifies every obligation that depends on it.
-/
namespace Tls.Suites

abbrev Ver := Nat × Nat

/-- `s in <list>` (written with `Nat.beq` so that kernel evaluation is direct) -/
def isIn (s : Nat) : List Nat → Bool
  | [] => false
  | x :: xs => Nat.beq x s || isIn s xs

/-- KeyExchange classes of tlslite/keyexchange.py -/
inductive KexClass
  | RSAKeyExchange | DHE_RSAKeyExchange | ECDHE_RSAKeyExchange | SRPKeyExchange | ADHKeyExchange | AECDHKeyExchange
  deriving DecidableEq, Repr

def KexClass.str : KexClass → String
  | .RSAKeyExchange => "RSAKeyExchange" | .DHE_RSAKeyExchange => "DHE_RSAKeyExchange"
  | .ECDHE_RSAKeyExchange => "ECDHE_RSAKeyExchange" | .SRPKeyExchange => "SRPKeyExchange"
  | .ADHKeyExchange => "ADHKeyExchange" | .AECDHKeyExchange => "AECDHKeyExchange"

/-- the `_server*KeyExchange` helper a branch of `_handshakeServerAsyncHelper` delegates to -/
inductive ServerPath | srp | cert | anon
  deriving DecidableEq, Repr

def ServerPath.str : ServerPath → String
  | .srp => "_serverSRPKeyExchange" | .cert => "_serverCertKeyExchange" | .anon => "_serverAnonKeyExchange"

/-- a condition on the negotiated suite, as written in the source -/
inductive BExpr
  /-- `cipherSuite in CipherSuite.<name>` with the generated contents of that list -/
  | mem (name : String) (l : List Nat)
  | not (e : BExpr)
  | and (a b : BExpr)
  | or (a b : BExpr)
  | tt
  /-- something the translator does not understand -/
  | unknown (what : String)
  deriving Repr

def BExpr.eval (s : Nat) : BExpr → Option Bool
  | .mem _ l => some (isIn s l)
  | .not e => (e.eval s).map (!·)
  | .and a b => do let x ← a.eval s; let y ← b.eval s; some (x && y)
  | .or a b => do let x ← a.eval s; let y ← b.eval s; some (x || y)
  | .tt => some true
  | .unknown _ => none

/-- an if / elif / else chain (possibly nested) with outcomes of type α -/
inductive Tree (α : Type)
  | leaf (a : α)
  | ite (c : BExpr) (t e : Tree α)
  | unknown (what : String)
  deriving Repr

def Tree.eval {α} (s : Nat) : Tree α → Option α
  | .leaf a => some a
  | .ite c t e => do
      let b ← c.eval s
      if b then t.eval s else e.eval s
  | .unknown _ => none

/-- every `unknown` in a condition / tree (empty = fully classified) -/
def BExpr.unknowns : BExpr → List String
  | .mem _ _ => [] | .tt => []
  | .not e => e.unknowns
  | .and a b => a.unknowns ++ b.unknowns
  | .or a b => a.unknowns ++ b.unknowns
  | .unknown w => [w]

def Tree.unknowns {α} : Tree α → List String
  | .leaf _ => []
  | .ite c t e => c.unknowns ++ t.unknowns ++ e.unknowns
  | .unknown w => [w]

def BExpr.render : BExpr → String
  | .mem n _ => n
  | .not e => "!(" ++ e.render ++ ")"
  | .and a b => "(" ++ a.render ++ "&" ++ b.render ++ ")"
  | .or a b => "(" ++ a.render ++ "|" ++ b.render ++ ")"
  | .tt => "true"
  | .unknown w => "unknown:" ++ w

end Tls.Suites
