import TlsModel.TranscriptGenBase
/-
  The key schedules behind the Finished values of TlsModel/Transcript.lean, over abstract
  primitives (nothing is assumed of them):

  * TLS 1.3 (tlsconnection.py `_clientTLS13Handshake` / `_serverTLS13Handshake`, RFC 8446 7.1):
    Early Secret = Extract(0, PSK); Handshake Secret = Extract(Derive(Early, "derived", ""), ECDHE);
    Master Secret = Extract(Derive(HS, "derived", ""), 0); every Derive-Secret over the transcript
    prefix of `Points13`; Finished = HMAC(Expand-Label(traffic secret, "finished", ""), H(prefix)).
  * TLS <= 1.2 (`_calculate_master_secret`, `_sendFinished` / `_getFinished`, mathtls.calc_key):
    master secret from client_random ‖ server_random, or (RFC 7627) from the session hash frozen
    after ClientKeyExchange; verify_data = PRF(master, label, H(transcript so far)).
-/
namespace Tls.Transcript.Keys
open Tls.Transcript Tls.Transcript.GenBase

structure Hkdf where
  extract : Bytes → Bytes → Bytes              -- secureHMAC(salt, ikm)
  expandLabel : Bytes → String → Bytes → Bytes -- HKDF_expand_label(secret, label, context, Hash.length)
  mac : Bytes → Bytes → Bytes                  -- secureHMAC(key, data)
  H : Bytes → Bytes
  zeros : Bytes                                -- bytearray(Hash.length)

/-- `derive_secret(secret, label, handshake_hashes)`; `none` = no transcript (hash of "") -/
def deriveSecret (K : Hkdf) (secret : Bytes) (label : String) (tr : Option Bytes) : Bytes :=
  K.expandLabel secret label (K.H (tr.getD []))

structure Secrets13 where
  early : Bytes
  handshake : Bytes
  master : Bytes
  sHsTraffic : Bytes
  cHsTraffic : Bytes
  sApTraffic : Bytes
  cApTraffic : Bytes
  exporter : Bytes
  resumption : Bytes
  sFinished : Bytes        -- verify_data of the server's Finished
  cFinished : Bytes
deriving DecidableEq, Repr

/-- `pre` = what the transcript holds before the last ClientHello ([] or message_hash, HRR),
    `tr` = the messages from that ClientHello on, `p` = the prescribed points -/
def keySchedule13 (K : Hkdf) (psk ecdhe : Bytes) (pre tr : List Msg) (p : Points13) : Secrets13 :=
  let t (n : Nat) : Option Bytes := some (encAll (pre ++ tr.take n))
  let early := K.extract K.zeros psk
  let hs := K.extract (deriveSecret K early "derived" none) ecdhe
  let master := K.extract (deriveSecret K hs "derived" none) K.zeros
  let sHs := deriveSecret K hs "s hs traffic" (t p.hs)
  let cHs := deriveSecret K hs "c hs traffic" (t p.hs)
  { early := early, handshake := hs, master := master, sHsTraffic := sHs, cHsTraffic := cHs,
    sApTraffic := deriveSecret K master "s ap traffic" (t p.ap),
    cApTraffic := deriveSecret K master "c ap traffic" (t p.ap),
    exporter := deriveSecret K master "exp master" (t p.cFinished),
    resumption := deriveSecret K master "res master" (t p.res),
    sFinished := K.mac (K.expandLabel sHs "finished" []) (K.H (encAll (pre ++ tr.take p.sFinished))),
    cFinished := K.mac (K.expandLabel cHs "finished" []) (K.H (encAll (pre ++ tr.take p.cFinished))) }

/-- the Finished of the reduction theorem, instantiated for TLS 1.3: key = the sender's handshake
    traffic secret -/
def prims13 (K : Hkdf) : Prims :=
  { inner := fun _ _ t => K.H t, outer := fun k _ d => K.mac (K.expandLabel k "finished" []) d, H := K.H }

/-! ## TLS <= 1.2 -/

structure Prf12 where
  prf : Bytes → String → Bytes → Bytes     -- calc_key(secret, label, seed) for the version / suite
  H : Bytes → Bytes                        -- handshake_hashes.digest(..) for the version / suite

def finishedLabel : Side → String
  | .client => "client finished"
  | .server => "server finished"

/-- `_calculate_master_secret` -/
def masterSecret12 (R : Prf12) (ems : Bool) (premaster clientRandom serverRandom sessionTranscript : Bytes) : Bytes :=
  if ems then R.prf premaster "extended master secret" (R.H sessionTranscript)
  else R.prf premaster "master secret" (clientRandom ++ serverRandom)

/-- `_sendFinished` / `_getFinished` (TLS 1.0 … 1.2; SSLv3's `digestSSL` is `Prims.inner`) -/
def verifyData12 (R : Prf12) (master : Bytes) (sender : Side) (tr : List Msg) : Bytes :=
  R.prf master (finishedLabel sender) (R.H (encAll tr))

def prims12 (R : Prf12) : Prims :=
  { inner := fun _ _ t => R.H t, outer := fun k s d => R.prf k (finishedLabel s) d, H := R.H }

/-- numbers of hashed messages at: the EMS session hash (through ClientKeyExchange), the client's
    and the server's Finished computation (RFC 7627 / RFC 5246 7.4.9) -/
structure Points12 where
  ems : Option Nat
  cFinished : Nat
  sFinished : Nat
deriving DecidableEq, Repr

def specPoints12 (f : Flow) (o : Opts) : Option Points12 :=
  let script := flowScript f o
  let rec go : List Ev → Nat → Option Nat → Option Nat → Option Nat → Option Points12
    | [], _, e, c, s =>
      match c, s with
      | some c, some s => some { ems := e, cFinished := c, sFinished := s }
      | _, _ => none
    | .msg _ .clientKeyExchange :: r, n, _, c, s => go r (n + 1) (some (n + 1)) c s
    | .msg _ _ :: r, n, e, c, s => go r (n + 1) e c s
    | .fin .client :: r, n, e, _, s => go r (n + 1) e (some n) s
    | .fin .server :: r, n, e, c, _ => go r (n + 1) e c (some n)
    | _ :: r, n, e, c, s => go r n e c s
  go script 0 none none none

end Tls.Transcript.Keys
