/-
  C18 — a tiny concurrent-program semantics.

  A thread is a list of operations (method calls); an operation is a list of atomic actions:
    loc f   touches only the thread's own state `ρ`
    sh f    reads / writes the shared state `σ` (and the thread's own state)
    acq     `lock.acquire()` / entering `with lock:`   (blocks while another thread holds it)
    rel     `lock.release()` / leaving `with lock:`
  One lock.  Any thread whose next action is enabled may move (`Step`): every interleaving.
  `shapeOK` is the lock discipline of one operation: shared accesses only between one `acq`
  and the matching `rel`.  The shapes of the real methods are generated from the Python AST
  (TlsModel/Gen/Locks.lean) and checked by `decide` in Props/C18.lean.
-/
namespace Tls.Conc

inductive Kind
  | loc | sh | acq | rel
  | bad      -- the translator could not classify the statement
  deriving DecidableEq, Repr

inductive Act (σ ρ : Type)
  | loc (f : ρ → ρ)
  | sh (f : σ → ρ → σ × ρ)
  | acq
  | rel

variable {σ ρ : Type}

def Act.kind : Act σ ρ → Kind
  | .loc _ => .loc
  | .sh _ => .sh
  | .acq => .acq
  | .rel => .rel

def kinds (as : List (Act σ ρ)) : List Kind := as.map Act.kind

/-- phase 0: before the critical section (only thread-local actions allowed), 1: inside,
    2: after it (only thread-local actions).  At most one critical section per operation;
    a section that is opened must be closed. -/
def shapeOK : Nat → List Kind → Bool
  | 0, [] => true
  | 2, [] => true
  | 0, .loc :: r => shapeOK 0 r
  | 0, .acq :: r => shapeOK 1 r
  | 1, .loc :: r => shapeOK 1 r
  | 1, .sh :: r => shapeOK 1 r
  | 1, .rel :: r => shapeOK 2 r
  | 2, .loc :: r => shapeOK 2 r
  | _, _ => false

structure Thread (σ ρ : Type) where
  loc : ρ
  ops : List (List (Act σ ρ))   -- remaining operations; the head is the rest of the current one

structure Cfg (σ ρ : Type) where
  sh : σ
  lock : Option Nat             -- holder
  th : Nat → Thread σ ρ

def setTh (th : Nat → Thread σ ρ) (t : Nat) (x : Thread σ ρ) : Nat → Thread σ ρ :=
  fun u => if u = t then x else th u

inductive Step : Cfg σ ρ → Cfg σ ρ → Prop
  | loc (c : Cfg σ ρ) (t : Nat) (f : ρ → ρ) (as : List (Act σ ρ)) (r : List (List (Act σ ρ))) :
      (c.th t).ops = (Act.loc f :: as) :: r →
      Step c { c with th := setTh c.th t ⟨f (c.th t).loc, as :: r⟩ }
  | sh (c : Cfg σ ρ) (t : Nat) (f : σ → ρ → σ × ρ) (as : List (Act σ ρ)) (r : List (List (Act σ ρ))) :
      (c.th t).ops = (Act.sh f :: as) :: r →
      Step c { c with sh := (f c.sh (c.th t).loc).1,
                      th := setTh c.th t ⟨(f c.sh (c.th t).loc).2, as :: r⟩ }
  | acq (c : Cfg σ ρ) (t : Nat) (as : List (Act σ ρ)) (r : List (List (Act σ ρ))) :
      (c.th t).ops = (Act.acq :: as) :: r → c.lock = none →
      Step c { c with lock := some t, th := setTh c.th t ⟨(c.th t).loc, as :: r⟩ }
  | rel (c : Cfg σ ρ) (t : Nat) (as : List (Act σ ρ)) (r : List (List (Act σ ρ))) :
      (c.th t).ops = (Act.rel :: as) :: r → c.lock = some t →
      Step c { c with lock := none, th := setTh c.th t ⟨(c.th t).loc, as :: r⟩ }
  | endOp (c : Cfg σ ρ) (t : Nat) (r : List (List (Act σ ρ))) :
      (c.th t).ops = [] :: r →
      Step c { c with th := setTh c.th t ⟨(c.th t).loc, r⟩ }

inductive Steps : Cfg σ ρ → Cfg σ ρ → Prop
  | refl (c : Cfg σ ρ) : Steps c c
  | tail {a b c : Cfg σ ρ} : Steps a b → Step b c → Steps a c

def Final (c : Cfg σ ρ) : Prop := ∀ t, (c.th t).ops = []

/-! ### serial execution: whole operations, one after the other -/

def runAct : Act σ ρ → σ × ρ → σ × ρ
  | .loc f, (s, l) => (s, f l)
  | .sh f, (s, l) => f s l
  | .acq, x => x
  | .rel, x => x

def runActs (as : List (Act σ ρ)) (x : σ × ρ) : σ × ρ := as.foldl (fun x a => runAct a x) x

structure SCfg (σ ρ : Type) where
  sh : σ
  th : Nat → Thread σ ρ

/-- thread `t` performs its next operation completely (nothing if it has none left) -/
def serialStep (s : SCfg σ ρ) (t : Nat) : SCfg σ ρ :=
  match (s.th t).ops with
  | [] => s
  | op :: r =>
    let x := runActs op (s.sh, (s.th t).loc)
    { sh := x.1, th := setTh s.th t ⟨x.2, r⟩ }

def serialRun (order : List Nat) (s : SCfg σ ρ) : SCfg σ ρ := order.foldl serialStep s

def initCfg (P : Nat → List (List (Act σ ρ))) (s0 : σ) (l0 : Nat → ρ) : Cfg σ ρ :=
  { sh := s0, lock := none, th := fun t => ⟨l0 t, P t⟩ }

def initSCfg (P : Nat → List (List (Act σ ρ))) (s0 : σ) (l0 : Nat → ρ) : SCfg σ ρ :=
  { sh := s0, th := fun t => ⟨l0 t, P t⟩ }

/-- every access of every operation to the shared state lies inside one
    acquire … release section of the lock -/
def AllSharedAccessInsideLock (P : Nat → List (List (Act σ ρ))) : Prop :=
  ∀ t, ∀ op ∈ P t, shapeOK 0 (kinds op) = true

end Tls.Conc
