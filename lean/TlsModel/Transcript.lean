import TlsModel.Basic
/-
  C04 — the handshake transcript, Finished, downgrade sentinel, FALLBACK_SCSV and the
  HelloRetryRequest consistency comparison of tlslite-ng, as an executable model.

  Mirrors (tlslite/):
    * tlsrecordlayer.py `_sendMsg(update_hashes)` / `_queue_message` / `_getMsg`: every handshake
      message sent or received is appended, as its raw serialisation (1 byte type, 3 byte length,
      body), to `_handshake_hash`; ChangeCipherSpec never is.
    * tlsconnection.py `_sendFinished` / `_getFinished` (<= TLS 1.2), `_clientTLS13Handshake`
      (1537-1557, 1673-1690), `_serverTLS13Handshake` (3203-3211, 3331-3351): verify_data is a
      keyed function of the digest of the transcript so far; the receiver recomputes it over its
      own transcript and compares all bytes.
    * tlsconnection.py 993-1001 / 4160-4168: after a HelloRetryRequest the transcript restarts
      with the synthetic `message_hash` message carrying the digest of the first ClientHello.
    * tlsconnection.py 2515-2520 (sentinel written), 542-560 (sentinel checked),
      733-735 / 3757-3762 (TLS_FALLBACK_SCSV), 3729-3756 (server version choice),
      4201-4302 (second ClientHello must equal the first modulo the HRR changes),
      handshakehelpers.py 76-164 + messages.py `psk_truncate` (binders).

  Cryptography is a parameter (`Prims`): nothing is assumed about it.  Core Lean only.
-/
namespace Tls.Transcript

/-! ## handshake messages and the byte stream that is hashed -/

/-- a handshake message as it enters `_handshake_hash`: type byte and body -/
structure Msg where
  htype : UInt8
  body : Bytes
deriving DecidableEq, Repr

def be24 (n : Nat) : Bytes :=
  [UInt8.ofNat (n / 65536 % 256), UInt8.ofNat (n / 256 % 256), UInt8.ofNat (n % 256)]

/-- `HandshakeMsg.postWrite`: type, 3-byte length, body -/
def Msg.enc (m : Msg) : Bytes := m.htype :: (be24 m.body.length ++ m.body)

/-- representable on the wire: the length fits the 3-byte field -/
def Msg.WF (m : Msg) : Prop := m.body.length < 2 ^ 24

instance (m : Msg) : Decidable m.WF := by unfold Msg.WF; exact inferInstance

/-- content of `HandshakeHashes._handshake_buffer` after the messages `ms` -/
def encAll : List Msg → Bytes
  | [] => []
  | m :: ms => m.enc ++ encAll ms

/-- inverse direction, used by the driver to split a captured handshake byte stream -/
def decodeAll : Nat → Bytes → Option (List Msg)
  | _, [] => some []
  | 0, _ => none
  | fuel + 1, t :: a :: b :: c :: rest =>
    let n := a.toNat * 65536 + b.toNat * 256 + c.toNat
    if rest.length < n then none
    else (decodeAll fuel (rest.drop n)).map (fun ms => ⟨t, rest.take n⟩ :: ms)
  | _, _ => none

/-! ## who sends what, and what is hashed, per flow -/

inductive Side | client | server
deriving DecidableEq, Repr

def Side.other : Side → Side
  | .client => .server
  | .server => .client

inductive Kind
  | clientHello | serverHello | helloRetryRequest | newSessionTicket | encryptedExtensions
  | certificate | serverKeyExchange | certificateRequest | serverHelloDone | certificateVerify
  | clientKeyExchange | finished | compressedCertificate | nextProtocol | messageHash
deriving DecidableEq, Repr

/-- `HandshakeType` values (constants.py) -/
def Kind.htype : Kind → UInt8
  | .clientHello => 1 | .serverHello => 2 | .helloRetryRequest => 2 | .newSessionTicket => 4
  | .encryptedExtensions => 8 | .certificate => 11 | .serverKeyExchange => 12
  | .certificateRequest => 13 | .serverHelloDone => 14 | .certificateVerify => 15
  | .clientKeyExchange => 16 | .finished => 20 | .compressedCertificate => 25
  | .nextProtocol => 67 | .messageHash => 254

inductive Flow
  | full12          -- SSLv3 … TLS 1.2 full handshake
  | resumeId12      -- session-ID resumption
  | resumeTicket12  -- RFC 5077 ticket resumption (same message order as session-ID resumption)
  | full13          -- TLS 1.3 certificate handshake
  | hrr13           -- TLS 1.3 with HelloRetryRequest
  | psk13           -- TLS 1.3 PSK / ticket resumption (no certificate flight)
  | pskHrr13        -- TLS 1.3 PSK after a HelloRetryRequest
deriving DecidableEq, Repr

/-- configuration-dependent optional messages -/
structure Opts where
  serverCert : Bool := true   -- suite in certAllSuites / ecdheEcdsaSuites / dheDsaSuites
  ske : Bool := false         -- suite not in certSuites (ServerKeyExchange present)
  certReq : Bool := false     -- server asks for a client certificate
  clientCert : Bool := false  -- client answers with a non-empty chain (CertificateVerify follows)
  nst : Bool := false         -- server sends NewSessionTicket before its CCS (<= 1.2)
  npn : Bool := false         -- NextProtocol negotiated
  compress : Bool := false    -- TLS 1.3: Certificate messages go as CompressedCertificate (RFC 8879)
deriving DecidableEq, Repr

/-- one step of a flow, in wire order -/
inductive Ev
  | msg (sender : Side) (k : Kind)   -- handshake message: hashed by sender and by receiver
  | ccs (sender : Side)              -- ChangeCipherSpec: never hashed (<= 1.2: required)
  | fin (sender : Side)              -- Finished: computed over the sender's transcript, compared by
                                     -- the receiver with its own value, then hashed by both
  | restart                          -- HelloRetryRequest: transcript := [message_hash(H(transcript))]
deriving DecidableEq, Repr

def opt (b : Bool) (l : List Ev) : List Ev := if b then l else []

open Side Kind in
/-- everything before the last Finished -/
def flowPrefix (f : Flow) (o : Opts) : List Ev :=
  let cert13 : Kind := if o.compress then compressedCertificate else certificate
  let tail13 : List Ev :=
    [.msg server serverHello, .msg server encryptedExtensions] ++
    opt o.certReq [.msg server certificateRequest] ++
    [.msg server cert13, .msg server certificateVerify, .fin server] ++
    opt o.certReq [.msg client cert13] ++
    opt (o.certReq && o.clientCert) [.msg client certificateVerify]
  let tailPsk13 : List Ev :=
    [.msg server serverHello, .msg server encryptedExtensions, .fin server]
  let resume12 : List Ev :=
    [.msg client clientHello, .msg server serverHello] ++
    opt o.nst [.msg server newSessionTicket] ++
    [.ccs server, .fin server, .ccs client] ++ opt o.npn [.msg client nextProtocol]
  match f with
  | .full12 =>
    [.msg client clientHello, .msg server serverHello] ++
    opt o.serverCert [.msg server certificate] ++
    opt o.ske [.msg server serverKeyExchange] ++
    opt o.certReq [.msg server certificateRequest] ++
    [.msg server serverHelloDone] ++
    opt o.certReq [.msg client certificate] ++
    [.msg client clientKeyExchange] ++
    opt (o.certReq && o.clientCert) [.msg client certificateVerify] ++
    [.ccs client] ++ opt o.npn [.msg client nextProtocol] ++ [.fin client] ++
    opt o.nst [.msg server newSessionTicket] ++ [.ccs server]
  | .resumeId12 => resume12
  | .resumeTicket12 => resume12
  | .full13 => [.msg client clientHello] ++ tail13
  | .hrr13 =>
    [.msg client clientHello, .restart, .msg server helloRetryRequest, .msg client clientHello] ++ tail13
  | .psk13 => [.msg client clientHello] ++ tailPsk13
  | .pskHrr13 =>
    [.msg client clientHello, .restart, .msg server helloRetryRequest, .msg client clientHello] ++ tailPsk13

/-- sender of the last Finished of the flow -/
def lastFin : Flow → Side
  | .full12 => .server
  | .resumeId12 => .client
  | .resumeTicket12 => .client
  | _ => .client

def flowScript (f : Flow) (o : Opts) : List Ev := flowPrefix f o ++ [.fin (lastFin f)]

/-- kinds (in order) hashed into `_handshake_hash` during a flow, HRR restart shown as
    `messageHash` replacing what came before -/
def hashedKinds : List Ev → List Kind → List Kind
  | [], acc => acc
  | .msg _ k :: r, acc => hashedKinds r (acc ++ [k])
  | .ccs _ :: r, acc => hashedKinds r acc
  | .fin _ :: r, acc => hashedKinds r (acc ++ [.finished])
  | .restart :: r, _ => hashedKinds r [.messageHash]

/-! ## endpoints under an active attacker -/

/-- cryptographic parameters; no property is assumed of them.
    `inner key sender transcriptBytes` is the digest the Finished pins
      (TLS: `H(transcript)`, independent of key and sender;
       SSLv3 `digestSSL`: `MD5(transcript ‖ sender ‖ key ‖ pad1) ‖ SHA1(…)`),
    `outer key sender digest` is verify_data
      (TLS <= 1.2: `PRF(master, label, digest)[:12]`; 1.3: `HMAC(finished_key(secret), digest)`;
       SSLv3: `MD5(key ‖ pad2 ‖ md5part) ‖ SHA1(key ‖ pad2 ‖ shapart)`),
    `H` the hash used for `message_hash`. -/
structure Prims where
  inner : Bytes → Side → Bytes → Bytes
  outer : Bytes → Side → Bytes → Bytes
  H : Bytes → Bytes

/-- `finishedVerifyData side transcript secret` -/
def finishedVerifyData (P : Prims) (sender : Side) (transcript : List Msg) (secret : Bytes) : Bytes :=
  P.outer secret sender (P.inner secret sender (encAll transcript))

/-- the acceptance check (`finished.verify_data != verifyData` → decrypt_error): all bytes -/
def finishedAccept (P : Prims) (sender : Side) (transcript : List Msg) (secret : Bytes)
    (received : Bytes) : Bool :=
  received == finishedVerifyData P sender transcript secret

/-- what goes over the wire at handshake level -/
inductive Wire
  | hs (m : Msg)
  | ccs
deriving DecidableEq, Repr

/-- a Finished computation: key, whose Finished, transcript bytes, digest, value -/
structure FinRec where
  key : Bytes
  sender : Side
  tbytes : Bytes
  digest : Bytes
  vd : Bytes
deriving DecidableEq, Repr

/-- the authenticated input of a Finished value -/
def FinRec.input (r : FinRec) : Bytes × Side × Bytes := (r.key, r.sender, r.digest)

structure EP where
  tr : List Msg := []            -- content of `_handshake_hash`
  pre : List Msg := []           -- transcript before the HRR restart (the first ClientHello)
  computed : List FinRec := []   -- Finished values computed to be sent
  accepted : List FinRec := []   -- Finished values of the peer that passed the comparison
  sent : List Wire := []
  input : List Wire := []        -- what the attacker will deliver, in order
deriving Repr

inductive Abort
  | noInput                     -- waits for a message that never comes
  | unexpectedMessage           -- `_getMsg`: wrong content type / handshake type
  | rejected                    -- any semantic check of the message failed
  | badFinished                 -- verify_data differs: decrypt_error
  | tooLong                     -- message not representable
deriving DecidableEq, Repr

/-- everything the model leaves open about an endpoint: the bodies it produces, the Finished
    key it holds and its semantic checks, all as arbitrary functions of its local history -/
structure Beh where
  produce : Kind → List Msg → Bytes
  secret : List Msg → Bytes
  check : Kind → List Msg → Msg → Bool

def mkFin (P : Prims) (sender : Side) (tr : List Msg) (key : Bytes) : FinRec :=
  { key := key, sender := sender, tbytes := encAll tr,
    digest := P.inner key sender (encAll tr),
    vd := finishedVerifyData P sender tr key }

/-- one step of one endpoint -/
def step (P : Prims) (me : Side) (B : Beh) (e : EP) : Ev → Except Abort EP
  | .msg s k =>
    if s = me then
      let m : Msg := ⟨k.htype, B.produce k e.tr⟩
      if m.WF then .ok { e with tr := e.tr ++ [m], sent := e.sent ++ [.hs m] } else .error .tooLong
    else
      match e.input with
      | [] => .error .noInput
      | .ccs :: _ => .error .unexpectedMessage
      | .hs m :: rest =>
        if m.htype ≠ k.htype then .error .unexpectedMessage
        else if ¬ m.WF then .error .tooLong
        else if ¬ B.check k e.tr m then .error .rejected
        else .ok { e with tr := e.tr ++ [m], input := rest }
  | .ccs s =>
    if s = me then .ok { e with sent := e.sent ++ [.ccs] }
    else
      match e.input with
      | [] => .error .noInput
      | .ccs :: rest => .ok { e with input := rest }
      | .hs _ :: _ => .error .unexpectedMessage
  | .fin s =>
    if s = me then
      let r := mkFin P me e.tr (B.secret e.tr)
      let m : Msg := ⟨Kind.finished.htype, r.vd⟩
      if m.WF then
        .ok { e with tr := e.tr ++ [m], computed := e.computed ++ [r], sent := e.sent ++ [.hs m] }
      else .error .tooLong
    else
      match e.input with
      | [] => .error .noInput
      | .ccs :: _ => .error .unexpectedMessage
      | .hs m :: rest =>
        if m.htype ≠ Kind.finished.htype then .error .unexpectedMessage
        else if ¬ m.WF then .error .tooLong
        else
          let r := mkFin P s e.tr (B.secret e.tr)
          if finishedAccept P s e.tr (B.secret e.tr) m.body then
            .ok { e with tr := e.tr ++ [m], accepted := e.accepted ++ [r], input := rest }
          else .error .badFinished
  | .restart =>
    let m : Msg := ⟨Kind.messageHash.htype, P.H (encAll e.tr)⟩
    if m.WF then .ok { e with pre := e.tr, tr := [m] } else .error .tooLong

def runFrom (P : Prims) (me : Side) (B : Beh) : EP → List Ev → Except Abort EP
  | e, [] => .ok e
  | e, ev :: rest =>
    match step P me B e ev with
    | .ok e' => runFrom P me B e' rest
    | .error a => .error a

/-- an endpoint running a flow against attacker-chosen deliveries `input` -/
def runSide (P : Prims) (me : Side) (B : Beh) (script : List Ev) (input : List Wire) : Except Abort EP :=
  runFrom P me B { input := input } script

/-! ### the named bad events of the reduction (symmetric in the two endpoints) -/

def EP.recs (e : EP) : List FinRec := e.computed ++ e.accepted

/-- two different byte strings with the same digest: two Finished computations of this run (one
    per endpoint, same key and direction) over different transcripts pin the same digest; or the
    two first ClientHellos of an HRR flow differ but have the same `message_hash`. -/
def HashCollision (P : Prims) (a b : EP) : Prop :=
  (∃ ra ∈ a.recs, ∃ rb ∈ b.recs, ra.key = rb.key ∧ ra.sender = rb.sender ∧
      ra.tbytes ≠ rb.tbytes ∧
      P.inner ra.key ra.sender ra.tbytes = P.inner rb.key rb.sender rb.tbytes) ∨
  (encAll a.pre ≠ encAll b.pre ∧ P.H (encAll a.pre) = P.H (encAll b.pre))

/-- an endpoint accepted a verify_data as valid for (its key, direction, its digest) although
    the peer never computed a Finished over that input (with that key): a valid tag on an input
    the holder of the secret did not authenticate. -/
def FinishedForgery (a b : EP) : Prop :=
  (∃ r ∈ a.accepted, ∀ r' ∈ b.computed, r'.input ≠ r.input) ∨
  (∃ r ∈ b.accepted, ∀ r' ∈ a.computed, r'.input ≠ r.input)

/-- the two endpoints hold the same Finished key in each direction -/
def finKeysAgree (a b : EP) : Prop :=
  ∀ ra ∈ a.recs, ∀ rb ∈ b.recs, ra.sender = rb.sender → ra.key = rb.key

/-! ### shape of the transcript along a script -/

def shapeStep (sh : List UInt8) : Ev → List UInt8
  | .msg _ k => sh ++ [k.htype]
  | .ccs _ => sh
  | .fin _ => sh ++ [Kind.finished.htype]
  | .restart => [Kind.messageHash.htype]

def shapeOf : List Ev → List UInt8 → List UInt8
  | [], sh => sh
  | ev :: r, sh => shapeOf r (shapeStep sh ev)

def isFin (z : Side) : Ev → Bool
  | .fin s => s == z
  | _ => false

def noFin (z : Side) (l : List Ev) : Bool := l.all (fun ev => !isFin z ev)

/-- split a script at the first Finished sent by `z` -/
def splitAtFin (z : Side) : List Ev → Option (List Ev × List Ev)
  | [] => none
  | ev :: r =>
    if isFin z ev then some ([], r)
    else match splitAtFin z r with
      | some (a, b) => some (ev :: a, b)
      | none => none

/-! ### message-level prediction used by the correspondence

`detector script i` — if the attacker changes the content of the i-th hashed message of the flow
(and the receiver's parser/semantic checks do not object), which endpoint is the first to compare
a Finished value computed over a transcript containing that message: that endpoint's check fails. -/
def evSender : Ev → Option Side
  | .msg s _ => some s
  | .fin s => some s
  | .ccs s => some s
  | .restart => none

def isHashed : Ev → Bool
  | .msg _ _ => true
  | .fin _ => true
  | _ => false

/-- receiver of the first Finished at or after position `i` in the script -/
def firstFinCheckAfter : List Ev → Nat → Option Side
  | [], _ => none
  | .fin s :: _, 0 => some s.other
  | _ :: r, 0 => firstFinCheckAfter r 0
  | _ :: r, i + 1 => firstFinCheckAfter r i

def is13 : Flow → Bool
  | .full12 | .resumeId12 | .resumeTicket12 => false
  | _ => true

/-- is the i-th event sent under record protection?  <= 1.2: after the sender's own
    ChangeCipherSpec; 1.3: everything after the (real) ServerHello -/
def protectedAt (f : Flow) (script : List Ev) (i : Nat) : Bool :=
  match script[i]? with
  | none => false
  | some ev =>
    match evSender ev with
    | none => false
    | some s =>
      let before := script.take i
      if is13 f then before.contains (.msg .server .serverHello)
      else before.contains (.ccs s)

/-- Which endpoint is the first to notice that the i-th event of the flow was modified in
    flight, if the receiver's parser and semantic checks accept the modified message:
    a protected record fails to open at its receiver; an unprotected message of a 1.3 flow
    changes the transcript hash from which the handshake traffic keys are derived
    (tlsconnection.py 1317-1341 / 3036-3050), so the client cannot open the server's first
    protected record; below 1.3 the receiver of the next Finished compares different values. -/
def detector (f : Flow) (o : Opts) (i : Nat) : Option Side :=
  let script := flowScript f o
  match script[i]? with
  | none => none
  | some ev =>
    match evSender ev with
    | none => none
    | some s =>
      if protectedAt f script i then some s.other
      else if is13 f then some .client
      else firstFinCheckAfter script i

/-- All endpoints that may be the first to notice (apart from the receiver itself rejecting the
    message): `detector`, and — in a full <= 1.2 handshake with a signed ServerKeyExchange — the
    client for a modified ClientHello, because the signature it verifies covers
    client_random ‖ server_random ‖ params (keyexchange.py `hashAndSign`/`verifyServerKeyExchange`);
    and the server for a modified HelloRetryRequest, through the second ClientHello. -/
def detectors (f : Flow) (o : Opts) (i : Nat) : List Side :=
  let base := match detector f o i with
    | some s => [s]
    | none => []
  let signedSke := f == .full12 && o.ske && o.serverCert &&
    (flowScript f o)[i]? == some (.msg .client .clientHello)
  -- the server compares the cookie and key share of the second ClientHello with the
  -- HelloRetryRequest it sent (tlsconnection.py, "verify that the new key share is present" …)
  let hrrEcho := (flowScript f o)[i]? == some (.msg .server .helloRetryRequest)
  base ++ (if signedSke then [.client] else []) ++ (if hrrEcho then [.server] else [])

/-! ## downgrade sentinel (RFC 8446 4.1.3) as written and as checked -/

abbrev Version := Nat × Nat

/-- Python tuple comparison -/
def vlt (a b : Version) : Bool := a.1 < b.1 || (a.1 == b.1 && a.2 < b.2)
def vle (a b : Version) : Bool := vlt a b || a == b
def vmin (a b : Version) : Version := if vlt b a then b else a

def knownVersions : List Version := [(3, 0), (3, 1), (3, 2), (3, 3), (3, 4)]

/-- "DOWNGRD\x01" -/
def sentinel12 : Bytes := [0x44, 0x4f, 0x57, 0x4e, 0x47, 0x52, 0x44, 0x01]
/-- "DOWNGRD\x00" -/
def sentinel11 : Bytes := [0x44, 0x4f, 0x57, 0x4e, 0x47, 0x52, 0x44, 0x00]

/-- tlsconnection.py 2515-2520: last 8 bytes of ServerHello.random (full handshake, <= 1.2),
    `rnd8` being what `getRandomBytes` put there -/
def serverRandomTail (smax negotiated : Version) (rnd8 : Bytes) : Bytes :=
  let r := if negotiated == (3, 3) && vlt (3, 3) smax then sentinel12 else rnd8
  if vlt negotiated (3, 3) && vle (3, 3) smax then sentinel11 else r

/-- The abbreviated (session-ID / ticket resumption) ServerHello of `_serverGetClientHello`:
    `serverHello.create(version, getRandomBytes(32), session.sessionID, …)` — no sentinel is
    written there, whatever the versions; a resumed handshake is protected against version
    rollback by the Finished MAC under the cached master secret only. -/
def serverRandomTailResumed (_smax _negotiated : Version) (rnd8 : Bytes) : Bytes := rnd8

inductive Alert
  | illegalParameter | inappropriateFallback | protocolVersion
deriving DecidableEq, Repr

inductive Verdict
  | proceed
  | abort (a : Alert)
deriving DecidableEq, Repr

/-- tlsconnection.py 542-560: `cmax` = settings.maxVersion, `negotiated` = self.version,
    `tail` = serverHello.random[-8:] -/
def clientChecksSentinel (cmax negotiated : Version) (tail : Bytes) : Verdict :=
  if (vlt (3, 3) cmax && vle negotiated (3, 3)) && (tail == sentinel12 || tail == sentinel11) then
    .abort .illegalParameter
  else if cmax == (3, 3) && vlt negotiated (3, 3) && tail == sentinel11 then
    .abort .illegalParameter
  else .proceed

/-! ## server version choice and TLS_FALLBACK_SCSV -/

def fallbackScsv : Nat := 0x5600

/-- `getFirstMatching(settings.versions, ext.versions)` -/
def firstMatching (mine theirs : List Version) : Option Version :=
  mine.find? (fun v => theirs.contains v)

/-- tlsconnection.py `_serverGetClientHello`, "negotiate the protocol version for the connection":
    the negotiated `version` (not the record-layer one).  `ext` = versions in supported_versions,
    if the extension is present; only the entries of settings.versions inside the configured
    range [smin, smax] are acceptable. -/
def serverSelectVersion (sversions : List Version) (smin smax chVersion : Version)
    (ext : Option (List Version)) : Except Alert Version :=
  let fromHello : Version :=
    if vlt smax chVersion then vmin smax (3, 3) else vmin chVersion (3, 3)
  match ext with
  | some vs =>
    match firstMatching (sversions.filter (fun v => vle smin v && vle v smax)) vs with
    | some hv => .ok hv
    | none => .error .protocolVersion
  | none => .ok fromHello

/-- tlsconnection.py 3757-3762 -/
def serverChecksScsv (smax version : Version) (suites : List Nat) : Verdict :=
  if vlt version smax && suites.contains fallbackScsv then .abort .inappropriateFallback else .proceed

inductive ServerPath | abbreviated | full
deriving DecidableEq, Repr

/-- Order of the server's decisions on a ClientHello (`_serverGetClientHello`): version choice,
    then the TLS_FALLBACK_SCSV test, and only then the resumption block (session-ID cache or
    RFC 5077 ticket lookup plus its consistency checks, whose outcome is `sessionFound`).  The
    SCSV test therefore guards abbreviated handshakes exactly as it guards full ones. -/
def serverAfterHello (sversions : List Version) (smin smax chVersion : Version)
    (ext : Option (List Version)) (suites : List Nat) (sessionFound : Bool) :
    Except Alert (Version × ServerPath) :=
  match serverSelectVersion sversions smin smax chVersion ext with
  | .error a => .error a
  | .ok v =>
    match serverChecksScsv smax v suites with
    | .abort a => .error a
    | .proceed => .ok (v, if sessionFound then .abbreviated else .full)

/-- tlsconnection.py 733-735: suites on the wire -/
def clientWireSuites (suites : List Nat) (sendFallbackSCSV : Bool) : List Nat :=
  if sendFallbackSCSV then suites ++ [fallbackScsv] else suites

/-- tlsconnection.py 3461-3475: the "too old" test of the ClientHello -/
def clientHelloRealVersion (chVersion : Version) (ext : Option (List Version)) : Version :=
  if vle (3, 3) chVersion then
    match ext with
    | some vs => vs.foldl (fun rv v => if knownVersions.contains v && vlt rv v then v else rv) chVersion
    | none => chVersion
  else chVersion

/-- tlsconnection.py 891, 796-807: legacy version and supported_versions of the ClientHello;
    `cversions` = settings.versions after validate() -/
def clientOffer (cmax : Version) (cversions : List Version) : Version × Option (List Version) :=
  (vmin cmax (3, 3), if cversions.any (fun v => vlt (3, 3) v) then some cversions else none)

/-! ## the negotiated parameters as a function of the transcript -/

structure HelloView where
  legacyVersion : Version
  random : Bytes
  sessionId : Bytes
  suite : Nat
  compression : Nat
  extensions : Bytes            -- raw extension block (versions, key share, EMS, EtM, ALPN …)
deriving DecidableEq, Repr

/-- fixed part of `ServerHello.parse` -/
def parseServerHello (b : Bytes) : Option HelloView :=
  match b with
  | vmaj :: vmin :: rest =>
    if rest.length < 33 then none
    else
      let random := rest.take 32
      let r1 := rest.drop 32
      match r1 with
      | sl :: r2 =>
        if r2.length < sl.toNat + 3 then none
        else
          let sid := r2.take sl.toNat
          match r2.drop sl.toNat with
          | s1 :: s2 :: comp :: exts =>
            some { legacyVersion := (vmaj.toNat, vmin.toNat), random := random, sessionId := sid,
                   suite := s1.toNat * 256 + s2.toNat, compression := comp.toNat, extensions := exts }
          | _ => none
      | [] => none
  | _ => none

/-- what an endpoint takes as negotiated: the last ServerHello of its transcript (after an HRR
    the HelloRetryRequest has the same handshake type and comes first) together with the
    ClientHello(s) it answers -/
structure Negotiated where
  serverHello : Option HelloView
  clientHellos : List Bytes
  encryptedExtensions : List Bytes
  certificates : List Bytes
deriving DecidableEq, Repr

def bodiesOf (tr : List Msg) (t : UInt8) : List Bytes := (tr.filter (·.htype == t)).map (·.body)

def negotiated (tr : List Msg) : Negotiated :=
  { serverHello := ((bodiesOf tr Kind.serverHello.htype).getLast?).bind parseServerHello,
    clientHellos := bodiesOf tr Kind.clientHello.htype,
    encryptedExtensions := bodiesOf tr Kind.encryptedExtensions.htype,
    certificates := bodiesOf tr Kind.certificate.htype }

/-! ## second ClientHello after HelloRetryRequest (tlsconnection.py 4201-4302) -/

structure Ext where
  typ : Nat
  data : Bytes
deriving DecidableEq, Repr

/-- the features `ClientHello.write()` serialises -/
structure Hello where
  version : Version
  random : Bytes
  sessionId : Bytes
  suites : List Nat
  compression : List Nat
  exts : List Ext
deriving DecidableEq, Repr

def extKeyShare : Nat := 51
def extCookie : Nat := 44
def extPadding : Nat := 21
def extPsk : Nat := 41
def extEarlyData : Nat := 42

def getExt (h : Hello) (t : Nat) : Option Ext := h.exts.find? (·.typ == t)

/-- replace the payload of the first extension of type `t` -/
def setExtData : List Ext → Nat → Bytes → List Ext
  | [], _, _ => []
  | e :: r, t, d => if e.typ == t then { e with data := d } :: r else e :: setExtData r t d

def insertAt : List Ext → Nat → Ext → List Ext
  | l, 0, x => x :: l
  | [], _, x => [x]            -- list.insert past the end appends
  | e :: r, i + 1, x => e :: insertAt r i x

def indexOfType : List Ext → Nat → Option Nat
  | [], _ => none
  | e :: r, t => if e.typ == t then some 0 else (indexOfType r t).map (· + 1)

/-- `extensions[-1] = x` (IndexError on an empty list) -/
def setLast : List Ext → Ext → Option (List Ext)
  | [], _ => none
  | [_], x => some [x]
  | e :: r, x => (setLast r x).map (e :: ·)

inductive HrrErr
  | missingKeyShare | multipleShares | wrongGroup | malformedCookie | missingCookie
  | pskNotLast | mismatch | indexError
deriving DecidableEq, Repr

/-- The comparison of tlsconnection.py 4201-4302.  `shareGroups` = groups of the key shares in
    the second hello's key_share extension (parsed by the caller), `cookie` = payload of the
    cookie the server sent in the HRR (it always sends one), `selected` = group asked for. -/
def hrrConsistent (ch1 ch2 : Hello) (shareGroups : List Nat) (selected : Nat) (cookie : Bytes) :
    Except HrrErr Unit :=
  match getExt ch2 extKeyShare with
  | none => .error .missingKeyShare
  | some newKs =>
    if shareGroups.length ≠ 1 then .error .multipleShares
    else if shareGroups ≠ [selected] then .error .wrongGroup
    else
      -- old_ext.client_shares = new_ext.client_shares
      let e1 := setExtData ch1.exts extKeyShare newKs.data
      -- cookie inserted at the position it has in the new hello
      match indexOfType ch2.exts extCookie with
      | none => .error .missingCookie
      | some i =>
        match ch2.exts[i]? with
        | none => .error .indexError
        | some ck =>
          if ck.data ≠ cookie then .error .malformedCookie
          else
            let e2 := insertAt e1 i ck
            -- padding may change
            let oldPad := e2.find? (·.typ == extPadding)
            let newPad := ch2.exts.find? (·.typ == extPadding)
            let e3 : List Ext :=
              if oldPad == newPad then e2
              else match oldPad, newPad, indexOfType ch2.exts extPadding with
                | none, some p, some j => insertAt e2 j p
                | some _, none, _ => e2.filter (·.typ != extPadding)
                | some _, some p, _ => setExtData e2 extPadding p.data
                | _, _, _ => e2
            -- PSK extension replaced by the new one (new binders)
            let oldPsk := e3.find? (·.typ == extPsk)
            let newPsk := ch2.exts.find? (·.typ == extPsk)
            let r4 : Except HrrErr (List Ext) :=
              match oldPsk, newPsk with
              | some _, some p =>
                match setLast e3 p with
                | none => .error .indexError
                | some l => if ch2.exts.getLast? ≠ some p then .error .pskNotLast else .ok l
              | _, _ => .ok e3
            match r4 with
            | .error e => .error e
            | .ok e4 =>
              -- early_data must be dropped (first occurrence removed)
              let e5 := match e4.find? (·.typ == extEarlyData) with
                | some x => e4.erase x
                | none => e4
              if ({ ch1 with exts := e5 } : Hello) ≠ ch2 then .error .mismatch else .ok ()

/-- extension types the HRR comparison lets differ -/
def hrrMutable (t : Nat) : Bool :=
  t == extKeyShare || t == extCookie || t == extPadding || t == extPsk || t == extEarlyData

/-! ## PSK binders (handshakehelpers.py, messages.py `psk_truncate`) -/

/-- `sum(len(i) + 1 for i in ext.binders) + 2` -/
def bindersLen (binders : List Bytes) : Nat := (binders.map (fun b => b.length + 1)).sum + 2

/-- `bts[:-length]` for `length >= 2` -/
def pskTruncate (ch : Bytes) (binders : List Bytes) : Bytes := ch.take (ch.length - bindersLen binders)

/-- serialisation of the binder list, the tail of a ClientHello whose last extension is
    pre_shared_key -/
def encBinders (binders : List Bytes) : Bytes :=
  let body := binders.flatMap (fun b => UInt8.ofNat b.length :: b)
  [UInt8.ofNat (body.length / 256 % 256), UInt8.ofNat (body.length % 256)] ++ body

/-- binder primitives: `bkey psk external` = finished_key of the binder key; `mac key digest` -/
structure BinderPrims where
  H : Bytes → Bytes
  bkey : Bytes → Bool → Bytes
  mac : Bytes → Bytes → Bytes

/-- `_calc_binder` over `hh = pre ‖ psk_truncate(ch)` -/
def binderValue (Q : BinderPrims) (psk : Bytes) (external : Bool) (pre : Bytes) (ch : Bytes)
    (binders : List Bytes) : Bytes :=
  Q.mac (Q.bkey psk external) (Q.H (pre ++ pskTruncate ch binders))

/-- `verify_binder` -/
def verifyBinder (Q : BinderPrims) (psk : Bytes) (external : Bool) (pre : Bytes) (ch : Bytes)
    (binders : List Bytes) (position : Nat) : Option Bool :=
  match binders[position]? with
  | none => none                                   -- IndexError
  | some b => some (b == binderValue Q psk external pre ch binders)

end Tls.Transcript
