import TlsModel.PyInt
/-
  Python-runtime model, part 3: what tlslite/utils/codec.py (and HandshakeMsg.postWrite) needs on
  top of TlsModel/PyInt.lean.  Target language of translate/gen_codec.py (generated module
  TlsModel/Gen/Codec.lean); core Lean only.

  * `M α = Except Exc α`.  `Exc.valueError`, `.decodeError` (tlslite's DecodeError, a SyntaxError),
    `.structError` (struct.error), `.overflowError`, `.zeroDivision`, `.indexError` are the Python
    exceptions of that name; `.other` is any other exception *and poison* (what the translator
    emits for a construct it does not understand) — no `except` clause of codec.py catches it.
  * `try: BODY except K: HANDLER` = `tryExcept BODY K HANDLER`; BODY yields the whole updated state,
    so a BODY that raised leaves no trace (codec.py mutates only on the last step of a try body).
  * ints are `Int`; `x.to_bytes(n, 'big')`, `struct.pack` with the formats codec.py uses,
    `bytearray.append/extend`, `int.from_bytes(b, 'big')`, `[0] * n`, `l[i] = v`, `l.append(v)`,
    `range(n)`, `%` and `//` are modelled here with the exceptions they raise.
  * A `Writer` object is its `bytes` attribute; a `Parser` object the record of its four attributes
    (`index`, `indexCheck`, `lengthCheck` are Python ints).
  The primitives are compared with the running interpreter by harness/props/c15.py (stream `pyobj`).
-/
namespace Tls.PyO
open Tls

inductive Exc where
  | valueError | decodeError | structError | overflowError | zeroDivision | indexError | other
  deriving DecidableEq, Repr

abbrev M := Except Exc

instance : MonadLift Option M := ⟨fun o => match o with | some a => .ok a | none => .error .other⟩

/-- what the translator emits for a construct it does not understand -/
def poison {α : Type} : M α := .error .other

def raise {α : Type} (e : Exc) : M α := .error e

/-- `try: body  except kind: handler` -/
def tryExcept {α : Type} (body : M α) (kind : Exc) (handler : M α) : M α :=
  match body with
  | .ok a => .ok a
  | .error e => if e = kind then handler else .error e

/-- `for x in l: s = body(x, s)` -/
def forM {β σ : Type} (l : List β) (init : σ) (body : β → σ → M σ) : M σ :=
  l.foldlM (fun s x => body x s) init

/-- `range(n)` -/
def range (n : Int) : List Int := (List.range n.toNat).map fun (k : Nat) => (k : Int)

/-- `x.to_bytes(length, 'big')`: ValueError for a negative length, OverflowError for a negative
    `x` or one that needs more bytes -/
def toBytesBig (x length : Int) : M Bytes :=
  if length < 0 then .error .valueError
  else if x < 0 then .error .overflowError
  else if x.toNat < 256 ^ length.toNat then .ok (beEncode length.toNat x.toNat)
  else .error .overflowError

/-- `int.from_bytes(b, 'big')` (compat.bytes_to_int on Python 3) -/
def bytesToInt (b : Bytes) : Int := (beDecode b : Int)

/-- one unsigned item of a `struct.pack` big-endian format on `n` bytes: struct.error outside
    `0 .. 256^n - 1` -/
def packItem (n : Nat) (v : Int) : M Bytes :=
  if 0 ≤ v ∧ v.toNat < 256 ^ n then .ok (beEncode n v.toNat) else .error .structError

/-- `pack('>H', v)` -/
def packH (v : Int) : M Bytes := packItem 2 v
/-- `pack('>I', v)` -/
def packI (v : Int) : M Bytes := packItem 4 v
/-- `pack('>BH', a, b)` -/
def packBH (a b : Int) : M Bytes := do
  let x ← packItem 1 a
  let y ← packItem 2 b
  pure (x ++ y)
/-- `pack('>' + 'H' * n, *seq)`: struct.error unless exactly `n` items, each in range -/
def packHs (n : Int) (seq : List Int) : M Bytes :=
  if n ≠ (seq.length : Int) then .error .structError
  else seq.foldlM (fun acc v => do let b ← packItem 2 v; pure (acc ++ b)) []

/-- `b.append(v)`: ValueError unless `v` is in `range(256)` -/
def appendByte (b : Bytes) (v : Int) : M Bytes :=
  if 0 ≤ v ∧ v < 256 then .ok (b ++ [UInt8.ofNat v.toNat]) else .error .valueError

/-- `b.extend(seq)` for a sequence of ints -/
def extendInts (b : Bytes) (seq : List Int) : M Bytes :=
  seq.foldlM appendByte b

/-- `[0] * n` -/
def zeros (n : Int) : List Int := List.replicate n.toNat 0

/-- `l[i] = v` for a non-negative index (IndexError outside the list) -/
def listSet (l : List Int) (i v : Int) : M (List Int) :=
  if 0 ≤ i ∧ i.toNat < l.length then .ok (l.set i.toNat v) else .error .indexError

/-- `seq[0]` of a list of tuples -/
def head? (l : List (List Int)) : M (List Int) :=
  match l with | a :: _ => .ok a | [] => .error .indexError

/-- `a % b`, `a // b` (Python: floor) -/
def pyMod (a b : Int) : M Int := if b = 0 then .error .zeroDivision else .ok (Int.fmod a b)
def pyFloorDiv (a b : Int) : M Int := if b = 0 then .error .zeroDivision else .ok (Int.fdiv a b)

/-- `len(x)` -/
def lenB (b : Bytes) : Int := b.length
def lenL {α : Type} (l : List α) : Int := l.length

/-- a `Writer` object -/
structure Writer where
  bytes : Bytes
  deriving DecidableEq, Repr

/-- a `Parser` object -/
structure Parser where
  bytes : Bytes
  index : Int
  indexCheck : Int
  lengthCheck : Int
  deriving DecidableEq, Repr

end Tls.PyO
