import TlsModel.CT
/-
  Model of `RSAKey._dec_prf`, `RSAKey.decrypt`, `RSAKey._raw_private_key_op_bytes`
  (tlslite/utils/rsakey.py) and `RSAKeyExchange.processClientKeyExchange`
  (tlslite/keyexchange.py), statement by statement.

  Python ints are `Nat`.  The external primitives are parameters (`Prims`): SHA-256,
  HMAC-SHA256 (`secureHMAC(key, msg, "sha256")`) and the integer private-key operation
  `_rawPrivateKeyOp` (blinded CRT exponentiation in python_rsakey.py).  Python exceptions
  that can escape are an `Except PyErr`; `None` is `Option.none`.

  `numBytes(n) - 10` and `numBytes(n) - synth_length` are Python int subtractions; the
  model uses `Nat` subtraction, which agrees whenever `11 ≤ numBytes n` (every theorem
  carries that hypothesis; a 88-bit modulus is the smallest to which PKCS#1 v1.5
  encryption applies at all).
-/
namespace Tls.RsaDec
open Tls.CT

inductive PyErr where
  | stopIteration   -- `next(em_bytes)` on an exhausted iterator
  | valueError      -- `raise ValueError` in `_dec_prf`
  | spin            -- a `while` loop that would not terminate (HMAC returning no bytes)
  deriving Repr, DecidableEq

/-- decidable equality of results (own instance: other modules derive theirs under the default name) -/
instance decEqExcept {ε α : Type} [DecidableEq ε] [DecidableEq α] : DecidableEq (Except ε α)
  | .ok a, .ok b => if h : a = b then isTrue (by rw [h]) else isFalse (fun e => by cases e; exact h rfl)
  | .error a, .error b => if h : a = b then isTrue (by rw [h]) else isFalse (fun e => by cases e; exact h rfl)
  | .ok _, .error _ => isFalse (fun e => by cases e)
  | .error _, .ok _ => isFalse (fun e => by cases e)

def PyErr.name : PyErr → String
  | .stopIteration => "StopIteration"
  | .valueError => "ValueError"
  | .spin => "spin"

/-- `int.bit_length()` -/
def numBits (x : Nat) : Nat := if x = 0 then 0 else Nat.log2 x + 1

/-- `byte_length` of compat.py -/
def numBytes (x : Nat) : Nat := (numBits x + 7) / 8

structure Prims where
  /-- `secureHash(data, "sha256")` -/
  sha256 : Bytes → Bytes
  /-- `secureHMAC(key, msg, "sha256")` -/
  hmac : Bytes → Bytes → Bytes
  /-- `_rawPrivateKeyOp(m_int)` -/
  privInt : Nat → Nat

structure Key where
  n : Nat
  d : Nat

def Key.k (K : Key) : Nat := numBytes K.n

/-- `_raw_private_key_op_bytes`: `numberToByteArray(x, k)` is the (truncating) big-endian
    encoding on `k` bytes. -/
def rawPrivateKeyOpBytes (K : Key) (P : Prims) (msg : Bytes) : Except PyErr Bytes :=
  if msg.length ≠ K.k then .error .valueError
  else
    let mInt := beDecode msg
    if mInt ≥ K.n then .error .valueError
    else .ok (beEncode K.k (P.privInt mInt))

def lengthLabel : Bytes := [108, 101, 110, 103, 116, 104]          -- b"length"
def messageLabel : Bytes := [109, 101, 115, 115, 97, 103, 101]     -- b"message"

/-- the `while len(out) < out_len // 8` loop of `_dec_prf`; `none` = fuel exhausted with the
    condition still true -/
def prfLoop (hmac : Bytes → Bytes → Bytes) (key label : Bytes) (outLen need : Nat) :
    Nat → Nat → Bytes → Option Bytes
  | 0, _, out => if out.length < need then none else some out
  | fuel + 1, iterator, out =>
    if out.length < need then
      prfLoop hmac key label outLen need fuel (iterator + 1)
        (out ++ hmac key (beEncode 2 iterator ++ label ++ beEncode 2 outLen))
    else some out

/-- `_dec_prf(key, label, out_len)`; every iteration of the loop with a non-empty HMAC output
    adds at least one byte, so `out_len // 8` iterations are enough fuel. -/
def decPrf (hmac : Bytes → Bytes → Bytes) (key label : Bytes) (outLen : Nat) : Except PyErr Bytes :=
  if outLen % 8 ≠ 0 then .error .valueError
  else
    match prfLoop hmac key label outLen (outLen / 8) (outLen / 8) 0 [] with
    | none => .error .spin
    | some out => .ok (out.take (outLen / 8))

/-- `zip(it, it)` over one iterator: consecutive pairs, an odd trailing byte is dropped -/
def pairs : Bytes → List (UInt8 × UInt8)
  | a :: b :: rest => (a, b) :: pairs rest
  | _ => []

/-- body of the candidate-length loop -/
def synthStep (maxSep lengthMask : Nat) (synth : Nat) (hl : UInt8 × UInt8) : Nat :=
  let cand := (hl.1.toNat <<< 8) + hl.2.toNat
  let cand := cand &&& lengthMask
  let mask := ctLtU32 cand maxSep
  let mask := ctLsbPropU16 mask
  (synth &&& (0xffff ^^^ mask)) ||| (cand &&& mask)

/-- "select the last length that's not too large to return" -/
def synthLen (maxSep : Nat) (lengthRandoms : Bytes) : Nat :=
  let lengthMask := (1 <<< numBits maxSep) - 1
  (pairs lengthRandoms).foldl (synthStep maxSep lengthMask) 0

/-- the `for pos, val in em_bytes` loop: state (`error_detected`, `msg_start`) -/
def scan : Nat → Nat → Nat → Bytes → Nat × Nat
  | _, err, msgStart, [] => (err, msgStart)
  | pos, err, msgStart, v :: rest =>
    let err := err ||| (ctLtU32 pos 10 &&& (1 ^^^ ctIsNonZeroU32 v.toNat))
    let mask := (1 ^^^ ctLtU32 pos 10) &&& (1 ^^^ ctIsNonZeroU32 v.toNat)
      &&& (1 ^^^ ctIsNonZeroU32 msgStart)
    let mask := ctLsbPropU16 mask
    let msgStart := (msgStart &&& (0xffff ^^^ mask)) ||| ((pos + 1) &&& mask)
    scan (pos + 1) err msgStart rest

/-- the final masked selection `x & not_mask | y & mask` over the zipped tails -/
def selectBytes (mask : Nat) (xs ys : Bytes) : Bytes :=
  let notMask := 0xff ^^^ mask
  List.zipWith (fun x y => UInt8.ofNat ((x.toNat &&& notMask) ||| (y.toNat &&& mask))) xs ys

/-- `secureHash(numberToByteArray(self.d, numBytes(n)), "sha256")` -/
def keyHash (K : Key) (P : Prims) : Bytes := P.sha256 (beEncode K.k K.d)

/-- the key-derivation key `secureHMAC(self._key_hash, encBytes, "sha256")` -/
def kdk (K : Key) (P : Prims) (enc : Bytes) : Bytes := P.hmac (keyHash K P) enc

/-- everything `decrypt` does after the raw private-key operation succeeded -/
def decryptTail (K : Key) (P : Prims) (enc dec : Bytes) : Except PyErr Bytes := do
  let k := K.k
  let maxSepOffset := k - 10
  let kdk := kdk K P enc
  let lengthRandoms ← decPrf P.hmac kdk lengthLabel (128 * 2 * 8)
  let messageRandom ← decPrf P.hmac kdk messageLabel (k * 8)
  let synthLength := synthLen maxSepOffset lengthRandoms
  let synthMsgStart := k - synthLength
  match dec with
  | b0 :: b1 :: rest =>
    let err := 0 ||| ctIsNonZeroU32 b0.toNat
    let err := err ||| ctNeqU32 b1.toNat 0x02
    let (err, msgStart) := scan 2 err 0 rest
    let err := err ||| (1 ^^^ ctIsNonZeroU32 msgStart)
    let mask := ctLsbPropU16 err
    let retMsgStart := (msgStart &&& (0xffff ^^^ mask)) ||| (synthMsgStart &&& mask)
    let mask := ctLsbPropU8 err
    .ok (selectBytes mask (dec.drop retMsgStart) (messageRandom.drop retMsgStart))
  | _ => .error .stopIteration

/-- `RSAKey.decrypt(encBytes)`; `.ok none` is Python's `None` -/
def decrypt (K : Key) (P : Prims) (enc : Bytes) : Except PyErr (Option Bytes) :=
  match rawPrivateKeyOpBytes K P enc with
  | .error _ => .ok none              -- `except ValueError: return None`
  | .ok dec =>
    match decryptTail K P enc dec with
    | .error e => .error e
    | .ok m => .ok (some m)

/-- the encoded message the private key computes for a ciphertext -/
def em (K : Key) (P : Prims) (enc : Bytes) : Bytes := beEncode K.k (P.privInt (beDecode enc))

/-- the synthetic message as a function of the key-derivation key only (what the draft calls
    the alternative message): used to *state* the uniformity theorem -/
def synthMessage (hmac : Bytes → Bytes → Bytes) (k : Nat) (kdk : Bytes) : Except PyErr Bytes := do
  let lengthRandoms ← decPrf hmac kdk lengthLabel (128 * 2 * 8)
  let messageRandom ← decPrf hmac kdk messageLabel (k * 8)
  .ok (messageRandom.drop (k - synthLen (k - 10) lengthRandoms))

/-- the public validity test (ciphertext length and range) -/
def PubliclyValid (K : Key) (c : Bytes) : Prop := c.length = K.k ∧ beDecode c < K.n

/-! ### plain specification of a well-formed PKCS#1 v1.5 type-2 encoded message -/

/-- position just after the zero separator, scanning from position `pos`; `none` when a zero
    occurs before position 10 or there is no zero at all -/
def sepAfter : Nat → Bytes → Option Nat
  | _, [] => none
  | pos, v :: rest =>
    if v = 0 then (if pos < 10 then none else some (pos + 1)) else sepAfter (pos + 1) rest

/-- decidable form of `WellFormedEM` together with the message start -/
def parseEM : Bytes → Option Nat
  | b0 :: b1 :: rest => if b0 = 0 ∧ b1 = 2 then sepAfter 2 rest else none
  | _ => none

/-- `EM = 00 02 PS 00 M`, `PS` at least eight bytes, none of them zero -/
def WellFormedEM (em : Bytes) : Prop :=
  ∃ ps m, em = 0 :: 2 :: (ps ++ 0 :: m) ∧ 8 ≤ ps.length ∧ ∀ b ∈ ps, b ≠ 0

/-! ### `RSAKeyExchange.processClientKeyExchange` -/

/-- the `if not premasterSecret … elif len != 48 … else versionCheck` cascade;
    `not x` is true for `None` and for an empty bytearray -/
def substitutePremaster (dec : Option Bytes) (rand : Bytes) (clientVersion serverVersion : Nat × Nat) :
    Bytes :=
  match dec with
  | none => rand                       -- `not None`
  | some [] => rand                    -- `not bytearray()`
  | some [_] => rand                   -- `len(premasterSecret) != 48`
  | some (v0 :: v1 :: rest) =>
    if (v0 :: v1 :: rest).length ≠ 48 then rand
    else
      let versionCheck := (v0.toNat, v1.toNat)
      if versionCheck ≠ clientVersion then
        if versionCheck ≠ serverVersion then rand else v0 :: v1 :: rest
      else v0 :: v1 :: rest

/-- `processClientKeyExchange`: `rand` is the value `getRandomBytes(48)` returns; it is drawn
    on every call, before any branch -/
def processClientKeyExchange (K : Key) (P : Prims) (rand : Bytes) (clientVersion serverVersion : Nat × Nat)
    (enc : Bytes) : Except PyErr Bytes :=
  match decrypt K P enc with
  | .error e => .error e
  | .ok dec => .ok (substitutePremaster dec rand clientVersion serverVersion)

end Tls.RsaDec
