import TlsModel.Resume
import TlsModel.Gen.Resume
/-
  Interpretation of the GENERATED description of the resumption code (TlsModel/Gen/Resume.lean,
  regenerated from the AST on every run) over the hand-written model's data, and the shapes the
  hand model relies on.  Props/C13.lean proves that the interpretation of what the source says
  now coincides with the hand model for every input (`gen_*` theorems).
-/
namespace Tls.Resume

def Atom.known : Atom → Bool
  | .unknown _ => false
  | _ => true

def Cond.known : Cond → Bool
  | .atom a => a.known
  | .not c => c.known
  | .and a b => a.known && b.known
  | .or a b => a.known && b.known

def Effect.known : Effect → Bool
  | .unknown _ => false
  | _ => true

def Guard.known (g : Guard) : Bool := g.cond.known && g.effect.known

def PskEvent.known : PskEvent → Bool
  | .unknown _ => false
  | .guard g => g.known
  | .condAssign c _ => c.known
  | .beginIf c => c.known
  | _ => true

/-- everything the generated conditions can talk about -/
structure GCtx where
  st : SrvSettings
  h : Hello
  sess : Option Sess        -- `session`
  ticket : Option Payload   -- `ticket` as returned by `_tryDecrypt`
  matched : Bool            -- `match`
  now : Nat
  ver : Ver
  prf : Hash                -- `prf_name`
  pskHash : Hash            -- `psk_hash`

def GCtx.base (st : SrvSettings) (h : Hello) (sess : Option Sess) : GCtx :=
  { st := st, h := h, sess := sess, ticket := none, matched := false, now := 0, ver := (0, 0),
    prf := .sha256, pskHash := .sha256 }

def evalAtom (c : GCtx) : Atom → Bool
  | .helloSid => !c.h.sessionId.isEmpty
  | .hasCache => c.st.hasCache
  | .ticketExt => c.h.ticket.isSome
  | .ticketNonEmpty => ticketNonEmpty c.h
  | .sessionFound => c.sess.isSome
  | .resumable => match c.sess with | some s => s.resumable | none => false
  | .suiteAllowed => match c.sess with | some s => c.st.allowed.contains s.suite | none => false
  | .suiteOffered => match c.sess with | some s => c.h.suites.contains s.suite | none => false
  | .helloSrp => !c.h.srpUsername.isEmpty
  | .sessSrp => match c.sess with | some s => !s.srpUsername.isEmpty | none => false
  | .srpEqual => match c.sess with | some s => c.h.srpUsername == s.srpUsername | none => false
  | .helloSni => !c.h.serverName.isEmpty
  | .sessSni => match c.sess with | some s => !s.serverName.isEmpty | none => false
  | .sniEqual => match c.sess with | some s => c.h.serverName == s.serverName | none => false
  | .sessEtm => match c.sess with | some s => s.etm | none => false
  | .helloEtm => c.h.etm
  | .sessEms => match c.sess with | some s => s.ems | none => false
  | .helloEms => c.h.ems
  | .ticketOpened => c.ticket.isSome
  | .expired => match c.ticket with
                | some p => decide (p.created + c.st.ticketLifetime < c.now)
                | none => false
  | .matched => c.matched
  | .versionEqual => match c.ticket with | some p => c.ver == p.version | none => false
  | .hashEqual => c.pskHash == c.prf
  | .pskExt => c.h.psk.isSome
  | .helloDhe => c.h.pskModes.contains pskDheKe
  | .helloKe => c.h.pskModes.contains pskKe
  | .hasPskConfigs => !c.st.pskConfigs.isEmpty
  | .hasTicketKeys => !c.st.ticketKeys.isEmpty
  | .unknown _ => false

def evalCond (c : GCtx) : Cond → Bool
  | .atom a => evalAtom c a
  | .not x => !evalCond c x
  | .and a b => evalCond c a && evalCond c b
  | .or a b => evalCond c a || evalCond c b

/-- what the code does when a guard of the resumption block fires -/
def effectDecision : Effect → Decision
  | .full => .full
  | .alert "illegal_parameter" => .alert .illegal_parameter
  | .alert "handshake_failure" => .alert .handshake_failure
  | .assertionError => .assertionError
  | _ => .assertionError          -- shapes the resumption block must not contain

/-- run the generated guard chain; falling through all of them is `if session:` -> resume -/
def evalChain (c : GCtx) : List Guard → Decision
  | [] => match c.sess with
          | some s => .resume s
          | none => .full
  | g :: r => if evalCond c g.cond then effectDecision g.effect else evalChain c r

/-- `_ticket_to_session` as generated: any guard firing returns None -/
def genTicketToSession (env : Env) (st : SrvSettings) (now : Nat) (h : Hello) (t : Bytes) : Option Sess :=
  let p := tryDecrypt12 env st.ticketKeys t
  let c : GCtx := { st := st, h := { h with ticket := some t }, sess := none, ticket := p, matched := false,
                    now := now, ver := (0, 0), prf := .sha256, pskHash := .sha256 }
  if Gen.Resume.ticketToSessionGuards.any (fun g => evalCond c g.cond) then none else p.map sessOfPayload

/-- `if ticket_ext: session = self._ticket_to_session(..); if session and sid: echo` as generated -/
def genSessionFromTicket (env : Env) (st : SrvSettings) (now : Nat) (h : Hello) : Option Sess :=
  if evalCond (GCtx.base st h none) Gen.Resume.ticketCallCond then
    match h.ticket with
    | some t =>
      (genTicketToSession env st now h t).map (fun s =>
        if evalCond (GCtx.base st h (some s)) Gen.Resume.echoSidCond
        then { s with sessionID := h.sessionId } else s)
    | none => none
  else none

/-- `if <cacheCond>: session = sessionCache[clientHello.session_id]` (KeyError: session stays None) -/
def genFindSession (env : Env) (lookup : Bytes → Option Sess) (now : Nat) (st : SrvSettings) (h : Hello) :
    Option Sess :=
  if evalCond (GCtx.base st h (genSessionFromTicket env st now h)) Gen.Resume.cacheCond
  then cacheGet lookup h.sessionId else genSessionFromTicket env st now h

/-- the resumption block of `_serverGetClientHello` as generated -/
def genServerResume12 (env : Env) (lookup : Bytes → Option Sess) (now : Nat) (st : SrvSettings)
    (h : Hello) : Decision :=
  if evalCond (GCtx.base st h none) Gen.Resume.outerCond then
    evalChain (GCtx.base st h (genFindSession env lookup now st h)) Gen.Resume.checkGuards
  else .full

/-- `continue` guards of the PSK loop that follow the ticket branch -/
def pskGuardsAfterBranch : List PskEvent → List Guard
  | [] => []
  | .endIf :: r => r.filterMap (fun e => match e with | .guard g => some g | _ => none)
  | _ :: r => pskGuardsAfterBranch r

/-- one identity that is NOT an external PSK, as generated: decrypt, guards, binder -/
def genPskTicketStep (env : Env) (st : SrvSettings) (now : Nat) (ver : Ver) (prf : Hash) (h : Hello)
    (id : PskIdent) (i : Nat) : Option PskSel :=       -- none = continue with the next identity
  match tryDecrypt13 env st.ticketKeys id.identity with
  | none => none
  | some p =>
    let c : GCtx := { st := st, h := h, sess := none, ticket := some p, matched := true, now := now,
                      ver := ver, prf := prf, pskHash := prfOf env p.suite }
    if (pskGuardsAfterBranch Gen.Resume.pskLoopEvents).any (fun g => evalCond c g.cond) then none
    else if id.binder == some ⟨.resumption p.secret, prfOf env p.suite, false⟩ then some (.selected i (some p))
    else some (.alert .illegal_parameter)

/-! ### order facts of the PSK loop -/

def idxOf? (p : PskEvent → Bool) : List PskEvent → Nat → Option Nat
  | [], _ => none
  | e :: r, i => if p e then some i else idxOf? p r (i + 1)

def lastIdx (p : PskEvent → Bool) (l : List PskEvent) : Option Nat :=
  (idxOf? p l.reverse 0).map (fun k => l.length - 1 - k)

def isGuard : PskEvent → Bool
  | .guard _ => true
  | _ => false

def assigns (name : String) : PskEvent → Bool
  | .assign t => t == name
  | .condAssign _ t => t == name
  | _ => false

/-- everything that records a selection (the PSK, its index, the resumed flag, the client identity
    carried by the ticket) happens after the LAST `continue` guard, the binder check after that,
    and the loop is left right after the binder check -/
def selectionAfterGuards (l : List PskEvent) : Bool :=
  match lastIdx isGuard l with
  | none => false
  | some g =>
    ["psk", "selected_psk", "resuming", "resumed_client_cert_chain"].all (fun n =>
      match idxOf? (assigns n) l 0 with
      | some k => decide (g < k) && (lastIdx (assigns n) l == some k)
      | none => false) &&
    (match idxOf? (fun e => match e with | .binder _ => true | _ => false) l 0 with
     | some b => ["psk", "selected_psk", "resuming", "resumed_client_cert_chain"].all (fun n =>
                   match idxOf? (assigns n) l 0 with | some k => decide (k < b) | none => false) &&
                 l[b + 1]? == some .brk && l.length == b + 2
     | none => false)

/-! ### the shapes the hand model relies on (compared with the generated ones by `decide`) -/

def expectedTicketCreateArgs : List (String × String) :=
  [("master_secret", "secret"), ("protocol_version", "self.version"),
   ("cipher_suite", "self.session.cipherSuite"), ("creation_time", "int(time.time())"),
   ("nonce", "getRandomBytes(len(settings.ticketKeys[0]))"),
   ("client_cert_chain", "self.session.clientCertChain"),
   ("encrypt_then_mac", "self._recordLayer._get_pending_state_etm()"),
   ("extended_master_secret", "self.extendedMasterSecret"),
   ("server_name", "self.session.serverName.encode('utf-8') if self.session.serverName else bytearray()")]

def expectedTicketToSessionArgs : List (String × String) :=
  [("masterSecret", "ticket.master_secret"), ("sessionID", "b''"), ("cipherSuite", "ticket.cipher_suite"),
   ("srpUsername", "''"), ("clientCertChain", "ticket.client_cert_chain"), ("serverCertChain", "None"),
   ("tackExt", "None"), ("tackInHelloExt", "False"),
   ("serverName", "ticket.server_name.decode('utf-8') if ticket.server_name else ''"),
   ("encryptThenMAC", "ticket.encrypt_then_mac"), ("extendedMasterSecret", "ticket.extended_master_secret"),
   ("ec_point_format", "0")]

def expectedPayloadFields : List String :=
  ["version", "master_secret", "protocol_version", "cipher_suite", "nonce", "creation_time",
   "client_cert_chain", "encrypt_then_mac", "extended_master_secret", "server_name"]

/-- every property a resumed connection inherits: payload field, Session.create parameter, the
    attribute Session.create stores it in, and the expression `_ticket_to_session` reads it back with -/
def inheritedFields : List (String × String × String × String) :=
  [("master_secret", "masterSecret", "self.masterSecret", "ticket.master_secret"),
   ("cipher_suite", "cipherSuite", "self.cipherSuite", "ticket.cipher_suite"),
   ("client_cert_chain", "clientCertChain", "self.clientCertChain", "ticket.client_cert_chain"),
   ("encrypt_then_mac", "encryptThenMAC", "self.encryptThenMAC", "ticket.encrypt_then_mac"),
   ("extended_master_secret", "extendedMasterSecret", "self.extendedMasterSecret", "ticket.extended_master_secret"),
   ("server_name", "serverName", "self.serverName",
    "ticket.server_name.decode('utf-8') if ticket.server_name else ''")]

/-- an inherited field is passed to `SessionTicketPayload.create` from the live session/connection,
    serialised by `write`, assigned by `parse`, read back as `ticket.<field>` by
    `_ticket_to_session` into the Session.create parameter, which Session.create stores -/
def fieldRoundTrips (f : String × String × String × String) : Bool :=
  (Gen.Resume.ticketCreateArgs.any (fun a => a.1 == f.1)) &&
  Gen.Resume.payloadWriteFields.contains f.1 && Gen.Resume.payloadParseFields.contains f.1 &&
  Gen.Resume.ticketToSessionArgs.contains (f.2.1, f.2.2.2) &&
  Gen.Resume.sessionCreateStores.contains (f.2.2.1, f.2.1)

def expectedTryDecryptShape : List String :=
  ["for user_key in settings.ticketKeys", "key from (nonce, user_key)", "open failure -> continue",
   "parse ValueError -> continue", "first success returns", "no key works -> (None, None)",
   "no keys -> (None, None)", "<=1.2: nonce = ticket[:32]", "1.3: identity shorter than 33 -> (None, None)"]

def expectedResumableAssigned : List (String × String) :=
  [("tlslite/session.py:Session.__init__", "self.resumable = False"),
   ("tlslite/session.py:Session.create", "self.resumable = resumable"),
   ("tlslite/session.py:Session._clone", "other.resumable = self.resumable"),
   ("tlslite/session.py:Session._setResumable", "self.resumable = boolean"),
   ("tlslite/tlsrecordlayer.py:TLSRecordLayer._shutdown", "self.session.resumable = False")]

end Tls.Resume
