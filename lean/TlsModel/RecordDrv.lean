import TlsModel.Proto
import TlsModel.RecordToy
/-
  Line-protocol handler shared by the drivers of C01 and C02 (record layer model with the toy
  primitives of `RecordToy`).  Tokens (hex for bytes, `-` = empty):

    CFG   = vmaj vmin tls13record cipher hasMac etm nameHasAes nameIsChacha fixedNonce fixedIV
              (booleans 0/1; cipher ∈ null stream block aead)
    PRIMS = macKey dlen macBlock bs cipherKey tagLen
    PAD   = none | max | mod:<k>      (padding_cb: none / max(0,max_padding) / (7·len+k) mod (max+1))

    send CFG PRIMS PAD sendLimit seq cs type data
         -> ok seq' cs' htype hvmaj hvmin body | none
    recv CFG PRIMS seq cs earlyOk maxEarly processed recvLimit plaintextAlertsOk htype hvmaj hvmin body
         -> ok seq' cs' earlyOk' processed' type data | skip processed' | err <name>
    recvssl2 CFG firstByte               -> err <name> | unmodelled | tls   (record framed with an SSLv2 header)
    frag split rs n                      -> comma separated fragment lengths | none
    fragvar split n r0,r1,...            -> the same with the record size in force for record i of the
                                            write (the last value repeats)
    wirelen CFG PRIMS PAD sendLimit type n -> length | none
    limits tls13 cset sset               -> cSend cRecv sSend sRecv   (settings: number | none)
    fifo splitA rsA splitB rsB op...     -> one token per op
         ops: wA:<hex> wB:<hex> rA:<max|n>:<min> rB:<max|n>:<min> sA:<n> sB:<n> (conn.recordSize = n)
              vA:<hex>:<r0,r1,..> vB:… (a write cut with record size r_i for its i-th record)
              uA:<hex> uB:<hex> (conn.unread(b))
              the rs arguments are "<effective record size>/<negotiated send limit>"
         replies: w<comma separated fragment lengths> | d<hex> | stall | alert<desc> | unmodelled | closed
-/
namespace Tls.Rec.Drv
open Tls Tls.Rec

def bool? : String → Option Bool
  | "0" => some false
  | "1" => some true
  | _ => none

def cipher? : String → Option Cipher
  | "null" => some .null
  | "stream" => some .stream
  | "block" => some .block
  | "aead" => some .aead
  | _ => none

def parseCfg : List String → Option Cfg
  | [vmaj, vmin, t13, ci, hm, etm, aes, cha, fn, fiv] => do
    some { vmaj := ← vmaj.toNat?, vmin := ← vmin.toNat?, tls13record := ← bool? t13,
           cipher := ← cipher? ci, hasMac := ← bool? hm, etm := ← bool? etm,
           nameHasAes := ← bool? aes, nameIsChacha := ← bool? cha,
           fixedNonce := ← ofHex fn, fixedIV := ← ofHex fiv }
  | _ => none

def parsePrims (c : Cfg) : List String → Option (Prims Bytes)
  | [mk, dlen, mb, bs, key, tl] => do
    let kind := if c.cipher == .block then Toy.Kind.cbc else Toy.Kind.stream
    some (Toy.prims kind (← ofHex mk) (← dlen.toNat?) (← mb.toNat?) (← bs.toNat?) (← ofHex key) (← tl.toNat?))
  | _ => none

def parsePad (s : String) : Option (Option PadCb) :=
  if s == "none" then some none
  else if s == "max" then some (some fun _ _ m => m.toNat)
  else match s.splitOn ":" with
    | ["mod", k] => do
      let k ← k.toNat?
      some (some fun len _ m => if m < 0 then 0 else (7 * len + k) % (m.toNat + 1))
    | _ => none

def optNat? (s : String) : Option (Option Nat) :=
  if s == "none" then some none else s.toNat?.map some

def b01 (b : Bool) : String := if b then "1" else "0"

def idProt (_ : Unit) (t : UInt8) (d : Bytes) : Option (Unit × Rec) := some ((), ⟨t, 3, 3, d⟩)
def idUnprot (_ : Unit) (r : Rec) : Except Err (Option (Unit × UInt8 × Bytes)) := .ok (some ((), r.typ, r.body))

def idCodec : Codec := { SS := Unit, RS := Unit, prot := idProt, unprot := idUnprot }

def lensOut (l : List Rec) : String := ",".intercalate (l.map fun r => toString r.body.length)

def readOut : ReadOut → String
  | .data b => "d" ++ hexOut b
  | .stall => "stall"
  | .localAlert d => "alert" ++ toString d
  | .unmodelled => "unmodelled"

def fifoStep (c : Conn idCodec idCodec) (tok : String) : Option (Conn idCodec idCodec × String) :=
  match tok.splitOn ":" with
  | ["wA", h] => do
    let d ← ofHex h
    let r := epWrite idProt c.a d
    let out := match r.2.2 with | .done => "w" ++ lensOut r.2.1 | .closedError => "closed" | .unmodelled => "unmodelled"
    some (step c (.writeA d), out)
  | ["wB", h] => do
    let d ← ofHex h
    let r := epWrite idProt c.b d
    let out := match r.2.2 with | .done => "w" ++ lensOut r.2.1 | .closedError => "closed" | .unmodelled => "unmodelled"
    some (step c (.writeB d), out)
  | ["vA", h, sizes] => do
    -- a write during which the record size changed (`fragmentsVar`: size in force per record)
    let d ← ofHex h
    let l ← (sizes.splitOn ",").mapM (·.toNat?)
    let last ← l.getLast?
    let fr ← fragmentsVar c.a.split (fun i => l.getD i last) d
    let (_, rs) ← protAll idProt 23 c.a.wr fr
    some ({ c with ab := c.ab ++ rs, writtenA := c.writtenA ++ d }, "w" ++ lensOut rs)
  | ["vB", h, sizes] => do
    let d ← ofHex h
    let l ← (sizes.splitOn ",").mapM (·.toNat?)
    let last ← l.getLast?
    let fr ← fragmentsVar c.b.split (fun i => l.getD i last) d
    let (_, rs) ← protAll idProt 23 c.b.wr fr
    some ({ c with ba := c.ba ++ rs, writtenB := c.writtenB ++ d }, "w" ++ lensOut rs)
  | ["uA", h] => do
    -- conn.unread(b) with arbitrary bytes: `_readBuffer = b + _readBuffer`
    let b ← ofHex h
    some ({ c with a := { c.a with buf := b ++ c.a.buf } }, "u")
  | ["uB", h] => do
    let b ← ofHex h
    some ({ c with b := { c.b with buf := b ++ c.b.buf } }, "u")
  | ["sA", n] => do some (step c (.setSizeA (← n.toNat?)), "s")
  | ["sB", n] => do some (step c (.setSizeB (← n.toNat?)), "s")
  | ["rA", mx, mn] => do
    let mx ← optNat? (if mx == "n" then "none" else mx)
    let mn ← mn.toNat?
    let r := epReadLoop idProt idUnprot mx mn true c.a c.ba
    some (step c (.readA mx mn), readOut r.2.2.2)
  | ["rB", mx, mn] => do
    let mx ← optNat? (if mx == "n" then "none" else mx)
    let mn ← mn.toNat?
    let r := epReadLoop idProt idUnprot mx mn true c.b c.ab
    some (step c (.readB mx mn), readOut r.2.2.2)
  | _ => none

def fifoRun : Conn idCodec idCodec → List String → Option (List String)
  | _, [] => some []
  | c, t :: ts => do
    let (c', o) ← fifoStep c t
    let rest ← fifoRun c' ts
    some (o :: rest)

def handle : List String → Option String
  | "send" :: rest => do
    if rest.length != 22 then none
    let c ← parseCfg (rest.take 10)
    let P ← parsePrims c ((rest.drop 10).take 6)
    match rest.drop 16 with
    | [pad, sl, seq, cs, typ, data] =>
      let pad ← parsePad pad
      let r := sendRecord P c pad (← sl.toNat?) ⟨← seq.toNat?, ← ofHex cs⟩ (UInt8.ofNat (← typ.toNat?)) (← ofHex data)
      match r with
      | none => some "none"
      | some (st, h) =>
        some s!"ok {st.seq} {hexOut st.cs} {h.typ.toNat} {h.vmaj} {h.vmin} {hexOut h.body}"
    | _ => none
  | "recv" :: rest => do
    if rest.length != 27 then none
    let c ← parseCfg (rest.take 10)
    let P ← parsePrims c ((rest.drop 10).take 6)
    match rest.drop 16 with
    | [seq, cs, eo, me, pr, rl, pa, ht, hmaj, hmin, body] =>
      let rv : Recv Bytes := { st := ⟨← seq.toNat?, ← ofHex cs⟩, earlyOk := ← bool? eo, maxEarly := ← me.toNat?,
                               processed := ← pr.toNat?, recvLimit := ← rl.toNat?, plaintextAlertsOk := ← bool? pa }
      let h : Rec := ⟨UInt8.ofNat (← ht.toNat?), ← hmaj.toNat?, ← hmin.toNat?, ← ofHex body⟩
      match recvRecord P c rv h with
      | .ok rv' t d =>
        some s!"ok {rv'.st.seq} {hexOut rv'.st.cs} {b01 rv'.earlyOk} {rv'.processed} {t.toNat} {hexOut d}"
      | .skip rv' => some s!"skip {rv'.processed}"
      | .err e => some s!"err {e.name}"
    | _ => none
  | "recvssl2" :: rest => do
    if rest.length != 11 then none
    let c ← parseCfg (rest.take 10)
    let b0 ← (rest.getD 10 "").toNat?
    if isTlsHeaderByte (UInt8.ofNat b0) then some "tls"
    else match recvSsl2Framed c with
      | some e => some s!"err {e.name}"
      | none => some "unmodelled"
  | ["frag", split, rs, n] => do
    match fragments (← bool? split) (← rs.toNat?) (zeros (← n.toNat?)) with
    | none => some "none"
    | some fr => some (",".intercalate (fr.map fun f => toString f.length))
  | ["fragvar", split, n, sizes] => do
    let l ← (sizes.splitOn ",").mapM (·.toNat?)
    let last ← l.getLast?
    match fragmentsVar (← bool? split) (fun i => l.getD i last) (zeros (← n.toNat?)) with
    | none => some "none"
    | some fr => some (",".intercalate (fr.map fun f => toString f.length))
  | "wirelen" :: rest => do
    if rest.length != 20 then none
    let c ← parseCfg (rest.take 10)
    let P ← parsePrims c ((rest.drop 10).take 6)
    match rest.drop 16 with
    | [pad, sl, typ, n] =>
      match wireLen P c (← parsePad pad) (← sl.toNat?) (UInt8.ofNat (← typ.toNat?)) (← n.toNat?) with
      | none => some "none"
      | some k => some (toString k)
    | _ => none
  | ["limits", t13, cs, ss] => do
    let r := negotiateLimits (← bool? t13) (← optNat? cs) (← optNat? ss)
    some s!"{r.1} {r.2.1} {r.2.2.1} {r.2.2.2}"
  | "fifo" :: sa :: ra :: sb :: rb :: ops => do
    let pair (s : String) : Option (Nat × Nat) :=
      match s.splitOn "/" with
      | [a, b] => do some (← a.toNat?, ← b.toNat?)
      | [a] => do some (← a.toNat?, ← a.toNat?)
      | _ => none
    let (ra, la) ← pair ra
    let (rb, lb) ← pair rb
    let ea : Endpoint Unit Unit := { wr := (), rd := (), buf := [], closed := false, resumable := true,
                                     split := ← bool? sa, recordSize := ra, sendLimit := la }
    let eb : Endpoint Unit Unit := { ea with split := ← bool? sb, recordSize := rb, sendLimit := lb }
    let c : Conn idCodec idCodec := { a := ea, b := eb, ab := [], ba := [], writtenA := [], writtenB := [],
                                      deliveredA := [], deliveredB := [], failed := false }
    let outs ← fifoRun c ops
    some (" ".intercalate outs)
  | _ => none

end Tls.Rec.Drv
