import TlsModel.Basic
import TlsModel.Gen.Pkcs1
/-
  RSA signatures as implemented by tlslite/utils/rsakey.py (class RSAKey) and
  tlslite/utils/python_rsakey.py (class Python_RSAKey), mirrored statement by statement.

  * Python ints are `Nat`; the one place where a subtraction can go negative
    (`(s1 - s2) * qInv % p` in the CRT helper, and the extended Euclid of `invMod`) uses `Int`
    with Python's floor-`%` (= `Int.emod` for a positive modulus).
  * randomness (`getRandomBytes(sLen)` for the PSS salt, `getRandomNumber(2, n)` for the first
    unblinder) is an explicit argument.
  * the hash is a parameter (`HashAlg`): its name, its `digest_size` and the function.
  * exceptions are values of `Err`; nothing is defaulted.
  Not modelled here: block type 2 padding / `decrypt` (property C11), key parsing, `hashAlg`
  case folding (`.lower()`): names are the lower-case ones.
-/
namespace Tls.Rsa

inductive Err where
  | valueError          -- ValueError (length / range checks of _raw_*_key_op_bytes)
  | invalidSignature    -- tlslite.errors.InvalidSignature
  | encodingError       -- tlslite.errors.EncodingError
  | messageTooLong      -- tlslite.errors.MessageTooLongError
  | maskTooLong         -- tlslite.errors.MaskTooLongError
  | indexError          -- IndexError
  | assertionError      -- AssertionError
  | unknownRSAType      -- tlslite.errors.UnknownRSAType
  | arith               -- ZeroDivisionError / "pow() 3rd argument cannot be 0"
  deriving DecidableEq, Repr

def Err.name : Err → String
  | .valueError => "ValueError"
  | .invalidSignature => "InvalidSignature"
  | .encodingError => "EncodingError"
  | .messageTooLong => "MessageTooLongError"
  | .maskTooLong => "MaskTooLongError"
  | .indexError => "IndexError"
  | .assertionError => "AssertionError"
  | .unknownRSAType => "UnknownRSAType"
  | .arith => "ArithmeticError"

/-! ### cryptomath helpers -/

/-- `int.bit_length()` -/
def numBits (n : Nat) : Nat := if n = 0 then 0 else Nat.log2 n + 1

/-- `byte_length`: `(bit_length + 7) // 8` -/
def numBytes (n : Nat) : Nat := (numBits n + 7) / 8

/-- `divceil(a, b)` for `b > 0`: `quot + int(bool(r))` -/
def divceil (a b : Nat) : Nat := a / b + (if a % b = 0 then 0 else 1)

/-- square-and-multiply with fuel (number of exponent bits); `powMod` below -/
def powModFuel : Nat → Nat → Nat → Nat → Nat
  | 0, _, _, m => 1 % m
  | f+1, b, e, m =>
    if e = 0 then 1 % m
    else
      let h := powModFuel f b (e / 2) m
      let sq := h * h % m
      if e % 2 = 1 then sq * b % m else sq

/-- Python `pow(b, e, m)` for `m > 0` (proved equal to `b ^ e % m` in TlsProofs/Rsa.lean) -/
def powMod (b e m : Nat) : Nat := powModFuel (numBits e) b e m

/-- the `while c != 0` loop of `invMod` (extended Euclid); `c, d` stay non-negative.  The fuel
    is only there for structural recursion: `c` strictly decreases, so `fuel = c + 1` is never
    exhausted (`invModLoop_fuel` in TlsProofs/RsaInvMod.lean); exhaustion is reported as `none`. -/
def invModLoop : Nat → Nat → Nat → Int → Int → Option (Nat × Int)
  | 0, _, _, _, _ => none
  | f+1, c, d, uc, ud =>
    if c = 0 then some (d, ud)
    else invModLoop f (d % c) c (ud - ((d / c : Nat) : Int) * uc) uc

/-- `invMod(a, b)`: inverse of `a` mod `b`, zero if none -/
def invMod (a b : Nat) : Nat :=
  match invModLoop (a + 1) a b 1 0 with
  | some (d, ud) => if d = 1 then (ud % (b : Int)).toNat else 0
  | none => 0

/-! ### keys -/

structure PubKey where
  n : Nat
  e : Nat
  /-- `key_type`: "rsa" or "rsa-pss" -/
  pssOnly : Bool := false
  deriving Repr

structure PrivKey where
  pub : PubKey
  d : Nat
  p : Nat
  q : Nat
  dP : Nat
  dQ : Nat
  qInv : Nat
  deriving Repr

/-- `self.blinder`, `self.unblinder` (0, 0 on a fresh key) -/
structure Blind where
  blinder : Nat
  unblinder : Nat
  deriving Repr, DecidableEq

/-! ### raw operations -/

/-- `Python_RSAKey._rawPublicKeyOp` -/
def rawPublicKeyOp (k : PubKey) (c : Nat) : Nat := powMod c k.e k.n

/-- `RSAKey._raw_public_key_op_bytes` -/
def rawPublicKeyOpBytes (k : PubKey) (c : Bytes) : Except Err Bytes :=
  if c.length ≠ numBytes k.n then .error .valueError
  else
    let cInt := beDecode c
    if cInt ≥ k.n then .error .valueError
    else .ok (beEncode (numBytes k.n) (rawPublicKeyOp k cInt))

/-- `Python_RSAKey._rawPrivateKeyOpHelper` (CRT version) -/
def rawPrivateKeyOpHelper (k : PrivKey) (m : Nat) : Int :=
  let s1 := powMod m k.dP k.p
  let s2 := powMod m k.dQ k.q
  let h := (((s1 : Int) - (s2 : Int)) * (k.qInv : Int)) % (k.p : Int)
  (s2 : Int) + (k.q : Int) * h

/-- the locked section of `_rawPrivateKeyOp`: create the pair on the first pass (from the random
    number `rnd = getRandomNumber(2, n)`), hand out the current pair, square both. -/
def blindStep (k : PrivKey) (st : Blind) (rnd : Nat) : (Nat × Nat) × Blind :=
  let st1 : Blind :=
    if st.blinder = 0 then
      { unblinder := rnd, blinder := powMod (invMod rnd k.pub.n) k.pub.e k.pub.n }
    else st
  ((st1.blinder, st1.unblinder),
   { blinder := (st1.blinder * st1.blinder) % k.pub.n,
     unblinder := (st1.unblinder * st1.unblinder) % k.pub.n })

/-- `Python_RSAKey._rawPrivateKeyOp` parameterised by the helper (so that a faulty helper can be
    plugged in); returns the result and the advanced blinding state -/
def rawPrivateKeyOpWith (helper : Nat → Int) (k : PrivKey) (st : Blind) (rnd : Nat) (m : Nat) :
    Nat × Blind :=
  let ((blinder, unblinder), st') := blindStep k st rnd
  let message := (m * blinder) % k.pub.n
  let cipher := helper message
  let cipher := (cipher * (unblinder : Int)) % (k.pub.n : Int)
  (cipher.toNat, st')

def rawPrivateKeyOp (k : PrivKey) (st : Blind) (rnd : Nat) (m : Nat) : Nat × Blind :=
  rawPrivateKeyOpWith (rawPrivateKeyOpHelper k) k st rnd m

/-- `RSAKey._raw_private_key_op_bytes`; `p = 0`, `q = 0` or `n = 0` make Python's `pow`/`%` raise -/
def rawPrivateKeyOpBytes (k : PrivKey) (st : Blind) (rnd : Nat) (message : Bytes) :
    Except Err (Bytes × Blind) :=
  if message.length ≠ numBytes k.pub.n then .error .valueError
  else
    let mInt := beDecode message
    if mInt ≥ k.pub.n then .error .valueError
    else if k.p = 0 ∨ k.q = 0 then .error .arith
    else
      let r := rawPrivateKeyOp k st rnd mInt
      .ok (beEncode (numBytes k.pub.n) r.1, r.2)

/-! ### PKCS#1 v1.5 -/

/-- `_addPKCS1Padding(bytes, 1)`: `[0xFF] * padLength` is empty for a negative `padLength` -/
def addPKCS1Padding (n : Nat) (bytes : Bytes) : Bytes :=
  let padLength : Int := (numBytes n : Int) - ((bytes.length : Int) + 3)
  [0, 1] ++ List.replicate padLength.toNat 0xFF ++ [0] ++ bytes

/-- `addPKCS1Prefix(data, hashName)`: `assert hashName in cls._pkcs1Prefixes` -/
def addPKCS1Prefix (data : Bytes) (hashName : String) : Except Err Bytes :=
  match Gen.Pkcs1.pkcs1Prefixes.lookup hashName with
  | some pre => .ok (pre ++ data)
  | none => .error .assertionError

/-- `addPKCS1SHA1Prefix(hashBytes, withNULL)` -/
def addPKCS1SHA1Prefix (hashBytes : Bytes) (withNULL : Bool) : Bytes :=
  (if withNULL then Gen.Pkcs1.sha1PrefixWithNull else Gen.Pkcs1.sha1PrefixNoNull) ++ hashBytes

/-- `_raw_pkcs1_sign` (the `hasPrivateKey` assertion is `d != 0`) -/
def rawPkcs1Sign (k : PrivKey) (st : Blind) (rnd : Nat) (bytes : Bytes) : Except Err (Bytes × Blind) :=
  if k.d = 0 then .error .assertionError
  else rawPrivateKeyOpBytes k st rnd (addPKCS1Padding k.pub.n bytes)

/-- `_raw_pkcs1_verify`: re-encode and compare all bytes -/
def rawPkcs1Verify (k : PubKey) (sig bytes : Bytes) : Bool :=
  match rawPublicKeyOpBytes k sig with
  | .error _ => false
  | .ok checkBytes => checkBytes == addPKCS1Padding k.n bytes

/-! ### PSS -/

structure HashAlg where
  name : String
  hLen : Nat
  hash : Bytes → Bytes

/-- `MGF1(mgfSeed, maskLen, hAlg)` -/
def mgf1 (H : HashAlg) (seed : Bytes) (maskLen : Nat) : Except Err Bytes :=
  if H.hLen = 0 then .error .arith
  else if maskLen > 2 ^ 32 * H.hLen then .error .maskTooLong
  else
    let t := (List.range (divceil maskLen H.hLen)).foldl
      (fun acc x => acc ++ H.hash (seed ++ beEncode 4 x)) []
    .ok (t.take maskLen)

def xorBytes (a b : Bytes) : Bytes := List.zipWith (· ^^^ ·) a b

/-- `x[0] &= mask` on a bytearray -/
def maskHead (mask : Nat) : Bytes → Except Err Bytes
  | [] => .error .indexError
  | x :: xs => .ok (UInt8.ofNat (x.toNat &&& mask) :: xs)

/-- `EMSA_PSS_encode(mHash, emBits, hAlg, sLen)` with `salt = getRandomBytes(sLen)` given -/
def emsaPssEncode (H : HashAlg) (mHash : Bytes) (emBits : Nat) (salt : Bytes) : Except Err Bytes :=
  let sLen := salt.length
  let emLen := divceil emBits 8
  if emLen < H.hLen + sLen + 2 then .error .encodingError
  else
    let m2 := List.replicate 8 (0 : UInt8) ++ mHash ++ salt
    let h := H.hash m2
    let ps := List.replicate (emLen - sLen - H.hLen - 2) (0 : UInt8)
    let db := ps ++ [1] ++ salt
    match mgf1 H h (emLen - H.hLen - 1) with
    | .error e => .error e
    | .ok dbMask =>
      let maskedDB := xorBytes db dbMask
      let mLen := emLen * 8 - emBits
      let mask := (1 <<< (8 - mLen)) - 1
      match maskHead mask maskedDB with
      | .error e => .error e
      | .ok maskedDB => .ok (maskedDB ++ h ++ [0xbc])

/-- `DBHelpMask`: `(~((1 << 8 - (8*emLen - emBits)) - 1)) & 0xff` -/
def pssTopMask (emLen emBits : Nat) : Nat := 255 - ((1 <<< (8 - (8 * emLen - emBits))) - 1) % 256

/-- the recovery of `DB` inside `EMSA_PSS_verify`: MGF1 over `H`, xor, clear the leftmost bits -/
def pssRecoverDB (H : HashAlg) (maskedDB h : Bytes) (emLen emBits : Nat) : Except Err Bytes :=
  match mgf1 H h (emLen - H.hLen - 1) with
  | .error e => .error e
  | .ok dbMask =>
    let db := xorBytes maskedDB dbMask
    let mLen := emLen * 8 - emBits
    let mask := (1 <<< (8 - mLen)) - 1
    maskHead mask db

/-- `EMSA_PSS_verify(mHash, EM, emBits, hAlg, sLen)`; `.ok ()` is `return True` -/
def emsaPssVerify (H : HashAlg) (mHash em : Bytes) (emBits sLen : Nat) : Except Err Unit :=
  let emLen := divceil emBits 8
  if emLen < H.hLen + sLen + 2 then .error .invalidSignature
  else
    match em.getLast? with
    | none => .error .indexError
    | some last =>
      if last ≠ 0xbc then .error .invalidSignature
      else
        let maskedDB := em.take (emLen - H.hLen - 1)
        let h := (em.drop (emLen - H.hLen - 1)).take H.hLen
        match maskedDB.head? with
        | none => .error .indexError
        | some b0 =>
          if b0.toNat &&& pssTopMask emLen emBits ≠ 0 then .error .invalidSignature
          else
            match pssRecoverDB H maskedDB h emLen emBits with
            | .error e => .error e
            | .ok db =>
              if (db.take (emLen - H.hLen - sLen - 2)).any (· ≠ 0) then .error .invalidSignature
              else
                match db[emLen - H.hLen - sLen - 2]? with
                | none => .error .indexError
                | some sep =>
                  if sep ≠ 1 then .error .invalidSignature
                  else
                    let salt := if sLen ≠ 0 then db.drop (db.length - sLen) else []
                    let newM := List.replicate 8 (0 : UInt8) ++ mHash ++ salt
                    let newH := H.hash newM
                    if h = newH then .ok () else .error .invalidSignature

/-- `RSASSA_PSS_sign`: `emBits = numBits(n) - 1`; a ValueError of the raw operation becomes
    MessageTooLongError -/
def rsassaPssSign (H : HashAlg) (k : PrivKey) (st : Blind) (rnd : Nat) (mHash salt : Bytes) :
    Except Err (Bytes × Blind) := do
  let em ← emsaPssEncode H mHash (numBits k.pub.n - 1) salt
  -- `EM = bytearray(max(0, numBytes(self.n) - len(EM))) + EM`
  let em := List.replicate (numBytes k.pub.n - em.length) (0 : UInt8) ++ em
  match rawPrivateKeyOpBytes k st rnd em with
  | .error .valueError => throw .messageTooLong
  | r => r

/-- `RSASSA_PSS_verify` -/
def rsassaPssVerify (H : HashAlg) (k : PubKey) (mHash sig : Bytes) (sLen : Nat) : Except Err Unit :=
  match rawPublicKeyOpBytes k sig with
  | .error .valueError => .error .invalidSignature
  | .error e => .error e
  | .ok em =>
    let emLen := divceil (numBits k.n - 1) 8
    if em.length > emLen then
      if (em.take (em.length - emLen)).any (· ≠ 0) then .error .invalidSignature
      else emsaPssVerify H mHash (em.drop (em.length - emLen)) (numBits k.n - 1) sLen
    else emsaPssVerify H mHash em (numBits k.n - 1) sLen

/-! ### sign / verify -/

inductive Padding where
  | pkcs1
  | pss
  | other
  deriving DecidableEq, Repr

/-- `RSAKey.sign(bytes, padding, hashAlg, saltLen)`; for PSS `H` is the hash named `hashAlg` and
    `salt` the random salt of length `saltLen` -/
def sign (k : PrivKey) (st : Blind) (rnd : Nat) (bytes : Bytes) (padding : Padding)
    (hashAlg : Option String) (H : HashAlg) (salt : Bytes) : Except Err (Bytes × Blind) :=
  match padding with
  | .pkcs1 => do
    let bytes ← match hashAlg with
      | some a => addPKCS1Prefix bytes a
      | none => pure bytes
    rawPkcs1Sign k st rnd bytes
  | .pss => rsassaPssSign H k st rnd bytes salt
  | .other => .error .unknownRSAType

/-- `RSAKey.verify(sigBytes, bytes, padding, hashAlg, saltLen)` -/
def verify (k : PubKey) (sig bytes : Bytes) (padding : Padding) (hashAlg : Option String)
    (H : HashAlg) (saltLen : Nat) : Except Err Bool :=
  if padding = .pkcs1 ∧ k.pssOnly then .ok false
  else if padding = .pkcs1 ∧ hashAlg = some "sha1" then
    let p1 := addPKCS1SHA1Prefix bytes false
    let p2 := addPKCS1SHA1Prefix bytes true
    let r1 := rawPkcs1Verify k sig p1
    let r2 := rawPkcs1Verify k sig p2
    .ok (r1 || r2)
  else if padding = .pkcs1 then
    match hashAlg with
    | some a =>
      match addPKCS1Prefix bytes a with
      | .ok b => .ok (rawPkcs1Verify k sig b)
      | .error e => .error e
    | none => .ok (rawPkcs1Verify k sig bytes)
  else if padding = .pss then
    match rsassaPssVerify H k bytes sig saltLen with
    | .ok () => .ok true
    | .error .invalidSignature => .ok false
    | .error e => .error e
  else .error .unknownRSAType

/-- `hashAndSign(bytes, rsaScheme, hAlg, sLen)` -/
def hashAndSign (k : PrivKey) (st : Blind) (rnd : Nat) (data : Bytes) (padding : Padding)
    (H : HashAlg) (salt : Bytes) : Except Err (Bytes × Blind) :=
  sign k st rnd (H.hash data) padding (some H.name) H salt

/-- `hashAndVerify(sigBytes, bytes, rsaScheme, hAlg, sLen)` -/
def hashAndVerify (k : PubKey) (sig data : Bytes) (padding : Padding) (H : HashAlg)
    (sLen : Nat) : Except Err Bool :=
  verify k sig (H.hash data) padding (some H.name) H sLen

end Tls.Rsa
