import TlsModel.Basic
import TlsModel.SuitesBase
import TlsModel.Gen.Suites
import TlsModel.Gen.KexChains
/-
  C20 — cipher-suite semantics.

  Part 1 (mirror): statement-by-statement models of the places where tlslite-ng turns a suite
  number into behaviour, all over the GENERATED classification lists (TlsModel/Gen/Suites.lean):
    RecordLayer._getCipherSettings / _getMacSettings      tlslite/recordlayer.py
    cipherfactory.create* (name / AEAD / tag length of the object built)   tlslite/utils/*.py
    calc_key's PRF choice, _getPRFParams                  tlslite/mathtls.py, tlsconnection.py
    client and server key-exchange if-chains, Certificate / ServerKeyExchange expectations
    CipherSuite.filterForVersion, _filterSuites, filter_for_certificate,
    canonicalCipherName, canonicalMacName                 tlslite/constants.py
  Python's `raise AssertionError()` / `assert False` are `Except.error`, never a default.

  Part 2 (specification): `parseIana`, written from the IANA naming convention and the defining
  RFCs only (2246/4346/5246, 3268, 4492, 5054, 5288, 5289, 6655, 7251, 7905, 8446); it does not
  mention any classification list.

  Part 3: `modelObs` (what the code does for suite × version × role, read through a small
  interpretation table of class/factory names) and `specObs` (what the name says), to be compared.
-/
namespace Tls.Suites
open Tls.Gen.Suites Tls.Gen.KexChains

/-! ## basics -/

/-- python tuple comparison `a <= b` on 2-tuples -/
def Ver.le (a b : Ver) : Bool := a.1 < b.1 || (a.1 == b.1 && a.2 ≤ b.2)
def Ver.lt (a b : Ver) : Bool := a.1 < b.1 || (a.1 == b.1 && a.2 < b.2)


/-- `CipherSuite.ietfNames[s]` (KeyError = none) -/
def ietfName (s : Nat) : Option String := (ietfNames.find? (fun p => p.1 == s)).map (·.2)

inductive Role | client | server
  deriving DecidableEq, Repr

def allVersions : List Ver := [(3, 0), (3, 1), (3, 2), (3, 3), (3, 4)]

/-! ## Part 1: mirrors

  Code-level names (settings vocabulary, factory functions, key-exchange classes, PRF functions,
  certificate algorithms) are small enumerations with their Python spelling in `.str`: kernel
  evaluation of string comparison is slow, and the driver talks in the Python spellings. -/

/-- cipher names: `HandshakeSettings.cipherNames` vocabulary = `.name` of the cipher objects -/
inductive CName
  | chacha20 | chacha20draft00 | aes128gcm | aes256gcm | aes128ccm | aes128ccm_8 | aes256ccm
  | aes256ccm_8 | aes128 | aes192 | aes256 | tdes | rc4 | null
  deriving DecidableEq, Repr

def CName.str : CName → String
  | .chacha20 => "chacha20-poly1305" | .chacha20draft00 => "chacha20-poly1305_draft00"
  | .aes128gcm => "aes128gcm" | .aes256gcm => "aes256gcm" | .aes128ccm => "aes128ccm"
  | .aes128ccm_8 => "aes128ccm_8" | .aes256ccm => "aes256ccm" | .aes256ccm_8 => "aes256ccm_8"
  | .aes128 => "aes128" | .aes192 => "aes192" | .aes256 => "aes256" | .tdes => "3des" | .rc4 => "rc4"
  | .null => "null"

def CName.all : List CName :=
  [.chacha20, .chacha20draft00, .aes128gcm, .aes256gcm, .aes128ccm, .aes128ccm_8, .aes256ccm,
   .aes256ccm_8, .aes128, .aes192, .aes256, .tdes, .rc4, .null]

/-- MAC names: `HandshakeSettings.macNames` vocabulary -/
inductive MName | sha | sha256 | sha384 | md5 | aead
  deriving DecidableEq, Repr

def MName.str : MName → String
  | .sha => "sha" | .sha256 => "sha256" | .sha384 => "sha384" | .md5 => "md5" | .aead => "aead"

def MName.all : List MName := [.sha, .sha256, .sha384, .md5, .aead]

/-- key-exchange names: `HandshakeSettings.keyExchangeNames` vocabulary -/
inductive KName
  | rsa | dhe_rsa | dhe_dsa | ecdhe_rsa | ecdhe_ecdsa | srp_sha | srp_sha_rsa | dh_anon | ecdh_anon
  deriving DecidableEq, Repr

def KName.str : KName → String
  | .rsa => "rsa" | .dhe_rsa => "dhe_rsa" | .dhe_dsa => "dhe_dsa" | .ecdhe_rsa => "ecdhe_rsa"
  | .ecdhe_ecdsa => "ecdhe_ecdsa" | .srp_sha => "srp_sha" | .srp_sha_rsa => "srp_sha_rsa"
  | .dh_anon => "dh_anon" | .ecdh_anon => "ecdh_anon"

def KName.all : List KName :=
  [.rsa, .dhe_rsa, .dhe_dsa, .ecdhe_rsa, .ecdhe_ecdsa, .srp_sha, .srp_sha_rsa, .dh_anon, .ecdh_anon]

/-- `cipherfactory.create*` functions the record layer may pick -/
inductive Factory
  | createAESGCM | createAESCCM | createAESCCM_8 | createCHACHA20 | createAES | createRC4 | createTripleDES
  deriving DecidableEq, Repr

def Factory.str : Factory → String
  | .createAESGCM => "createAESGCM" | .createAESCCM => "createAESCCM" | .createAESCCM_8 => "createAESCCM_8"
  | .createCHACHA20 => "createCHACHA20" | .createAES => "createAES" | .createRC4 => "createRC4"
  | .createTripleDES => "createTripleDES"

def Factory.all : List Factory :=
  [.createAESGCM, .createAESCCM, .createAESCCM_8, .createCHACHA20, .createAES, .createRC4, .createTripleDES]

/-- `hashlib` digests `_getMacSettings` may pick -/
inductive Digest | md5 | sha1 | sha256 | sha384
  deriving DecidableEq, Repr

def Digest.str : Digest → String
  | .md5 => "md5" | .sha1 => "sha1" | .sha256 => "sha256" | .sha384 => "sha384"

/-- PRF functions of tlslite/mathtls.py -/
inductive PrfFn | PRF_SSL | PRF | PRF_1_2 | PRF_1_2_SHA384
  deriving DecidableEq, Repr

def PrfFn.str : PrfFn → String
  | .PRF_SSL => "PRF_SSL" | .PRF => "PRF" | .PRF_1_2 => "PRF_1_2" | .PRF_1_2_SHA384 => "PRF_1_2_SHA384"

/-- `X509.certAlg` values `filter_for_certificate` distinguishes -/
inductive CertAlg | rsa | rsaPss | ecdsa | ed25519 | ed448 | dsa
  deriving DecidableEq, Repr

def CertAlg.str : CertAlg → String
  | .rsa => "rsa" | .rsaPss => "rsa-pss" | .ecdsa => "ecdsa" | .ed25519 => "Ed25519" | .ed448 => "Ed448"
  | .dsa => "dsa"

def CertAlg.all : List CertAlg := [.rsa, .rsaPss, .ecdsa, .ed25519, .ed448, .dsa]

/-- inverse of a `.str` over an enumeration -/
def ofStr {α} (all : List α) (str : α → String) (s : String) : Option α := all.find? (fun a => str a == s)

structure CipherSettings where
  keyLength : Nat
  ivLength : Nat
  /-- `createCipherFunc`; `none` = Python `None` -/
  factory : Option Factory
  deriving DecidableEq, Repr

/-- RecordLayer._getCipherSettings -/
def getCipherSettings (s : Nat) : Except String CipherSettings :=
  if isIn s aes256GcmSuites then .ok ⟨32, 4, some .createAESGCM⟩
  else if isIn s aes128GcmSuites then .ok ⟨16, 4, some .createAESGCM⟩
  else if isIn s aes256Ccm_8Suites then .ok ⟨32, 4, some .createAESCCM_8⟩
  else if isIn s aes256CcmSuites then .ok ⟨32, 4, some .createAESCCM⟩
  else if isIn s aes128Ccm_8Suites then .ok ⟨16, 4, some .createAESCCM_8⟩
  else if isIn s aes128CcmSuites then .ok ⟨16, 4, some .createAESCCM⟩
  else if isIn s chacha20Suites then .ok ⟨32, 12, some .createCHACHA20⟩
  else if isIn s chacha20draft00Suites then .ok ⟨32, 4, some .createCHACHA20⟩
  else if isIn s aes128Suites then .ok ⟨16, 16, some .createAES⟩
  else if isIn s aes256Suites then .ok ⟨32, 16, some .createAES⟩
  else if isIn s rc4Suites then .ok ⟨16, 0, some .createRC4⟩
  else if isIn s tripleDESSuites then .ok ⟨24, 8, some .createTripleDES⟩
  else if isIn s nullSuites then .ok ⟨0, 0, none⟩
  else .error "AssertionError"

/-- RecordLayer._getMacSettings: (macLength, digestmod) -/
def getMacSettings (s : Nat) : Except String (Nat × Option Digest) :=
  if isIn s aeadSuites then .ok (0, none)
  else if isIn s shaSuites then .ok (20, some .sha1)
  else if isIn s sha256Suites then .ok (32, some .sha256)
  else if isIn s sha384Suites then .ok (48, some .sha384)
  else if isIn s md5Suites then .ok (16, some .md5)
  else .error "AssertionError"

/-- what `cipherfactory.<factory>(key of keyLength bytes …)` builds: the attributes the record
    layer and `getCipherName()` read -/
structure CipherObj where
  name : CName
  isAEAD : Bool
  isBlockCipher : Bool
  blockSize : Nat     -- 0 when the object has no block_size
  tagLength : Nat     -- 0 when the object has no tagLength
  deriving DecidableEq, Repr

def factoryObj (factory : Factory) (keyLength : Nat) : Except String CipherObj :=
  match factory with
  | .createAESGCM =>
      if keyLength == 16 then .ok ⟨.aes128gcm, true, false, 0, 16⟩
      else if keyLength == 32 then .ok ⟨.aes256gcm, true, false, 0, 16⟩
      else .error "AssertionError"
  | .createAESCCM =>
      if keyLength == 16 then .ok ⟨.aes128ccm, true, false, 0, 16⟩
      else if keyLength == 32 then .ok ⟨.aes256ccm, true, false, 0, 16⟩
      else .error "AssertionError"
  | .createAESCCM_8 =>
      if keyLength == 16 then .ok ⟨.aes128ccm_8, true, false, 0, 8⟩
      else if keyLength == 32 then .ok ⟨.aes256ccm_8, true, false, 0, 8⟩
      else .error "AssertionError"
  | .createCHACHA20 =>
      if keyLength == 32 then .ok ⟨.chacha20, true, false, 0, 16⟩
      else .error "ValueError"
  | .createAES =>
      if keyLength == 16 then .ok ⟨.aes128, false, true, 16, 0⟩
      else if keyLength == 24 then .ok ⟨.aes192, false, true, 16, 0⟩
      else if keyLength == 32 then .ok ⟨.aes256, false, true, 16, 0⟩
      else .error "AssertionError"
  | .createRC4 =>
      if 16 ≤ keyLength && keyLength ≤ 256 then .ok ⟨.rc4, false, false, 0, 0⟩
      else .error "ValueError"
  | .createTripleDES =>
      if keyLength == 24 then .ok ⟨.tdes, false, true, 8, 0⟩
      else .error "ValueError"

/-- TLSConnection._getPRFParams / `prf_name` in calcTLS1_3PendingState -/
def prfParams (s : Nat) : Digest × Nat :=
  if isIn s sha384PrfSuites then (.sha384, 48) else (.sha256, 32)

/-- RecordLayer._calcTLS1_3KeyUpdate: hash (and secret length) used for "traffic upd" and for the
    keys of the next generation -/
def prfAfterKeyUpdate (s : Nat) : Digest × Nat :=
  if isIn s sha384PrfSuites then (.sha384, 48) else (.sha256, 32)

/-- the PRF function `calc_key` selects (mathtls.py) for "key expansion"/"master secret" -/
def calcKeyPrf (v : Ver) (s : Nat) : Except String PrfFn :=
  if v == (3, 0) then .ok .PRF_SSL
  else if v == (3, 1) || v == (3, 2) then .ok .PRF
  else if v == (3, 3) then
    (if isIn s sha384PrfSuites then .ok .PRF_1_2_SHA384 else .ok .PRF_1_2)
  else .error "AssertionError"

/-- CipherSuite.filterForVersion: membership in the Python set `includeSuites` -/
def versionIncludes (minV maxV : Ver) (s : Nat) : Bool :=
  (Ver.le (3, 0) minV && Ver.le minV (3, 3) && isIn s ssl3Suites) ||
  (Ver.le (3, 3) maxV && Ver.le minV (3, 3) && isIn s tls12Suites) ||
  (Ver.lt (3, 3) maxV && isIn s tls13Suites)

/-- CipherSuite.filterForVersion -/
def filterForVersion (suites : List Nat) (minV maxV : Ver) : List Nat :=
  suites.filter (versionIncludes minV maxV)

/-- `_clientGetServerHello`: the suite in the ServerHello is accepted iff it is among the suites the
    client offered, filtered for the NEGOTIATED version (minVersion = maxVersion = real_version) -/
def clientAcceptsSuite (offered : List Nat) (realVersion : Ver) (s : Nat) : Bool :=
  isIn s (filterForVersion offered realVersion realVersion)

/-- `_filterSuites`: `s in macSuites` (the list is a concatenation; membership is the disjunction) -/
def macAdmits (macNames : List MName) (v : Ver) (s : Nat) : Bool :=
  let ge33 := Ver.le (3, 3) v
  (macNames.contains .sha && isIn s shaSuites) ||
  (macNames.contains .sha256 && ge33 && isIn s sha256Suites) ||
  (macNames.contains .sha384 && ge33 && isIn s sha384Suites) ||
  (macNames.contains .md5 && isIn s md5Suites) ||
  (macNames.contains .aead && ge33 && isIn s aeadSuites)

/-- `_filterSuites`: `s in cipherSuites` -/
def cipherAdmits (cipherNames : List CName) (v : Ver) (s : Nat) : Bool :=
  let ge33 := Ver.le (3, 3) v
  (cipherNames.contains .chacha20 && ge33 && isIn s chacha20Suites) ||
  (cipherNames.contains .chacha20draft00 && ge33 && isIn s chacha20draft00Suites) ||
  (cipherNames.contains .aes128gcm && ge33 && isIn s aes128GcmSuites) ||
  (cipherNames.contains .aes256gcm && ge33 && isIn s aes256GcmSuites) ||
  (cipherNames.contains .aes128ccm && ge33 && isIn s aes128CcmSuites) ||
  (cipherNames.contains .aes128ccm_8 && ge33 && isIn s aes128Ccm_8Suites) ||
  (cipherNames.contains .aes256ccm && ge33 && isIn s aes256CcmSuites) ||
  (cipherNames.contains .aes256ccm_8 && ge33 && isIn s aes256Ccm_8Suites) ||
  (cipherNames.contains .aes128 && isIn s aes128Suites) ||
  (cipherNames.contains .aes256 && isIn s aes256Suites) ||
  (cipherNames.contains .tdes && isIn s tripleDESSuites) ||
  (cipherNames.contains .rc4 && isIn s rc4Suites) ||
  (cipherNames.contains .null && isIn s nullSuites)

/-- `_filterSuites`: `s in keyExchangeSuites` -/
def kexAdmits (kexNames : List KName) (v : Ver) (s : Nat) : Bool :=
  (Ver.le (3, 4) v && isIn s tls13Suites) ||
  (kexNames.contains .rsa && isIn s certSuites) ||
  (kexNames.contains .dhe_rsa && isIn s dheCertSuites) ||
  (kexNames.contains .dhe_dsa && isIn s dheDsaSuites) ||
  (kexNames.contains .ecdhe_rsa && isIn s ecdheCertSuites) ||
  (kexNames.contains .ecdhe_ecdsa && isIn s ecdheEcdsaSuites) ||
  (kexNames.contains .srp_sha && isIn s srpSuites) ||
  (kexNames.contains .srp_sha_rsa && isIn s srpCertSuites) ||
  (kexNames.contains .dh_anon && isIn s anonSuites) ||
  (kexNames.contains .ecdh_anon && isIn s ecdhAnonSuites)

/-- CipherSuite._filterSuites(suites, settings, version) with the three name lists of `settings` -/
def filterSuites (suites : List Nat) (macNames : List MName) (cipherNames : List CName)
    (kexNames : List KName) (v : Ver) : List Nat :=
  suites.filter (fun s => macAdmits macNames v s && cipherAdmits cipherNames v s && kexAdmits kexNames v s)

/-- the complete vocabularies, in the enumerations (tied to the generated ALL_* lists by
    `selectors_match_generated`) -/
def fullMac : List MName := [.sha, .sha256, .sha384, .aead, .md5]
def fullCipher : List CName :=
  [.chacha20, .aes256gcm, .aes128gcm, .aes256ccm, .aes128ccm, .aes256, .aes128, .tdes,
   .chacha20draft00, .aes128ccm_8, .aes256ccm_8, .rc4, .null]
def fullKex : List KName :=
  [.ecdhe_ecdsa, .rsa, .dhe_rsa, .ecdhe_rsa, .srp_sha, .srp_sha_rsa, .ecdh_anon, .dh_anon, .dhe_dsa]

/-- the `get*Suites` classmethods -/
inductive Getter
  | getAnonSuites | getCertSuites | getDheCertSuites | getDheDsaSuites | getEcdhAnonSuites
  | getEcdheCertSuites | getEcdsaSuites | getSrpAllSuites | getSrpCertSuites | getSrpDsaSuites
  | getSrpSuites | getTLS13Suites
  deriving DecidableEq, Repr

def Getter.str : Getter → String
  | .getAnonSuites => "getAnonSuites" | .getCertSuites => "getCertSuites"
  | .getDheCertSuites => "getDheCertSuites" | .getDheDsaSuites => "getDheDsaSuites"
  | .getEcdhAnonSuites => "getEcdhAnonSuites" | .getEcdheCertSuites => "getEcdheCertSuites"
  | .getEcdsaSuites => "getEcdsaSuites" | .getSrpAllSuites => "getSrpAllSuites"
  | .getSrpCertSuites => "getSrpCertSuites" | .getSrpDsaSuites => "getSrpDsaSuites"
  | .getSrpSuites => "getSrpSuites" | .getTLS13Suites => "getTLS13Suites"

/-- all selectors, in the (sorted) order the translator lists them -/
def Getter.all : List Getter :=
  [.getAnonSuites, .getCertSuites, .getDheCertSuites, .getDheDsaSuites, .getEcdhAnonSuites,
   .getEcdheCertSuites, .getEcdsaSuites, .getSrpAllSuites, .getSrpCertSuites, .getSrpDsaSuites,
   .getSrpSuites, .getTLS13Suites]

/-- the list each `get*Suites` classmethod hands to `_filterSuites`
    (note: `getSrpDsaSuites` passes `srpCertSuites`, as the code does) -/
def Getter.base : Getter → List Nat
  | .getTLS13Suites => tls13Suites
  | .getSrpSuites => srpSuites
  | .getSrpCertSuites => srpCertSuites
  | .getSrpDsaSuites => srpCertSuites
  | .getSrpAllSuites => srpAllSuites
  | .getCertSuites => certSuites
  | .getDheCertSuites => dheCertSuites
  | .getEcdheCertSuites => ecdheCertSuites
  | .getEcdsaSuites => ecdheEcdsaSuites
  | .getDheDsaSuites => dheDsaSuites
  | .getAnonSuites => anonSuites
  | .getEcdhAnonSuites => ecdhAnonSuites

/-- `CipherSuite.<getter>(settings, version)` -/
def getter (g : Getter) (macNames : List MName) (cipherNames : List CName) (kexNames : List KName)
    (v : Ver) : List Nat :=
  filterSuites g.base macNames cipherNames kexNames v

/-- CipherSuite.canonicalCipherName -/
def canonicalCipherName (s : Nat) : Option CName :=
  if isIn s aes128GcmSuites then some .aes128gcm
  else if isIn s aes256GcmSuites then some .aes256gcm
  else if isIn s aes128Ccm_8Suites then some .aes128ccm_8
  else if isIn s aes128CcmSuites then some .aes128ccm
  else if isIn s aes256CcmSuites then some .aes256ccm
  else if isIn s aes256Ccm_8Suites then some .aes256ccm_8
  else if isIn s aes128Suites then some .aes128
  else if isIn s aes256Suites then some .aes256
  else if isIn s rc4Suites then some .rc4
  else if isIn s tripleDESSuites then some .tdes
  else if isIn s nullSuites then some .null
  else if isIn s chacha20draft00Suites then some .chacha20draft00
  else if isIn s chacha20Suites then some .chacha20
  else none

/-- CipherSuite.canonicalMacName, over explicit lists -/
def canonicalMacNameWith (l384 l256 lsha lmd5 : List Nat) (s : Nat) : Option MName :=
  if isIn s l384 then some .sha384
  else if isIn s l256 then some .sha256
  else if isIn s lsha then some .sha
  else if isIn s lmd5 then some .md5
  else none

/-- CipherSuite.canonicalMacName -/
def canonicalMacName (s : Nat) : Option MName :=
  canonicalMacNameWith sha384Suites sha256Suites shaSuites md5Suites s

/-- `CipherSuite.sha384Suites` as it stood in the pinned tree 9dc109c, before fix fc8dda9 (kept for
    the recorded counterexample; the live theorems use the generated list) -/
def pinnedSha384Suites : List Nat := [0xc024, 0xc026, 0xc02a, 0xc028, 0x00a3, 0x00a5]

/-! The key-exchange if-chains of tlsconnection.py are not hand-written here: they are the GENERATED
    trees / conditions of TlsModel/Gen/KexChains.lean (read from the AST on every run). -/

/-- client, TLS ≤ 1.2: the KeyExchange class `_handshakeClientAsyncHelper` instantiates
    (`none`: the chain could not be read, or ends in an assertion) -/
def clientKexClass (s : Nat) : Option KexClass := (clientKexChain.eval s).bind id

/-- client `_clientKeyExchange`: a Certificate message is read from the server -/
def clientExpectsCertificate (s : Nat) : Option Bool := clientExpectsCertificateCond.eval s

/-- client `_clientKeyExchange`: a ServerKeyExchange message is read -/
def clientExpectsSKE (s : Nat) : Option Bool := clientExpectsSKECond.eval s

/-- client `_clientKeyExchange`: the server's public key is taken from its certificate chain -/
def clientChecksChain (s : Nat) : Option Bool := clientChecksChainCond.eval s

/-- which parameter block ServerKeyExchange.parse / write handles -/
inductive SkeKind | srp | dh | ecdh
  deriving DecidableEq, Repr

def SkeKind.str : SkeKind → String
  | .srp => "srp" | .dh => "dh" | .ecdh => "ecdh"

/-- ServerKeyExchange.parse / write: which parameter block the message carries -/
def skeKind (s : Nat) : Except String SkeKind :=
  if isIn s srpAllSuites then .ok .srp
  else if isIn s dhAllSuites then .ok .dh
  else if isIn s ecdhAllSuites then .ok .ecdh
  else .error "AssertionError"

/-- ServerKeyExchange.parse / write: the parameters are followed by a signature -/
def skeSigned (s : Nat) : Bool :=
  isIn s certAllSuites || isIn s ecdheEcdsaSuites || isIn s dheDsaSuites

/-- server, TLS ≤ 1.2: the branch `_handshakeServerAsyncHelper` takes: the helper it delegates to, the
    KeyExchange class, and whether that helper sends a Certificate message for this suite
    (`none`: `assert False`, or something the translator could not read) -/
def serverKexPath (s : Nat) : Option (ServerPath × KexClass × Bool) := do
  let leaf ← serverKexChain.eval s
  let (path, cls) ← leaf
  let cert ← (serverPathSendsCert path).eval s
  some (path, cls, cert)

def serverKexClass (s : Nat) : Option (KexClass × Bool) := (serverKexPath s).map fun p => (p.2.1, p.2.2)

/-- server: `Session.serverCertChain` is set to the server's chain -/
def serverRecordsChain (s : Nat) : Option Bool := serverRecordsChainCond.eval s

/-- CipherSuite.filter_for_certificate, with the end-entity certificate reduced to its `certAlg`
    (`none` = no certificate chain).  `includeSuites` is a Python set: it is modelled by its
    membership predicate (`update` = or, `symmetric_difference_update` = xor). -/
def certIncludes (certAlg : Option CertAlg) (s : Nat) : Bool :=
  -- (the SRP suites without server authentication are admitted with or without a chain)
  let inc := isIn s tls13Suites || isIn s srpSuites
  match certAlg with
  | some alg =>
    let inc := if alg == .rsa || alg == .rsaPss then inc || isIn s certAllSuites else inc
    let inc := if alg == .rsaPss then xor inc (isIn s certSuites) else inc
    let inc := if alg == .ecdsa || alg == .ed25519 || alg == .ed448 then inc || isIn s ecdheEcdsaSuites else inc
    let inc := if alg == .dsa then inc || isIn s dheDsaSuites else inc
    inc
  | none => inc || isIn s anonSuites || isIn s ecdhAnonSuites

def filterForCertificate (suites : List Nat) (certAlg : Option CertAlg) : List Nat :=
  suites.filter (certIncludes certAlg)

/-! ## Part 2: the independent specification (no classification list is mentioned below) -/

inductive Kex | rsa | dhStatic | ffdhe | ecdhStatic | ecdhe | srp | tls13
  deriving DecidableEq, Repr
inductive Auth | rsa | dss | ecdsa | anon | srpOnly | any13
  deriving DecidableEq, Repr
inductive Cipher | null | rc4 | tdes | aes | chacha20
  deriving DecidableEq, Repr
inductive Mode | stream | cbc | gcm | ccm | ccm8 | poly1305 | poly1305draft
  deriving DecidableEq, Repr
inductive Hash | md5 | sha1 | sha256 | sha384
  deriving DecidableEq, Repr

/-- what a registered suite name denotes -/
structure SuiteSem where
  kex : Kex
  auth : Auth
  cipher : Cipher
  keyLen : Nat               -- bytes
  mode : Mode
  /-- HMAC hash of a MAC-then-encrypt suite; `none` for AEAD -/
  mac : Option Hash
  /-- AEAD tag length in bytes, 0 for non-AEAD -/
  tagLen : Nat
  /-- hash of the TLS 1.2 PRF / TLS 1.3 HKDF -/
  prf12 : Hash
  /-- minor number of the first protocol version defining the suite (0 = SSLv3, 3 = TLS 1.2, 4 = TLS 1.3) -/
  minMinor : Nat
  /-- a TLS 1.3 suite (defined for TLS 1.3 only); all others stop at TLS 1.2 -/
  tls13 : Bool
  deriving DecidableEq, Repr

/-- tokens the naming convention is built from -/
inductive Tok
  | TLS | WITH | RSA | DH | DHE | DSS | ANON | ECDH | ECDHE | ECDSA | SRP | SHA | MD5 | SHA256 | SHA384 | NULL | RC4 | n128 | n256 | n3DES | EDE | CBC | AES | GCM | CCM | n8 | CHACHA20 | POLY1305 | draft | n00
  deriving DecidableEq, Repr

/-- a token (characters between underscores) as a base-256 number -/
def tokCode (cs : List Nat) : Nat := cs.foldl (fun a c => a * 256 + c) 0

/-- spelling, its base-256 code, token.  (`tokTable_codes_ok` below checks column 2 against
    column 1; kernel evaluation works on the numbers.) -/
def tokTable : List (String × Nat × Tok) := [
   ("TLS", 0x544c53, .TLS),
   ("WITH", 0x57495448, .WITH),
   ("RSA", 0x525341, .RSA),
   ("DH", 0x4448, .DH),
   ("DHE", 0x444845, .DHE),
   ("DSS", 0x445353, .DSS),
   ("ANON", 0x414e4f4e, .ANON),
   ("anon", 0x616e6f6e, .ANON),
   ("ECDH", 0x45434448, .ECDH),
   ("ECDHE", 0x4543444845, .ECDHE),
   ("ECDSA", 0x4543445341, .ECDSA),
   ("SRP", 0x535250, .SRP),
   ("SHA", 0x534841, .SHA),
   ("MD5", 0x4d4435, .MD5),
   ("SHA256", 0x534841323536, .SHA256),
   ("SHA384", 0x534841333834, .SHA384),
   ("NULL", 0x4e554c4c, .NULL),
   ("RC4", 0x524334, .RC4),
   ("128", 0x313238, .n128),
   ("256", 0x323536, .n256),
   ("3DES", 0x33444553, .n3DES),
   ("EDE", 0x454445, .EDE),
   ("CBC", 0x434243, .CBC),
   ("AES", 0x414553, .AES),
   ("GCM", 0x47434d, .GCM),
   ("CCM", 0x43434d, .CCM),
   ("8", 0x38, .n8),
   ("CHACHA20", 0x4348414348413230, .CHACHA20),
   ("POLY1305", 0x504f4c5931333035, .POLY1305),
   ("draft", 0x6472616674, .draft),
   ("00", 0x3030, .n00)]

theorem tokTable_codes_ok :
    tokTable.all (fun e => tokCode (e.1.toList.map Char.toNat) == e.2.1) = true := by decide +kernel

def classify (code : Nat) : Option Tok := (tokTable.find? (fun e => e.2.1 == code)).map (·.2.2)

/-- split a list of character codes at '_' (95) into base-256 token codes -/
def splitUnderscore : List Nat → List Nat → List Nat
  | [], cur => [tokCode cur.reverse]
  | c :: cs, cur => if c == 95 then tokCode cur.reverse :: splitUnderscore cs [] else splitUnderscore cs (c :: cur)

/-- tokens of a name given as character codes; `none` if some token is not in the vocabulary -/
def tokens (codes : List Nat) : Option (List Tok) := (splitUnderscore codes []).mapM classify

def parseHash : Tok → Option Hash
  | .MD5 => some .md5
  | .SHA => some .sha1
  | .SHA256 => some .sha256
  | .SHA384 => some .sha384
  | _ => none

def hashLen : Hash → Nat
  | .md5 => 16 | .sha1 => 20 | .sha256 => 32 | .sha384 => 48

/-- AES key size token → bytes -/
def parseAesBits : Tok → Option Nat
  | .n128 => some 16
  | .n256 => some 32
  | _ => none

/-- key-exchange part of a pre-1.3 name (between `TLS_` and `_WITH_`) -/
def parseKex : List Tok → Option (Kex × Auth)
  | [.RSA] => some (.rsa, .rsa)
  | [.DH, .DSS] => some (.dhStatic, .dss)
  | [.DH, .RSA] => some (.dhStatic, .rsa)
  | [.DHE, .DSS] => some (.ffdhe, .dss)
  | [.DHE, .RSA] => some (.ffdhe, .rsa)
  | [.DH, .ANON] => some (.ffdhe, .anon)
  | [.ECDH, .ECDSA] => some (.ecdhStatic, .ecdsa)
  | [.ECDH, .RSA] => some (.ecdhStatic, .rsa)
  | [.ECDHE, .ECDSA] => some (.ecdhe, .ecdsa)
  | [.ECDHE, .RSA] => some (.ecdhe, .rsa)
  | [.ECDH, .ANON] => some (.ecdhe, .anon)
  | [.SRP, .SHA] => some (.srp, .srpOnly)
  | [.SRP, .SHA, .RSA] => some (.srp, .rsa)
  | [.SRP, .SHA, .DSS] => some (.srp, .dss)
  | _ => none

/-- a MAC-then-encrypt suite: the trailing hash is the HMAC; SHA-2 MACs came with TLS 1.2, whose
    suites also fix the PRF hash (RFC 5246 §5, RFC 5289 §3.1-3.2) -/
def legacySem (k : Kex × Auth) (c : Cipher) (keyLen : Nat) (m : Mode) (h : Hash) : SuiteSem :=
  let tls12only := h == .sha256 || h == .sha384
  { kex := k.1, auth := k.2, cipher := c, keyLen := keyLen, mode := m, mac := some h, tagLen := 0,
    prf12 := if h == .sha384 then .sha384 else .sha256,
    minMinor := if tls12only then 3 else 0, tls13 := false }

/-- an AEAD suite of TLS 1.2: no MAC; the trailing hash (if any) is the PRF hash -/
def aeadSem (k : Kex × Auth) (c : Cipher) (keyLen : Nat) (m : Mode) (tag : Nat) (prf : Hash) : SuiteSem :=
  { kex := k.1, auth := k.2, cipher := c, keyLen := keyLen, mode := m, mac := none, tagLen := tag,
    prf12 := prf, minMinor := 3, tls13 := false }

/-- the PRF hash of an AEAD name must be a SHA-2 hash -/
def aeadPrf : Tok → Option Hash
  | .SHA256 => some .sha256
  | .SHA384 => some .sha384
  | _ => none

/-- cipher part of a pre-1.3 name (after `_WITH_`) -/
def parseCipher12 (k : Kex × Auth) : List Tok → Option SuiteSem
  | [.NULL, h] => (parseHash h).map (legacySem k .null 0 .stream)
  | [.RC4, .n128, h] => (parseHash h).map (legacySem k .rc4 16 .stream)
  | [.n3DES, .EDE, .CBC, h] => (parseHash h).map (legacySem k .tdes 24 .cbc)
  | [.AES, n, .CBC, h] => do
      let kl ← parseAesBits n
      let h ← parseHash h
      some (legacySem k .aes kl .cbc h)
  | [.AES, n, .GCM, h] => do               -- RFC 5288 / 5289: 16-byte tag
      let kl ← parseAesBits n
      let p ← aeadPrf h
      some (aeadSem k .aes kl .gcm 16 p)
  | [.AES, n, .CCM] => do                  -- RFC 6655 / 7251: 16-byte tag, SHA-256 PRF
      let kl ← parseAesBits n
      some (aeadSem k .aes kl .ccm 16 .sha256)
  | [.AES, n, .CCM, .n8] => do             -- 8-byte tag
      let kl ← parseAesBits n
      some (aeadSem k .aes kl .ccm8 8 .sha256)
  | [.CHACHA20, .POLY1305, .SHA256] =>     -- RFC 7905
      some (aeadSem k .chacha20 32 .poly1305 16 .sha256)
  | [.CHACHA20, .POLY1305, .draft, .n00] => -- draft-ietf-tls-chacha20-poly1305-00 (library-private name)
      some (aeadSem k .chacha20 32 .poly1305draft 16 .sha256)
  | _ => none

/-- a TLS 1.3 name: `TLS_<AEAD>_<HASH>` (RFC 8446 B.4) -/
def parseCipher13 : List Tok → Option SuiteSem
  | [.AES, n, .GCM, h] => do
      let kl ← parseAesBits n
      let p ← aeadPrf h
      some { aeadSem (.tls13, .any13) .aes kl .gcm 16 p with minMinor := 4, tls13 := true }
  | [.AES, n, .CCM, .n8, h] => do
      let kl ← parseAesBits n
      let p ← aeadPrf h
      some { aeadSem (.tls13, .any13) .aes kl .ccm8 8 p with minMinor := 4, tls13 := true }
  | [.AES, n, .CCM, h] => do
      let kl ← parseAesBits n
      let p ← aeadPrf h
      some { aeadSem (.tls13, .any13) .aes kl .ccm 16 p with minMinor := 4, tls13 := true }
  | [.CHACHA20, .POLY1305, h] => do
      let p ← aeadPrf h
      some { aeadSem (.tls13, .any13) .chacha20 32 .poly1305 16 p with minMinor := 4, tls13 := true }
  | _ => none

/-- split a token list at the first WITH -/
def splitWith : List Tok → List Tok → Option (List Tok × List Tok)
  | [], _ => none
  | t :: ts, acc => if t == .WITH then some (acc.reverse, ts) else splitWith ts (t :: acc)

/-- meaning of a registered cipher-suite name (as character codes); `none` for names that are not
    TLS cipher suites made of these building blocks (SCSVs, SSLv2 kinds, anything unknown) -/
def parseIanaCodes (codes : List Nat) : Option SuiteSem :=
  match tokens codes with
  | some (.TLS :: rest) =>
    match splitWith rest [] with
    | some (kx, ciph) => do
        let k ← parseKex kx
        parseCipher12 k ciph
    | none => parseCipher13 rest
  | _ => none

/-- meaning of a registered cipher-suite name -/
def parseIana (name : String) : Option SuiteSem := parseIanaCodes (name.toList.map Char.toNat)

/-- registered name of `s` as character codes -/
def ietfNameCodesOf (s : Nat) : Option (List Nat) := (ietfNameCodes.find? (fun p => p.1 == s)).map (·.2)

/-- what the registered name of suite `s` denotes -/
def semOf (s : Nat) : Option SuiteSem := (ietfNameCodesOf s).bind parseIanaCodes

/-- the suite is defined for protocol version `v` -/
def SuiteSem.definedIn (sem : SuiteSem) (v : Ver) : Bool :=
  v.1 == 3 && (if sem.tls13 then v.2 == 4 else sem.minMinor ≤ v.2 && v.2 ≤ 3)

/-! ## Part 3: observables -/

/-- which pseudo-random function keys the connection -/
inductive PrfKind | ssl3 | md5sha1 | sha256 | sha384
  deriving DecidableEq, Repr

/-- kind of certificate key with which the server may select the suite -/
inductive CertKind | rsa | rsaPss | ecdsa | dsa | noCert
  deriving DecidableEq, Repr

/-- everything the property speaks about, for one suite in one version and role -/
structure Obs where
  kex : Kex
  /-- server sends Certificate (and signs its key-exchange parameters, when it sends any) -/
  certified : Bool
  /-- a ServerKeyExchange message is part of the handshake -/
  ske : Bool
  /-- certificate kinds that authenticate the suite (`[noCert]`: none is sent, and the suite is admitted
      without a chain) -/
  certKinds : List CertKind
  cipher : Cipher
  keyLen : Nat
  mode : Mode
  /-- length of the per-direction IV / nonce salt taken from the key block (or HKDF in TLS 1.3) -/
  ivLen : Nat
  mac : Option Hash
  macLen : Nat
  tagLen : Nat
  prf : PrfKind
  /-- TLS 1.3: hash with which a KeyUpdate derives the next traffic secret and its keys (`none` below
      TLS 1.3, where there is no KeyUpdate) -/
  prfKeyUpdate : Option PrfKind
  /-- `Session.getCipherName()` -/
  sessionCipherName : Option CName
  /-- `Session.getMacName()`; `none` when there is no HMAC (AEAD) -/
  sessionMacName : Option MName
  /-- `TLSConnection.getCipherName()` (the name of the installed cipher object) -/
  connCipherName : Option CName
  deriving DecidableEq, Repr

/-- field-by-field comparison (kernel-cheap; `Obs.agree_iff` in TlsProofs/Suites.lean shows it is
    equality) -/
def Obs.agree (a b : Obs) : Bool :=
  a.kex == b.kex && a.certified == b.certified && a.ske == b.ske && a.certKinds == b.certKinds &&
  a.cipher == b.cipher && a.keyLen == b.keyLen && a.mode == b.mode && a.ivLen == b.ivLen &&
  a.mac == b.mac && a.macLen == b.macLen && a.tagLen == b.tagLen && a.prf == b.prf &&
  a.prfKeyUpdate == b.prfKeyUpdate &&
  a.sessionCipherName == b.sessionCipherName && a.sessionMacName == b.sessionMacName &&
  a.connCipherName == b.connCipherName

/-- both present and agreeing -/
def Obs.optAgree : Option Obs → Option Obs → Bool
  | some a, some b => a.agree b
  | _, _ => false

/-! ### model side: interpretation of the code-level names -/

def kexOfClass : KexClass → Kex
  | .RSAKeyExchange => .rsa
  | .DHE_RSAKeyExchange => .ffdhe
  | .ADHKeyExchange => .ffdhe
  | .ECDHE_RSAKeyExchange => .ecdhe
  | .AECDHKeyExchange => .ecdhe
  | .SRPKeyExchange => .srp

def hashOfDigest : Digest → Hash
  | .md5 => .md5 | .sha1 => .sha1 | .sha256 => .sha256 | .sha384 => .sha384

/-- cipher object → (cipher, mode) given the key-block IV length (which tells the two ChaCha20
    nonce constructions apart) -/
def cipherOfObj (o : CipherObj) (ivLength : Nat) : Option (Cipher × Mode) :=
  match o.name with
  | .aes128gcm | .aes256gcm => some (.aes, .gcm)
  | .aes128ccm | .aes256ccm => some (.aes, .ccm)
  | .aes128ccm_8 | .aes256ccm_8 => some (.aes, .ccm8)
  | .chacha20 => if ivLength == 12 then some (.chacha20, .poly1305)
                 else if ivLength == 4 then some (.chacha20, .poly1305draft) else none
  | .aes128 | .aes192 | .aes256 => some (.aes, .cbc)
  | .tdes => some (.tdes, .cbc)
  | .rc4 => some (.rc4, .stream)
  | .chacha20draft00 | .null => none     -- no object carries these names

def prfOfFn : PrfFn → PrfKind
  | .PRF_SSL => .ssl3 | .PRF => .md5sha1 | .PRF_1_2 => .sha256 | .PRF_1_2_SHA384 => .sha384

def prfOfDigest : Digest → Option PrfKind
  | .sha256 => some .sha256 | .sha384 => some .sha384 | _ => none

def certAlgs : List (CertKind × Option CertAlg) :=
  [(.rsa, some .rsa), (.rsaPss, some .rsaPss), (.ecdsa, some .ecdsa), (.dsa, some .dsa), (.noCert, none)]

def modelCertKinds (s : Nat) : List CertKind :=
  (certAlgs.filter (fun p => certIncludes p.2 s)).map (·.1)

def exceptToOption {α} : Except String α → Option α
  | .ok a => some a
  | .error _ => none

/-- what the mirrored code does with suite `s` when version `v` has been negotiated; `none` when a
    Python assertion would fire or a combination is outside the interpretation tables -/
def modelObs (s : Nat) (v : Ver) (r : Role) : Option Obs := do
  let cs ← exceptToOption (getCipherSettings s)
  let (macLen, digest) ← exceptToOption (getMacSettings s)
  let obj ← match cs.factory with
            | some f => (exceptToOption (factoryObj f cs.keyLength)).map some
            | none => some none
  let (ciph, mode) ← match obj with
                     | some o => cipherOfObj o cs.ivLength
                     | none => some (Cipher.null, Mode.stream)
  let mac := digest.map hashOfDigest
  -- an AEAD object must come with "no digest" and the other way round (calcPendingStates calls
  -- createCipherFunc(key, implementations) only in the digest-less branch)
  let aead := match obj with | some o => o.isAEAD | none => false
  if aead != digest.isNone then none
  let tag := match obj with | some o => o.tagLength | none => 0
  let tls13 := Ver.le (3, 4) v
  -- calcTLS1_3PendingState overrides iv_length = 12
  let ivLen := if tls13 then 12 else cs.ivLength
  let prf ← if tls13 then prfOfDigest (prfParams s).1
            else (exceptToOption (calcKeyPrf v s)).map prfOfFn
  -- secret length and hash must go together (HKDF-Expand-Label output = hash length)
  let ku ← if tls13 then
             (let p := prfAfterKeyUpdate s
              if (p.1 == .sha384 && p.2 == 48) || (p.1 == .sha256 && p.2 == 32)
              then (prfOfDigest p.1).map some else none)
           else some none
  let (kex, certified, ske) ←
    if tls13 then some (Kex.tls13, true, false)
    else match r with
      | .client => do
          let k := kexOfClass (← clientKexClass s)
          let expCert ← clientExpectsCertificate s
          let expSke ← clientExpectsSKE s
          let chk ← clientChecksChain s
          -- the message really parsed must be of the kind the class consumes
          let skeOk := if expSke then
                         (match skeKind s, k with
                          | .ok .srp, .srp => true
                          | .ok .dh, .ffdhe => true
                          | .ok .ecdh, .ecdhe => true
                          | _, _ => false)
                       else k == .rsa
          if !skeOk then none
          if expSke && skeSigned s != expCert then none
          -- a certificate is read exactly when the key is then taken from it
          if chk != expCert then none
          some (k, expCert, expSke)
      | .server => do
          let (cls, cert) ← serverKexClass s
          -- the server's own Session records the chain exactly when it sent it
          let recd ← serverRecordsChain s
          if recd != cert then none
          let k := kexOfClass cls
          some (k, cert, k != .rsa)
  some { kex := kex, certified := certified, ske := ske,
         -- what authenticates the suite: when a Certificate is sent, the certificate kinds
         -- filter_for_certificate admits the suite with (and it must not be admitted without one);
         -- when none is sent, only that it is admitted without a chain — a chain the server also
         -- holds is not used on the wire, so admission alongside one says nothing about the suite
         certKinds := if certified then modelCertKinds s
                      else (modelCertKinds s).filter (· == .noCert),
         cipher := ciph, keyLen := cs.keyLength, mode := mode, ivLen := ivLen,
         mac := mac, macLen := macLen, tagLen := tag, prf := prf, prfKeyUpdate := ku,
         sessionCipherName := canonicalCipherName s,
         sessionMacName := canonicalMacName s,
         connCipherName := obj.map (·.name) }

/-! ### specification side -/

/-- name of the bulk cipher in tlslite's settings vocabulary (`HandshakeSettings.cipherNames`) -/
def specCipherName (sem : SuiteSem) : Option CName :=
  match sem.cipher, sem.mode, sem.keyLen with
  | .null, .stream, 0 => some .null
  | .rc4, .stream, 16 => some .rc4
  | .tdes, .cbc, 24 => some .tdes
  | .aes, .cbc, 16 => some .aes128
  | .aes, .cbc, 32 => some .aes256
  | .aes, .gcm, 16 => some .aes128gcm
  | .aes, .gcm, 32 => some .aes256gcm
  | .aes, .ccm, 16 => some .aes128ccm
  | .aes, .ccm, 32 => some .aes256ccm
  | .aes, .ccm8, 16 => some .aes128ccm_8
  | .aes, .ccm8, 32 => some .aes256ccm_8
  | .chacha20, .poly1305, 32 => some .chacha20
  | .chacha20, .poly1305draft, 32 => some .chacha20draft00
  | _, _, _ => none

/-- name of the primitive as the installed cipher object reports it: the two ChaCha20 nonce
    constructions share one primitive; the NULL cipher installs no object -/
def specConnCipherName (sem : SuiteSem) : Option (Option CName) :=
  match sem.cipher, sem.mode with
  | .null, _ => some none
  | .chacha20, _ => some (some .chacha20)
  | _, _ => (specCipherName sem).map some

/-- name of the HMAC hash in tlslite's settings vocabulary; an AEAD suite has none -/
def specMacName (sem : SuiteSem) : Option MName :=
  sem.mac.map fun
    | .md5 => .md5 | .sha1 => .sha | .sha256 => .sha256 | .sha384 => .sha384

/-- the `macNames` entry that must be enabled for the suite to be offered -/
def specMacClass (sem : SuiteSem) : MName := (specMacName sem).getD .aead

/-- the `keyExchangeNames` entry that must be enabled for the suite to be offered
    (`none`: TLS 1.3 suites are not governed by it; static (EC)DH is not implemented) -/
def specKexName (sem : SuiteSem) : Option KName :=
  match sem.kex, sem.auth with
  | .rsa, .rsa => some .rsa
  | .ffdhe, .rsa => some .dhe_rsa
  | .ffdhe, .dss => some .dhe_dsa
  | .ffdhe, .anon => some .dh_anon
  | .ecdhe, .rsa => some .ecdhe_rsa
  | .ecdhe, .ecdsa => some .ecdhe_ecdsa
  | .ecdhe, .anon => some .ecdh_anon
  | .srp, .srpOnly => some .srp_sha
  | .srp, .rsa => some .srp_sha_rsa
  | _, _ => none

/-- key-block IV length: CBC = block size (RFC 5246 6.2.3.2), GCM/CCM = 4-byte salt
    (RFC 5288 §3, RFC 6655 §3), ChaCha20 = 12 (RFC 7905 §2), its draft-00 predecessor 4,
    stream = 0; TLS 1.3: always 12 (RFC 8446 §5.3) -/
def specIvLen (sem : SuiteSem) (v : Ver) : Nat :=
  if Ver.le (3, 4) v then 12 else
  match sem.mode, sem.cipher with
  | .stream, _ => 0
  | .cbc, .tdes => 8
  | .cbc, _ => 16
  | .gcm, _ | .ccm, _ | .ccm8, _ => 4
  | .poly1305, _ => 12
  | .poly1305draft, _ => 4

/-- RFC 2246/4346 §5: MD5+SHA-1 PRF; RFC 5246 §5: P_hash of the suite (SHA-256 unless the suite says
    SHA-384); SSLv3 has its own construction; TLS 1.3 uses HKDF with the suite hash -/
def specPrf (sem : SuiteSem) (v : Ver) : PrfKind :=
  if v == (3, 0) then .ssl3
  else if v == (3, 1) || v == (3, 2) then .md5sha1
  else if sem.prf12 == .sha384 then .sha384 else .sha256

/-- certificates able to authenticate the suite: RSA key transport needs an encryption-capable RSA
    key (an RSA-PSS key cannot), signing suites accept either RSA kind; TLS 1.3 suites do not
    constrain the credential -/
def specCertKinds (sem : SuiteSem) : List CertKind :=
  match sem.auth, sem.kex with
  | .any13, _ => [.rsa, .rsaPss, .ecdsa, .dsa, .noCert]
  | .rsa, .rsa => [.rsa]
  | .rsa, _ => [.rsa, .rsaPss]
  | .ecdsa, _ => [.ecdsa]
  | .dss, _ => [.dsa]
  | .anon, _ => [.noCert]
  | .srpOnly, _ => [.noCert]

/-- the server proves possession of a certified key: it sends Certificate (and signs its parameters) -/
def specCertified (sem : SuiteSem) : Bool :=
  match sem.auth with
  | .rsa | .dss | .ecdsa | .any13 => true
  | .anon | .srpOnly => false

/-- a ServerKeyExchange message belongs to the handshake (every key exchange of TLS ≤ 1.2 except RSA
    key transport) -/
def specSke (sem : SuiteSem) : Bool := sem.kex != .rsa && sem.kex != .tls13

/-- key-exchange family the generated chain of role `r` selects for `s` (TLS ≤ 1.2) -/
def chainKex (r : Role) (s : Nat) : Option Kex :=
  match r with
  | .client => (clientKexClass s).map kexOfClass
  | .server => (serverKexClass s).map fun p => kexOfClass p.1

/-- every `unknown` left by the chain translator -/
def chainUnknowns : List String :=
  clientKexChain.unknowns ++ serverKexChain.unknowns ++ clientExpectsCertificateCond.unknowns ++
  clientExpectsSKECond.unknowns ++ clientChecksChainCond.unknowns ++ serverRecordsChainCond.unknowns ++
  (serverPathSendsCert .srp).unknowns ++ (serverPathSendsCert .cert).unknowns ++
  (serverPathSendsCert .anon).unknowns ++ Tls.Gen.KexChains.translatorProblems

def specObs (sem : SuiteSem) (v : Ver) : Option Obs := do
  let cname ← specCipherName sem
  let conn ← specConnCipherName sem
  -- static (EC)DH key agreement is not something this library implements: no expectation
  if sem.kex == .dhStatic || sem.kex == .ecdhStatic then none
  some { kex := sem.kex, certified := specCertified sem,
         ske := specSke sem,
         certKinds := specCertKinds sem,
         cipher := sem.cipher, keyLen := sem.keyLen, mode := sem.mode, ivLen := specIvLen sem v,
         mac := sem.mac, macLen := (sem.mac.map hashLen).getD 0, tagLen := sem.tagLen,
         prf := specPrf sem v,
         -- RFC 8446 §7.2: application_traffic_secret_N+1 = HKDF-Expand-Label(secret_N, "traffic upd", "",
         -- Hash.length) with the hash of the suite
         prfKeyUpdate := if Ver.le (3, 4) v then some (specPrf sem v) else none,
         sessionCipherName := some cname,
         sessionMacName := specMacName sem,
         connCipherName := conn }

/-- what the suite's registered name says must be observed in version `v` -/
def specObsOf (s : Nat) (v : Ver) : Option Obs := do
  let sem ← semOf s
  specObs sem v

/-! ## negotiability -/

/-- `_serverGetClientHello`, resumption ("are we still willing to use that old cipher"): the cached
    session's suite must be among the suites the server would select from for the NEGOTIATED version
    `v` — the get*Suites for `v` under the server's settings, passed through filterForVersion(v, v) -/
def resumeSuiteOk (macNames : List MName) (cipherNames : List CName) (kexNames : List KName)
    (v : Ver) (s : Nat) : Bool :=
  isIn s (filterForVersion (Getter.all.flatMap fun g => getter g macNames cipherNames kexNames v) v v)


/-- some selector returns `s` for version `v` under all-enabling settings -/
def selectableIn (v : Ver) (s : Nat) : Bool :=
  Getter.all.any fun g => isIn s (getter g fullMac fullCipher fullKex v)

/-- a server with all-enabling settings can pick `s` once `v` is negotiated
    (`_serverGetClientHello`: the get*Suites for `version`, then filterForVersion(v, v)) -/
def serverNegotiable (v : Ver) (s : Nat) : Bool :=
  selectableIn v s && isIn s (filterForVersion [s] v v)

/-- a client can end up with `s` in version `v`: offered by some get*Suites for the client's
    maxVersion `mv ≥ v`, and accepted back through filterForVersion(v, v) (`_clientGetServerHello`) -/
def clientNegotiable (v : Ver) (s : Nat) : Bool :=
  (allVersions.any fun mv => Ver.le v mv && selectableIn mv s) && isIn s (filterForVersion [s] v v)

def negotiable (r : Role) (v : Ver) (s : Nat) : Bool :=
  match r with
  | .client => clientNegotiable v s
  | .server => serverNegotiable v s

/-- every identifier the library knows (generated: keys of ietfNames and members of every list) that
    can be negotiated in version `v` by role `r` -/
def negotiableAt (r : Role) (v : Ver) : List Nat := allIds.filter (negotiable r v)

/-- every (suite, version, role) that can be negotiated -/
def negotiableTriples : List (Nat × Ver × Role) :=
  [Role.client, Role.server].flatMap fun r =>
    allVersions.flatMap fun v => (negotiableAt r v).map fun s => (s, v, r)

/-- every suite some selector returns for some version, model side -/
def modelSelectorUnion : List Nat := allIds.filter fun s => allVersions.any fun v => selectableIn v s

/-! ## classification-list structure -/

def cipherLists : List (List Nat) :=
  [aes128GcmSuites, aes256GcmSuites, aes128CcmSuites, aes128Ccm_8Suites, aes256CcmSuites,
   aes256Ccm_8Suites, chacha20Suites, chacha20draft00Suites, aes128Suites, aes256Suites,
   rc4Suites, tripleDESSuites, nullSuites]

def macLists : List (List Nat) := [shaSuites, sha256Suites, sha384Suites, md5Suites, aeadSuites]

/-- the key-exchange lists `_filterSuites` draws from (tls13Suites are admitted for TLS 1.3) -/
def kexLists : List (List Nat) :=
  [tls13Suites, certSuites, dheCertSuites, dheDsaSuites, ecdheCertSuites, ecdheEcdsaSuites,
   srpSuites, srpCertSuites, anonSuites, ecdhAnonSuites]

def versionLists : List (List Nat) := [ssl3Suites, tls12Suites, tls13Suites]

def prfLists : List (List Nat) := [sha256PrfSuites, sha384PrfSuites]

/-- in how many of the lists `s` occurs (a list counts once even if it repeats `s`) -/
def classCount (ls : List (List Nat)) (s : Nat) : Nat := (ls.filter (fun l => isIn s l)).length

/-! ## rendering for the driver -/

def Kex.str : Kex → String
  | .rsa => "rsa" | .dhStatic => "dh" | .ffdhe => "ffdhe" | .ecdhStatic => "ecdh" | .ecdhe => "ecdhe"
  | .srp => "srp" | .tls13 => "tls13"
def Auth.str : Auth → String
  | .rsa => "rsa" | .dss => "dss" | .ecdsa => "ecdsa" | .anon => "anon" | .srpOnly => "srp" | .any13 => "any"
def Cipher.str : Cipher → String
  | .null => "null" | .rc4 => "rc4" | .tdes => "3des" | .aes => "aes" | .chacha20 => "chacha20"
def Mode.str : Mode → String
  | .stream => "stream" | .cbc => "cbc" | .gcm => "gcm" | .ccm => "ccm" | .ccm8 => "ccm8"
  | .poly1305 => "poly1305" | .poly1305draft => "poly1305draft"
def Hash.str : Hash → String
  | .md5 => "md5" | .sha1 => "sha1" | .sha256 => "sha256" | .sha384 => "sha384"
def PrfKind.str : PrfKind → String
  | .ssl3 => "ssl3" | .md5sha1 => "md5sha1" | .sha256 => "sha256" | .sha384 => "sha384"
def CertKind.str : CertKind → String
  | .rsa => "rsa" | .rsaPss => "rsa-pss" | .ecdsa => "ecdsa" | .dsa => "dsa" | .noCert => "none"

def optStr {α} (f : α → String) : Option α → String
  | some a => f a
  | none => "None"

def boolStr (b : Bool) : String := if b then "1" else "0"

def natList (l : List Nat) : String := if l.isEmpty then "-" else ",".intercalate (l.map toString)

def Obs.render (o : Obs) : String :=
  s!"kex={o.kex.str} certified={boolStr o.certified} ske={boolStr o.ske} " ++
  s!"certKinds={",".intercalate (o.certKinds.map CertKind.str)} " ++
  s!"cipher={o.cipher.str} keyLen={o.keyLen} mode={o.mode.str} ivLen={o.ivLen} mac={optStr Hash.str o.mac} " ++
  s!"macLen={o.macLen} tagLen={o.tagLen} prf={o.prf.str} prfKeyUpdate={optStr PrfKind.str o.prfKeyUpdate} sessCipher={optStr CName.str o.sessionCipherName} " ++
  s!"sessMac={optStr MName.str o.sessionMacName} connCipher={optStr CName.str o.connCipherName}"

def SuiteSem.render (m : SuiteSem) : String :=
  s!"kex={m.kex.str} auth={m.auth.str} cipher={m.cipher.str} keyLen={m.keyLen} mode={m.mode.str} " ++
  s!"mac={optStr Hash.str m.mac} tagLen={m.tagLen} prf12={m.prf12.str} minMinor={m.minMinor} tls13={boolStr m.tls13}"

end Tls.Suites
