import TlsModel.Gen.Order
/-
  C06, tie by regeneration: the hand-written evaluator of the generated flow transcripts
  (TlsModel/Gen/Order.lean).  It executes the token lists of the two handshake helpers, inlining the
  calls, under a valuation of the guard atoms by the negotiated parameters `Cfg` and by what was
  received so far, and enumerates every way the flows can go: at each `_getMsg` it branches over
  the message kinds the expected content / handshake types admit.
-/
namespace Tls.Order.Gen

/-- what the run knows besides the configuration -/
structure Dyn where
  /-- kinds received so far, newest first -/
  seen : List MsgKind := []
  bools : List (Var × Bool) := []
  ctv : List (Var × List CT) := []
  htv : List (Var × List MsgKind) := []
  /-- a defragmenter check was passed since the last `_getMsg` -/
  defragOk : Bool := false
  gets : Nat := 0
  /-- every read-key change so far was guarded -/
  keyOk : Bool := true
  complete : Bool := false
  /-- `_middlebox_compat_mode` was switched off -/
  compatCleared : Bool := false
  deriving Inhabited

def lookup {α β} [DecidableEq α] (k : α) : List (α × β) → Option β
  | [] => none
  | (k', v) :: xs => if k = k' then some v else lookup k xs

/-- valuation of a guard atom; `none` = poison -/
def valAtom (c : Cfg) (d : Dyn) : Atom → Option Bool
  | .tls13 => some c.isTls13
  | .ssl3 => some (c.ver == .ssl3)
  | .tls10to12 => some (c.ver == .tls)
  | .isClientNST => some (c.role == .client && c.tickets)
  | .certSuite => some c.certKx
  | .skeSuite => some c.skeKx
  | .kxSrp => some (c.kx == .srp || c.kx == .srpCert)
  | .kxCertFamily => some (c.kx == .rsa || c.kx == .dhe || c.kx == .ecdhe)
  | .kxAnon => some (c.kx == .anon)
  | .certReqIncompatible => some (!c.certReqKx)
  | .resuming => some (c.resumed && !c.isTls13)
  | .subflowResumed => some (c.resumed && !c.isTls13)
  | .calleeDone => some false          -- `.done` ends the run before the helper looks at it
  | .subflowFinished => some true
  | .reqCert => some c.reqCert
  | .npnOffered => some c.npn
  | .notPsk => some (!c.pskMode)
  | .hrrSeen => some (d.seen.head? == some .hrr)
  | .hrrNeeded => some c.hrr
  | .hrrHasKeyShare => some true
  | .hrrShareAlreadySent => some (!c.hrr)
  | .compOffered => some c.compCert
  | .clientCertGot => some (c.clientCert && (d.seen.contains .certificate || d.seen.contains .compressed_certificate))
  | .lastIs k => some (d.seen.head? == some k)
  | .var v => some ((lookup v d.bools).getD false)     -- an unbound parameter has its default, False
  | .poison _ => none

def evalG (c : Cfg) (d : Dyn) : G → Option Bool
  | .tt => some true
  | .atom a => valAtom c d a
  | .not g => (evalG c d g).map (!·)
  | .and a b => do let x ← evalG c d a; let y ← evalG c d b; pure (x && y)
  | .or a b => do let x ← evalG c d a; let y ← evalG c d b; pure (x || y)
  | .opaque _ => some false          -- a block that only sends: skipped

/-- the rest of the list after the `elseB`/`endB` that closes the block we are in (`toElse`: stop at
    its `elseB` too) -/
def skipBlock (toElse : Bool) : Nat → List Tok → List Tok
  | _, [] => []
  | depth, .ifB _ :: ts => skipBlock toElse (depth + 1) ts
  | 0, .elseB :: ts => if toElse then ts else skipBlock toElse 0 ts
  | 0, .endB :: ts => ts
  | depth + 1, .endB :: ts => skipBlock toElse depth ts
  | depth, _ :: ts => skipBlock toElse depth ts

/-- message kinds a `_getMsg(cts, hts)` hands to the flow (an HRR is a ServerHello on the wire and
    exists only when TLS 1.3 is negotiated; of the alerts only no_certificate lets the flow go on) -/
def admitted (c : Cfg) (cts : List CT) (hts : List MsgKind) : List MsgKind :=
  (if cts.contains .handshake then
     hts.flatMap (fun k => if k == .server_hello && c.isTls13 then [.server_hello, .hrr] else [k])
   else []) ++
  (if cts.contains .ccs then [.ccs] else []) ++
  (if cts.contains .alert then [.no_certificate_alert] else [])

inductive Res
  /-- the flows arrived at a `_getMsg` (complete = false) or ended (complete as recorded) having
      received `trace` -/
  | path (trace : List MsgKind) (complete : Bool) (keyOk : Bool)
  | bad
  deriving DecidableEq, Repr, Inhabited

def runToks (c : Cfg) : Nat → List Tok → Dyn → List Res
  | 0, _, _ => [.bad]
  | _, [], d => [.path d.seen.reverse d.complete (d.keyOk && (!c.isTls13 || !d.complete || d.compatCleared))]
  | fuel + 1, t :: rest, d =>
    match t with
    | .ifB g =>
        (match evalG c d g with
         | none => [.bad]
         | some true => runToks c fuel rest d
         | some false => runToks c fuel (skipBlock true 0 rest) d)
    | .elseB => runToks c fuel (skipBlock false 0 rest) d
    | .endB => runToks c fuel rest d
    | .get cts hts =>
        let cs := match cts with | .lit xs => some xs | .var v => lookup v d.ctv
        let hs := match hts with | .lit xs => some xs | .var v => lookup v d.htv
        (match cs, hs with
         | some cs, some hs =>
           if cs.contains .poison then [.bad] else
           .path d.seen.reverse false d.keyOk ::
           (admitted c cs hs).flatMap fun k =>
             runToks c fuel rest { d with seen := k :: d.seen, defragOk := false, gets := d.gets + 1 }
         | _, _ => [.bad])
    | .assignCT v xs => runToks c fuel rest { d with ctv := (v, xs) :: d.ctv }
    | .assignHT v xs => runToks c fuel rest { d with htv := (v, xs) :: d.htv }
    | .assignBool v b => runToks c fuel rest { d with bools := (v, b) :: d.bools }
    | .send _ | .writeChange => runToks c fuel rest d
    | .readChange =>
        -- guarded: a defragmenter check since the last message, or `_getMsg`'s own alignment check
        -- (TLS 1.3, version already set = not the first message, type in `alignedTypes`)
        let last := d.seen.head?.map (fun k => if k == .hrr then MsgKind.server_hello else k)
        let ok := d.defragOk || d.gets == 0 ||
          (c.isTls13 && decide (d.gets ≥ 2) && alignedTypesOk &&
            (match last with | some k => alignedTypes.contains k | none => false))
        runToks c fuel rest { d with keyOk := d.keyOk && ok }
    | .defragCheck => runToks c fuel rest { d with defragOk := true }
    | .abort => []
    | .call f binds =>
        let vals := binds.map fun (v, g) => (v, evalG c d g)
        if vals.any (fun p => p.2.isNone) then [.bad] else
        -- parameters not passed fall back to their default (False): drop stale bindings
        let params : List Var := [.expect_next_protocol]
        let bools := vals.filterMap (fun p => p.2.map (fun b => (p.1, b))) ++
                     d.bools.filter (fun p => !params.contains p.1)
        runToks c fuel (body f ++ rest) { d with bools := bools }
    | .ret => [.path d.seen.reverse d.complete (d.keyOk && (!c.isTls13 || !d.complete || d.compatCleared))]
    | .raise => []
    | .clearCompat => runToks c fuel rest { d with compatCleared := true }
    | .complete => runToks c fuel rest { d with complete := true }
    | .done => [.path d.seen.reverse true d.keyOk]
    | .poison _ => [.bad]

def genRun (c : Cfg) : List Res :=
  runToks c 400 (body (if c.role == .client then .clientHelper else .serverHelper)) {}

/-! ### the grammar side, as finite sets -/

def expand : List Item → List (List MsgKind)
  | [] => [[]]
  | .req ks :: is => (expand is).flatMap fun t => ks.map (· :: t)
  | .opt ks :: is => (expand is).flatMap fun t => t :: ks.map (· :: t)

/-- every sentence of `lang c` -/
def sentences (c : Cfg) : List (List MsgKind) :=
  expand (grammar c) ++
  (if c.ver == .ssl3 && c.role == .server && c.reqCert && !c.resumed then expand (grammarNoCert c) else [])

def isPrefix : List MsgKind → List MsgKind → Bool
  | [], _ => true
  | _ :: _, [] => false
  | a :: as, b :: bs => a == b && isPrefix as bs

/-- sentences of the RFC grammar tlslite-ng deliberately does not take (stricter than the grammar):
    a CertificateRequest in an SRP+certificate suite, and NextProtocol in a resumed handshake (its
    resumed ServerHello never negotiates NPN) -/
def stricter (c : Cfg) (t : List MsgKind) : Bool :=
  (c.role == .client && c.kx == .srpCert && t.contains .certificate_request) ||
  (c.role == .server && c.resumed && t.contains .next_protocol)

def completed (rs : List Res) : List (List MsgKind) :=
  rs.filterMap fun | .path t true _ => some t | _ => none

def prefixes (rs : List Res) : List (List MsgKind) :=
  rs.filterMap fun | .path t _ _ => some t | _ => none

/-- the generated flows accept exactly the grammar's sentences (minus `stricter`) -/
def matchesGrammar (c : Cfg) : Bool :=
  let rs := genRun c
  !rs.contains .bad &&
  (completed rs).all (fun t => lang c t) &&
  ((sentences c).filter (fun t => !stricter c t)).all (fun t => (completed rs).contains t) &&
  -- the flows end only by completing
  rs.all (fun r => match r with | .path _ false _ => true | .path _ true _ => true | .bad => false)

/-- no `_getMsg` admits (and the flow keeps) a message after which no permitted sequence is possible -/
def noExtraType (c : Cfg) : Bool :=
  let rs := genRun c
  !rs.contains .bad && (prefixes rs).all (fun p => (sentences c).any (isPrefix p))

/-- every read-key change on every path is guarded, and every completed TLS 1.3 path has switched
    `_middlebox_compat_mode` off (a late ChangeCipherSpec is no longer dropped) -/
def keyChangesGuarded (c : Cfg) : Bool :=
  let rs := genRun c
  !rs.contains .bad && rs.all (fun r => match r with | .path _ _ ok => ok | .bad => false)

/-! ### readAsync's dispatch of post-handshake handshake types (TLS 1.3) -/

def rowMatches (c : Cfg) (outstanding : Nat) (r : Option Bool × Option Bool × Option Bool × Option Bool) : Bool :=
  let ok (o : Option Bool) (v : Bool) : Bool := match o with | none => true | some b => b == v
  ok r.1 (c.role == .client && c.keypair) && ok r.2.1 (c.role == .server && decide (outstanding > 0)) &&
  ok r.2.2.1 c.compCert && ok r.2.2.2 (c.role == .client)

/-- the handshake types the generated if/elif chain of readAsync admits -/
def postTypes (c : Cfg) (outstanding : Nat) : Option (List MsgKind) :=
  if !postDispatchOk then none else
  (postDispatch.find? (fun row => rowMatches c outstanding row.1)).map (·.2)

/-- …are exactly the handshake messages `stepDone` takes -/
def postDispatchMatches (c : Cfg) : Bool :=
  !c.isTls13 ||
  [0, 1].all fun n =>
    match postTypes c n with
    | none => false
    | some ts => MsgKind.all.all fun k =>
        !k.isHandshake || k == .hrr ||
        (ts.contains k == (match stepDone c n k with | .post _ | .phaStart _ => true | _ => false))

end Tls.Order.Gen
