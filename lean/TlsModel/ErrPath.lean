import TlsModel.Basic
/-
  C08 — the error path of tlslite-ng as far as it is logic.

  (i)   `_getNextRecord` / `_getMsg` (tlslite/tlsrecordlayer.py) as functions over a finite list
        of inputs (records as `recvRecord` returns them, or a record whose decryption / framing
        raises) with the `Defragmenter`; the retry loops carry fuel, the measure `mu` shows the fuel
        is never used up.
  (ii)  the exception -> alert tables of `_getMsg` / `_getNextRecordFromSocket`, `_sendError`,
        `_shutdown`, the received-alert handling and the two outer handlers
        (`_handshakeWrapperAsync`, `readAsync`) as total functions `ErrKind -> Conn -> Effects`.
  (iii) the semantic ClientHello checks of `_serverGetClientHello` and the ServerHello checks of
        `_clientGetServerHello` / start of `_clientTLS13Handshake` (tlslite/tlsconnection.py) as
        decision functions over abstract hello features, in the order of the code; every Python
        operation that can fail (iteration over None, attribute of None, index, getExtension on a
        duplicated extension) is an `Escape`, never totalised.
  (iv)  the accept rule of `CompressedCertificate.parse` / `_decompress` (tlslite/messages.py).
  Core Lean only.
-/
namespace Tls.ErrPath

/-! ## alert descriptions (RFC 5246 / 8446 numbers) -/
abbrev Desc := Nat
def dCloseNotify : Desc := 0
def dUnexpectedMessage : Desc := 10
def dBadRecordMac : Desc := 20
def dDecryptionFailed : Desc := 21
def dRecordOverflow : Desc := 22
def dHandshakeFailure : Desc := 40
def dBadCertificate : Desc := 42
def dIllegalParameter : Desc := 47
def dDecodeError : Desc := 50
def dProtocolVersion : Desc := 70
def dInsufficientSecurity : Desc := 71
def dNoRenegotiation : Desc := 100
def dMissingExtension : Desc := 109
def dUnsupportedExtension : Desc := 110

/-- unrelated Python exceptions that the modelled statements can raise -/
inductive PyExc
  | typeError | attributeError | indexError | keyError | valueError | assertionError | unicodeError
  deriving DecidableEq, Repr

def PyExc.name : PyExc → String
  | .typeError => "TypeError" | .attributeError => "AttributeError" | .indexError => "IndexError"
  | .keyError => "KeyError" | .valueError => "ValueError" | .assertionError => "AssertionError"
  | .unicodeError => "UnicodeDecodeError"

/-! ## (ii) error table and shutdown discipline -/

/-- every way a `_getMsg` call can end other than delivering a message -/
inductive ErrKind
  -- `_getNextRecordFromSocket`: exceptions of `recvRecord` mapped to alerts, then its own checks
  | recUnexpectedMessage | recRecordOverflow | recIllegalParameter | recDecryptionFailed | recBadRecordMac
  | recEmptyNonAppData | recUnknownContentType
  -- `_getMsg`: exceptions of the message parsers mapped to alerts
  | msgIllegalParameter | msgBadCertificate | msgSyntaxError
  -- `_getMsg`: checks written in line
  | invalidCcs13 | interleaved13 | unexpectedRecordType | heartbeatNotAllowed
  | ssl2NotClientHello | ssl2ClientHelloNotExpected | unexpectedHandshakeType | notAligned13
  -- any `_sendError(d)` issued by the handshake code (semantic checks)
  | semantic (d : Desc)
  -- not detected locally
  | remoteAlert (level desc : Nat)
  | abruptClose | socketError
  -- an exception that is neither: it reaches the outer handler unchanged
  | escaped (e : PyExc)
  | internalNoAlert            -- TLSInternalError / TLSProtocolException raised without `_sendError`
  deriving DecidableEq, Repr

inductive Exc
  | localAlert (d : Desc) | remoteAlert (level desc : Nat) | abruptClose | socketError
  | py (e : PyExc) | internal
  deriving DecidableEq, Repr

/-- `closed` and the resumable flag of the session object, if there is one -/
structure Conn where
  closed : Bool
  session : Option Bool
  deriving DecidableEq, Repr

structure Effects where
  wire : List (Nat × Nat)      -- alerts written, in order: (level, description)
  conn : Conn
  raised : Exc
  deriving DecidableEq, Repr

/-- `_shutdown(resumable)`: "Even if resumable is False, we'll never toggle this on" -/
def shutdown (resumable : Bool) (c : Conn) : Conn :=
  { closed := true, session := if resumable then c.session else c.session.map (fun _ => false) }

/-- `_sendError`: alert first, then `_shutdown(False)`, then `raise TLSLocalAlert` -/
def sendError (d : Desc) (c : Conn) : Effects :=
  { wire := [(2, d)], conn := shutdown false c, raised := .localAlert d }

/-- the description each locally detected kind is answered with, as the code maps it -/
def codeDesc : ErrKind → Option Desc
  | .recUnexpectedMessage => some dUnexpectedMessage
  | .recRecordOverflow => some dRecordOverflow
  | .recIllegalParameter => some dIllegalParameter
  | .recDecryptionFailed => some dDecryptionFailed
  | .recBadRecordMac => some dBadRecordMac
  | .recEmptyNonAppData => some dUnexpectedMessage
  | .recUnknownContentType => some dUnexpectedMessage
  | .msgIllegalParameter => some dIllegalParameter
  | .msgBadCertificate => some dBadCertificate
  | .msgSyntaxError => some dDecodeError
  | .invalidCcs13 => some dUnexpectedMessage
  | .interleaved13 => some dUnexpectedMessage
  | .unexpectedRecordType => some dUnexpectedMessage
  | .heartbeatNotAllowed => some dUnexpectedMessage
  | .ssl2NotClientHello => some dUnexpectedMessage
  | .ssl2ClientHelloNotExpected => some dUnexpectedMessage
  | .unexpectedHandshakeType => some dUnexpectedMessage
  | .notAligned13 => some dUnexpectedMessage
  | .semantic d => some d
  | _ => none

/-- what `_getMsg` / `_getNextRecordFromSocket` themselves do for each kind (before any outer handler) -/
def onErrorInner (k : ErrKind) (c : Conn) : Effects :=
  match codeDesc k with
  | some d => sendError d c
  | none =>
    match k with
    | .remoteAlert level desc =>
      -- warning or close_notify: answer with a close_notify warning, then shut down
      if level == 1 || desc == dCloseNotify then
        { wire := [(1, dCloseNotify)],
          conn := if desc == dCloseNotify then shutdown true c else shutdown false c,
          raised := .remoteAlert level desc }
      else
        { wire := [], conn := shutdown false c, raised := .remoteAlert level desc }
    | .abruptClose => { wire := [], conn := c, raised := .abruptClose }
    | .socketError => { wire := [], conn := c, raised := .socketError }
    | .escaped e => { wire := [], conn := c, raised := .py e }
    | _ => { wire := [], conn := c, raised := .internal }

/-- `_handshakeWrapperAsync`: TLSAlert is re-raised as it is (fault injection off), every other
    exception goes through `_shutdown(False)` first -/
def wrapHandshake (e : Effects) : Effects :=
  match e.raised with
  | .localAlert _ => e
  | .remoteAlert _ _ => e
  | _ => { e with conn := shutdown false e.conn }

/-- `readAsync`: `except: self._shutdown(False); raise` for everything that is re-raised; a received
    close_notify is swallowed, an abrupt close is re-raised unless `ignoreAbruptClose` -/
def wrapRead (e : Effects) : Effects :=
  match e.raised with
  | .remoteAlert _ 0 => e
  | _ => { e with conn := shutdown false e.conn }

def onError (k : ErrKind) (c : Conn) : Effects := wrapHandshake (onErrorInner k c)
def onErrorRead (k : ErrKind) (c : Conn) : Effects := wrapRead (onErrorInner k c)

/-- the property's table, written independently of the code: which fatal alert answers which
    locally detected violation (RFC 5246 section 7.2.2 / RFC 8446 section 6.2) -/
def specDesc : ErrKind → Option Desc
  | .recUnexpectedMessage | .recEmptyNonAppData | .recUnknownContentType | .invalidCcs13 | .interleaved13
  | .unexpectedRecordType | .heartbeatNotAllowed | .ssl2NotClientHello | .ssl2ClientHelloNotExpected
  | .unexpectedHandshakeType | .notAligned13 => some 10
  | .recRecordOverflow => some 22
  | .recIllegalParameter | .msgIllegalParameter => some 47
  | .recDecryptionFailed => some 21
  | .recBadRecordMac => some 20
  | .msgBadCertificate => some 42
  | .msgSyntaxError => some 50
  | .semantic d => some d
  | .remoteAlert _ _ | .abruptClose | .socketError | .escaped _ | .internalNoAlert => none

def ErrKind.isLocal (k : ErrKind) : Bool := (specDesc k).isSome

/-- the documented exception families: TLSError (alerts, abrupt close) and socket.error -/
def Exc.documented : Exc → Bool
  | .localAlert _ | .remoteAlert _ _ | .abruptClose | .socketError => true
  | .py _ | .internal => false

/-! ## (i) the record / message loops -/

/-- what one call of `recvRecord` yields: a decrypted record, or an exception of the record layer -/
inductive Input
  | record (ctype : Nat) (data : Bytes) (ssl2 : Bool)
  | bad (k : ErrKind)
  deriving Repr

def Input.size : Input → Nat
  | .record _ d _ => d.length
  | .bad _ => 0

/-- the `Defragmenter` of TLSRecordLayer: priorities change_cipher_spec(20, static 1),
    alert(21, static 2), handshake(22, dynamic: offset 1, 3 length bytes) -/
structure Defrag where
  ccs : Bytes
  alert : Bytes
  hs : Bytes
  deriving Repr

def Defrag.empty : Defrag := ⟨[], [], []⟩
def Defrag.size (d : Defrag) : Nat := d.ccs.length + d.alert.length + d.hs.length
def Defrag.isEmpty (d : Defrag) : Bool := d.ccs.isEmpty && d.alert.isEmpty && d.hs.isEmpty

/-- `get_message`: first complete message in priority order -/
def Defrag.getMessage (d : Defrag) : Option (Nat × Bytes × Defrag) :=
  if 1 ≤ d.ccs.length then some (20, d.ccs.take 1, { d with ccs := d.ccs.drop 1 })
  else if 2 ≤ d.alert.length then some (21, d.alert.take 2, { d with alert := d.alert.drop 2 })
  else if 4 ≤ d.hs.length then
    let n := beDecode ((d.hs.drop 1).take 3)
    if d.hs.length - 4 < n then none
    else some (22, d.hs.take (4 + n), { d with hs := d.hs.drop (4 + n) })
  else none

/-- `add_data`: unknown type raises ValueError -/
def Defrag.add (d : Defrag) (t : Nat) (b : Bytes) : Except PyExc Defrag :=
  if t == 20 then .ok { d with ccs := d.ccs ++ b }
  else if t == 21 then .ok { d with alert := d.alert ++ b }
  else if t == 22 then .ok { d with hs := d.hs ++ b }
  else .error .valueError

/-- `_getNextRecordFromSocket` after `recvRecord`: the two checks on the returned record -/
def fromSocket : Input → Except ErrKind (Nat × Bytes × Bool)
  | .bad k => .error k
  | .record t data ssl2 =>
    if t != 23 && data.isEmpty then .error .recEmptyNonAppData
    else if !(t == 20 || t == 21 || t == 22 || t == 23 || t == 24) then .error .recUnknownContentType
    else .ok (t, data, ssl2)

inductive Next
  | item (ctype : Nat) (data : Bytes) (ssl2 fromBuf : Bool) (d : Defrag) (rest : List Input)
  | needMore (d : Defrag)
  | fail (k : ErrKind) (d : Defrag) (rest : List Input)

/-- `_getNextRecord`: one result per call (the caller breaks out of the generator after it) -/
def getNextRecord (v13 : Bool) : Defrag → List Input → Next
  | d, inp =>
    match d.getMessage with
    | some (t, m, d') => .item t m false true d' inp
    | none =>
      match inp with
      | [] => .needMore d
      | i :: rest =>
        match fromSocket i with
        | .error k => .fail k d rest
        | .ok (t, data, ssl2) =>
          if t == 23 || (v13 && t == 20) || t == 24 || ssl2 then .item t data ssl2 false d rest
          else
            match d.add t data with
            | .error e => .fail (.escaped e) d rest
            | .ok d' => getNextRecord v13 d' rest

/-- the explicit measure: buffered bytes + (size + 1) of every input not yet read -/
def inputsMu : List Input → Nat
  | [] => 0
  | i :: rest => i.size + 1 + inputsMu rest

def mu (d : Defrag) (inp : List Input) : Nat := d.size + inputsMu inp

structure Cfg where
  v13 : Bool                 -- self.version > (3, 3)
  expected : List Nat        -- expectedType
  secondary : List Nat       -- secondaryType
  client : Bool
  sessionOpen : Bool         -- self.session and not self.closed
  middlebox : Bool           -- _middlebox_compat_mode
  hbSupported : Bool
  hbCanReceive : Bool
  deriving Repr

inductive Step
  | deliver (ctype : Nat) (data : Bytes)
  | again (sent : Option (Nat × Nat))     -- loop once more; an alert or heartbeat response may have been sent
  | fail (k : ErrKind)
  deriving Repr

def byte0 (b : Bytes) : Nat := (b.headD 0).toNat

/-- Heartbeat().parse succeeds: type(1) payload_length(2) payload, rest is padding -/
def heartbeatParses (b : Bytes) : Bool :=
  3 ≤ b.length && 3 + beDecode ((b.drop 1).take 2) ≤ b.length

/-- one pass through the body of the `while 1:` loop of `_getMsg`, after `_getNextRecord` returned
    `(ctype, data)`; `d` is the defragmenter afterwards.  Followed (on `break`) by the handshake
    header checks. -/
def classify (cfg : Cfg) (d : Defrag) (ctype : Nat) (data : Bytes) (ssl2 : Bool) : Step :=
  if cfg.v13 && cfg.expected.contains 22 && cfg.middlebox && ctype == 20 then
    -- ChangeCipherSpec().parse: one byte exactly, else DecodeError -> decode_error
    if data.length != 1 then .fail .msgSyntaxError
    else if byte0 data != 1 then .fail .invalidCcs13
    else .again none
  else if cfg.v13 && ctype != 22 && !d.hs.isEmpty then .fail .interleaved13
  else if !cfg.expected.contains ctype then
    if ctype == 21 then
      -- from the defragmenter: always exactly two bytes
      .fail (.remoteAlert (byte0 data) (byte0 (data.drop 1)))
    else
      let reneg := ctype == 22 &&
        ((cfg.client && byte0 data == 0) || (!cfg.client && byte0 data == 1)) && cfg.sessionOpen
      if reneg then .again (some (1, dNoRenegotiation))
      else if ctype == 24 && cfg.hbSupported then
        if heartbeatParses data && byte0 data == 1 && !cfg.hbCanReceive then .fail .heartbeatNotAllowed
        else .again none
      else .fail .unexpectedRecordType
  else if ctype == 23 && data.isEmpty then .again none
  else if ctype == 22 then
    if ssl2 then
      if byte0 data != 1 then .fail .ssl2NotClientHello
      else if !cfg.secondary.contains 1 then .fail .ssl2ClientHelloNotExpected
      else if cfg.v13 && !d.isEmpty then .fail .notAligned13
      else .deliver 22 data
    else
      let sub := byte0 data
      if !cfg.secondary.contains sub then .fail .unexpectedHandshakeType
      else if cfg.v13 && [1, 5, 2, 20, 24].contains sub && !d.isEmpty then .fail .notAligned13
      else .deliver 22 data
  else .deliver ctype data

inductive Outcome
  | delivered (ctype : Nat) (data : Bytes)
  | failed (k : ErrKind)
  | blocked                    -- all input consumed, the call waits (yields 0) for more
  | outOfFuel
  deriving Repr

structure Run where
  outcome : Outcome
  d : Defrag
  rest : List Input
  iters : Nat          -- passes through the `while 1:` of `_getMsg`
  reads : Nat          -- records taken from the socket
  extracts : Nat       -- messages taken out of the defragmenter
  warnings : Nat       -- no_renegotiation warnings sent

/-- `_getMsg` with fuel -/
def getMsgFuel (cfg : Cfg) : Nat → Defrag → List Input → Run
  | 0, d, inp => ⟨.outOfFuel, d, inp, 0, 0, 0, 0⟩
  | fuel + 1, d, inp =>
    match getNextRecord cfg.v13 d inp with
    | .needMore d' => ⟨.blocked, d', [], 1, inp.length, 0, 0⟩
    | .fail k d' rest => ⟨.failed k, d', rest, 1, inp.length - rest.length, 0, 0⟩
    | .item t data ssl2 fromBuf d' rest =>
      let rd := inp.length - rest.length
      let ex := if fromBuf then 1 else 0
      match classify cfg d' t data ssl2 with
      | .deliver t' data' => ⟨.delivered t' data', d', rest, 1, rd, ex, 0⟩
      | .fail k => ⟨.failed k, d', rest, 1, rd, ex, 0⟩
      | .again sent =>
        let r := getMsgFuel cfg fuel d' rest
        { r with iters := r.iters + 1, reads := r.reads + rd, extracts := r.extracts + ex,
                 warnings := r.warnings + (if sent.isSome then 1 else 0) }

/-- `_getMsg`: the fuel is the measure, shown sufficient in Props/C08 -/
def getMsg (cfg : Cfg) (d : Defrag) (inp : List Input) : Run := getMsgFuel cfg (mu d inp + 1) d inp

/-! ## (iii) semantic hello checks -/

/-- why a check sequence can end without a verdict -/
inductive Escape
  | py (e : PyExc) (site : String)
  | dupExtension          -- getExtension: TLSInternalError, nothing sent
  | protoNoAlert (site : String)   -- TLSProtocolException subclass raised, nothing sent
  deriving DecidableEq, Repr

/-- an extension as `getExtension` sees it -/
inductive Ext (α : Type)
  | absent | present (v : α) | dup
  deriving Repr

def Ext.isDup {α : Type} : Ext α → Bool
  | .dup => true
  | _ => false

/-- present with an empty body, which the parsers turn into a `None` attribute -/
def Ext.isPresentNone {β : Type} : Ext (Option β) → Bool
  | .present none => true
  | _ => false

def Ext.toOption {α : Type} : Ext α → Option α
  | .present v => some v
  | _ => none

def getExt {α : Type} : Ext α → Except Escape (Option α)
  | .absent => .ok none
  | .present v => .ok (some v)
  | .dup => .error .dupExtension

/-- `for x in v` / `y in v` where `v` may be None -/
def iterOpt {α : Type} (site : String) : Option (List α) → Except Escape (List α)
  | some l => .ok l
  | none => .error (.py .typeError site)

abbrev Ver := Nat   -- major * 256 + minor: the order of Python's tuple comparison

inductive HostKind | empty | nonAscii | invalidDns | ok
  deriving DecidableEq, Repr

structure Sni where
  bodyEmpty : Bool                       -- extData empty (serverNames is None)
  names : List (Nat × HostKind)          -- (name_type, what the name looks like)
  deriving Repr

def Sni.hostNames (s : Sni) : List HostKind := (s.names.filter (fun n => n.1 == 0)).map (·.2)

structure Psk where
  ids : Option (List Nat)                -- identity lengths; None when the body is empty
  binders : Option (List Nat)            -- binder lengths
  last : Bool                            -- psk is clientHello.extensions[-1]
  deriving Repr

structure CH where
  parseError : Bool                      -- a parser raised SyntaxError: answered by `_getMsg`
  clientVersion : Ver
  suitesEmpty : Bool
  compressionEmpty : Bool
  hasNullCompression : Bool
  supportedVersions : Ext (Option (List Ver))
  sigAlgs : Ext (Option Nat)             -- number of entries; None when the body is empty
  alpn : Ext (List Nat)                  -- name lengths
  sni : Ext Sni
  ems : Ext Bool                         -- payload non-empty
  ecPointFormats : Ext (Option (List Nat))
  pha : Ext Bool
  pskModes : Ext (Option (List Nat))
  psk : Ext Psk
  supGroups : Ext (Option (List Nat))
  keyShare : Ext (Option (List Nat))     -- groups of the shares, in order
  earlyData : Ext Bool
  heartbeat : Ext Nat
  recordSizeLimit : Ext (Option Nat)
  certType : Ext (Option (List Nat))
  deriving Repr

structure SrvSettings where
  minVersion : Ver
  maxVersion : Ver
  versions : List Ver                    -- settings.versions
  deriving Repr

inductive Verdict
  | alert (d : Desc) (msg : String)
  | pass
  deriving DecidableEq, Repr

abbrev Chk := Except Escape (Option (Desc × String))

def knownVersions : List Ver := [0x0300, 0x0301, 0x0302, 0x0303, 0x0304]
def forbidden13Groups : List Nat := (List.range 22).map (· + 1) ++ [26, 27, 28, 0xff01, 0xff02]   -- TLS_1_3_FORBIDDEN_GROUPS

/-- `real_version` of `_serverGetClientHello` -/
def realVersion (h : CH) : Except Escape Ver :=
  if 0x0303 ≤ h.clientVersion then
    match getExt h.supportedVersions with
    | .error e => .error e
    | .ok none => .ok h.clientVersion
    | .ok (some vs) =>
      match iterOpt "for v in ext.versions" vs with
      | .error e => .error e
      | .ok l => .ok (l.foldl (fun r v => if knownVersions.contains v && r < v then v else r) h.clientVersion)
  else .ok h.clientVersion

def optEmpty {α : Type} : Option (List α) → Bool
  | none => true
  | some l => l.isEmpty

def alertIf (c : Bool) (d : Desc) (msg : String) (k : Chk) : Chk :=
  match c with
  | true => .ok (some (d, msg))
  | false => k

def done : Chk := .ok none

def withExt {α : Type} (e : Ext α) (k : Option α → Chk) : Chk :=
  match getExt e with
  | .error x => .error x
  | .ok v => k v

def chkVersion (s : SrvSettings) (h : CH) : Chk :=
  match realVersion h with
  | .error e => .error e
  | .ok rv => alertIf (rv < s.minVersion) dProtocolVersion "Too old version" done

def chkBasics (h : CH) : Chk :=
  alertIf (h.suitesEmpty || h.compressionEmpty) dDecodeError "Malformed Client Hello message" <|
  alertIf (!h.hasNullCompression) dIllegalParameter "Client Hello missing uncompressed method" done

/-- first check: `ver_ext and not ver_ext.versions` (the list is <2..254>; an extension without payload
    parses to None) -/
def chkSupportedVersions (h : CH) : Chk :=
  withExt h.supportedVersions fun e =>
  match e with
  | none => done
  | some vs => alertIf (optEmpty vs) dDecodeError "Malformed supported_versions extension" done

/-- with supported_versions the negotiated version does not depend on the legacy client_version -/
def chkSigAlgs (h : CH) : Chk :=
  withExt h.supportedVersions fun sv =>
  withExt h.sigAlgs fun e =>
  alertIf ((0x0303 ≤ h.clientVersion || sv.isSome) &&
      (match e with | some none => true | some (some 0) => true | _ => false))
    dDecodeError "Malformed signature_algorithms extension" done

def chkAlpn (h : CH) : Chk :=
  withExt h.alpn fun e =>
  match e with
  | none => done
  | some names =>
    alertIf names.isEmpty dDecodeError "Client sent empty list of ALPN names" <|
    alertIf (names.any (· == 0)) dDecodeError "Client sent empty name in ALPN extension" done

def chkSni (h : CH) : Chk :=
  withExt h.sni fun e =>
  match e with
  | none => done
  | some s =>
    alertIf (s.bodyEmpty || s.names.isEmpty) dDecodeError "Recevived SNI extension is malformed" <|
    match s.hostNames with
    | [] => done
    | h0 :: tl =>
      alertIf (!tl.isEmpty) dIllegalParameter "Client sent multiple host names in SNI extension" <|
      alertIf (h0 == .empty) dDecodeError "Received SNI extension is malformed" <|
      alertIf (h0 == .nonAscii) dIllegalParameter "Host name in SNI is not valid ASCII" <|
      alertIf (h0 == .invalidDns) dIllegalParameter "Host name in SNI is not valid DNS name" done

def chkEms (h : CH) : Chk :=
  withExt h.ems fun e =>
  alertIf (e == some true) dDecodeError "Non empty payload of the Extended Master Secret extension" done

/-- `ver_ext and (3, 4) in ver_ext.versions` -/
def offers13 (h : CH) : Except Escape Bool :=
  match getExt h.supportedVersions with
  | .error e => .error e
  | .ok none => .ok false
  | .ok (some vs) =>
    match iterOpt "(3, 4) in ver_ext.versions" vs with
    | .error e => .error e
    | .ok l => .ok (l.contains 0x0304)

/-- needed whenever TLS 1.2 or earlier can end up negotiated: `real_version <= (3, 3) or
    settings.maxVersion <= (3, 3) or not (ver_ext and (3, 4) in ver_ext.versions)` -/
def chkEcPointFormats (s : SrvSettings) (h : CH) : Chk :=
  match realVersion h with
  | .error e => .error e
  | .ok rv =>
    match offers13 h with
    | .error e => .error e
    | .ok o13 =>
      if rv ≤ 0x0303 || s.maxVersion ≤ 0x0303 || !o13 then
        withExt h.ecPointFormats fun e =>
        match e with
        | none => done
        | some f =>
          alertIf (optEmpty f) dDecodeError "Empty ec_point_formats extension" <|
          match iterOpt "ECPointFormat.uncompressed not in ecExt.formats" f with
          | .error x => .error x
          | .ok l => alertIf (!l.contains 0) dIllegalParameter
              "Client sent ec_point_formats extension without uncompressed format" done
      else done

/-- `cert_type_ext and not cert_type_ext.certTypes` -/
def chkCertTypeExt (h : CH) : Chk :=
  withExt h.certType fun e =>
  match e with
  | none => done
  | some t => alertIf (optEmpty t) dDecodeError "Empty cert_type extension" done

/-- the PSK part of the TLS 1.3 block; returns whether key_exchange = "psk_ke" -/
def chkPsk (h : CH) (k : Bool → Chk) : Chk :=
  withExt h.psk fun psk =>
  withExt h.pskModes fun modes =>
  withExt h.keyShare fun ks =>
  withExt h.supGroups fun _ =>
  withExt h.pha fun pha =>
  alertIf (pha == some true) dDecodeError "Invalid encoding of post_handshake_auth extension" <|
  -- the list of shares may be empty, but it has to be there (checked for every key exchange mode)
  alertIf (match ks with | some none => true | _ => false) dDecodeError "Empty key_share extension" <|
  alertIf (match modes with | some m => optEmpty m | none => false) dDecodeError
    "Empty psk_key_exchange_modes extension" <|
  match psk with
  | none => k false
  | some p =>
    alertIf (optEmpty p.ids) dDecodeError "No identities in PSK extension" <|
    alertIf (optEmpty p.binders) dDecodeError "No binders in PSK extension" <|
    match p.ids, p.binders with
    | some ids, some bs =>
      alertIf (ids.length != bs.length) dIllegalParameter
        "Number of identities does not match number of binders in PSK extension" <|
      alertIf (ids.any (· == 0)) dDecodeError "Empty identity in PSK extension" <|
      alertIf (bs.any (· == 0)) dDecodeError "Empty binder in PSK extension" <|
      alertIf (!p.last) dIllegalParameter "PSK extension not last in client hello" <|
      match modes with
      | none => .ok (some (dMissingExtension, "PSK extension without psk_key_exchange_modes extension"))
      | some m =>
        match iterOpt "PskKeyExchangeMode.psk_dhe_ke not in psk_modes.modes" m with
        | .error x => .error x
        | .ok l => k (!l.contains 1)
    | _, _ => .error (.py .typeError "len(psk.identities)")     -- unreachable: both were just checked

/-- order check: `key_share_ids != [i for i in group_ids if i not in diff]` -/
def sharesInGroupOrder (shares groups : List Nat) : Bool :=
  shares == groups.filter (fun g => shares.contains g)

/-- the (EC)DHE part of the TLS 1.3 block (skipped for psk_ke) -/
def chkKeyShare (h : CH) (vs : List Ver) (pskKe : Bool) : Chk :=
  if pskKe then done else
  withExt h.supGroups fun sg =>
  withExt h.keyShare fun ks =>
  match sg with
  | none => .ok (some (dMissingExtension, "Missing supported_groups extension"))
  | some groups =>
    match ks with
    | none => .ok (some (dMissingExtension, "Missing key_share extension"))
    | some shares =>
      alertIf (optEmpty groups) dDecodeError "Empty supported_groups extension" <|
      alertIf shares.isNone dDecodeError "Empty key_share extension" <|
      match groups, shares with
      | some g, some sh =>
        alertIf (g.any (forbidden13Groups.contains ·) && !vs.contains 0x0303) dIllegalParameter
          "Client advertised in TLS 1.3 Client Hello a key exchange group forbidden in TLS 1.3" <|
        alertIf (sh.any (fun x => !g.contains x)) dIllegalParameter
          "Client sent key share for group it did not advertise" <|
        alertIf (sh.eraseDups.length != sh.length) dIllegalParameter
          "Client sent multiple key shares for the same group" <|
        alertIf (!sharesInGroupOrder sh g) dIllegalParameter
          "Client sent key shares in different order than the advertised groups." done
      | _, _ => .error (.py .typeError "sup_groups.groups")       -- unreachable

/-- key_exchange after both parts: none left means missing_extension -/
def chkKeyExchange (h : CH) (pskKe : Bool) : Chk :=
  if pskKe then done else
  withExt h.sigAlgs fun sa =>
  withExt h.psk fun psk =>
  withExt h.pskModes fun modes =>
  -- cert := (not psk_modes or not psk) and sig_algs; psk_dhe_ke := not cert and psk
  alertIf (!((modes.isNone || psk.isNone) && sa.isSome) && psk.isNone) dMissingExtension "Missing extension" done

def chkEarlyData (h : CH) : Chk :=
  withExt h.earlyData fun ed =>
  withExt h.psk fun psk =>
  match ed with
  | none => done
  | some nonEmpty =>
    alertIf nonEmpty dDecodeError "malformed early_data extension" <|
    alertIf psk.isNone dIllegalParameter "early_data without PSK extension" done

def chkTls13 (h : CH) : Chk :=
  match offers13 h with
  | .error e => .error e
  | .ok false => done
  | .ok true =>
    match h.supportedVersions with
    | .present (some vs) =>
      chkPsk h fun pskKe =>
        match chkKeyShare h vs pskKe with
        | .error e => .error e
        | .ok (some a) => .ok (some a)
        | .ok none =>
          match chkKeyExchange h pskKe with
          | .error e => .error e
          | .ok (some a) => .ok (some a)
          | .ok none => chkEarlyData h
    | _ => .error (.py .typeError "ver_ext.versions")             -- unreachable: offers13 was true

def chkVersionNegotiation (s : SrvSettings) (h : CH) : Chk :=
  withExt h.supportedVersions fun e =>
  match e with
  | none => done
  | some vs =>
    match vs with
    | none => .error (.py .assertionError "getFirstMatching: assert matches is not None")
    | some l =>
      -- only the versions inside of the configured range are acceptable
      alertIf (!((s.versions.filter (fun v => s.minVersion ≤ v && v ≤ s.maxVersion)).any (l.contains ·)))
        dProtocolVersion "supported_versions did not include version we support" done

def chkGroups (h : CH) : Chk :=
  withExt h.supGroups fun e =>
  match e with
  | none => done
  | some g => alertIf (optEmpty g) dDecodeError "Received malformed supported_groups extension" done

def chkHeartbeat (h : CH) : Chk :=
  withExt h.heartbeat fun e =>
  match e with
  | none => done
  | some m => alertIf (m != 1 && m != 2) dIllegalParameter "Received invalid value in Heartbeat extension" done

def chkRecordSizeLimit (h : CH) : Chk :=
  withExt h.recordSizeLimit fun e =>
  match e with
  | none => done
  | some none => .ok (some (dDecodeError, "Malformed record_size_limit extension"))
  | some (some v) => alertIf (v < 64) dIllegalParameter "Invalid value in record_size_limit extension" done

/-- the version negotiated from supported_versions is TLS 1.3 (`getFirstMatching(settings.versions, ...)`) -/
def negotiated13 (s : SrvSettings) (h : CH) : Bool :=
  match h.supportedVersions with
  | .present (some l) =>
    ((s.versions.filter (fun v => s.minVersion ≤ v && v ≤ s.maxVersion)).find? (l.contains ·)) == some 0x0304
  | _ => false

/-- `cipherSuite in certAllSuites/ecdheEcdsaSuites and CertificateType.x509 not in
    clientHello.certificate_types` (after cipher suite selection; a certificate suite is what a
    certificate-only server selects below TLS 1.3) -/
def chkCertTypes (s : SrvSettings) (h : CH) : Chk :=
  if negotiated13 s h then done else
  withExt h.certType fun e =>
  match e with
  | none => done
  | some t =>
    match iterOpt "CertificateType.x509 not in clientHello.certificate_types" t with
    | .error x => .error x
    | .ok l => alertIf (!l.contains 0) dHandshakeFailure "the client doesn't support my certificate type" done

/-- the blocks in the order of `_serverGetClientHello` -/
def chBlocks (s : SrvSettings) (h : CH) : List (Unit → Chk) :=
  [ fun _ => chkSupportedVersions h, fun _ => chkVersion s h, fun _ => chkBasics h, fun _ => chkSigAlgs h,
    fun _ => chkAlpn h, fun _ => chkSni h, fun _ => chkEms h, fun _ => chkEcPointFormats s h,
    fun _ => chkCertTypeExt h, fun _ => chkTls13 h,
    fun _ => chkVersionNegotiation s h, fun _ => withExt h.sni (fun _ => done), fun _ => chkGroups h,
    fun _ => chkHeartbeat h, fun _ => chkRecordSizeLimit h ]

/-- no extension type occurs twice (what `getExtension` needs) -/
def CH.noDup (h : CH) : Bool :=
  !h.supportedVersions.isDup && !h.sigAlgs.isDup && !h.alpn.isDup && !h.sni.isDup && !h.ems.isDup &&
  !h.ecPointFormats.isDup && !h.pha.isDup && !h.pskModes.isDup && !h.psk.isDup && !h.supGroups.isDup &&
  !h.keyShare.isDup && !h.earlyData.isDup && !h.heartbeat.isDup && !h.recordSizeLimit.isDup && !h.certType.isDup

def runBlocks : List (Unit → Chk) → Except Escape Verdict
  | [] => .ok .pass
  | b :: bs =>
    match b () with
    | .error e => .error e
    | .ok (some (d, m)) => .ok (.alert d m)
    | .ok none => runBlocks bs

/-- the certificate-type test that follows cipher suite selection, on its own (the statements between
    the record_size_limit check and this one are not modelled) -/
def certTypeCheck (s : SrvSettings) (h : CH) : Except Escape Verdict := runBlocks [fun _ => chkCertTypes s h]

/-- ClientHello checks: a parse error (SyntaxError -> decode_error, duplicated extension type ->
    illegal_parameter) is answered by `_getMsg` before any of them -/
def chChecks (s : SrvSettings) (h : CH) : Except Escape Verdict :=
  if h.parseError then .ok (.alert dDecodeError "parse")
  -- `_reject_duplicate_extensions` in ClientHello.parse: TLSIllegalParameterException -> `_getMsg`
  else if !h.noDup then .ok (.alert dIllegalParameter "parse-duplicate")
  else runBlocks (chBlocks s h)

/-! ### ServerHello -/

structure SH where
  parseError : Bool
  serverVersion : Ver
  supportedVersions : Ext Ver            -- server form: always a version once parsed
  aligned : Bool                         -- the defragmenter is empty after the ServerHello
  hrrCipherMismatch : Bool               -- hello_retry and hello_retry.cipher_suite != serverHello.cipher_suite
  sessionIdEchoed : Bool
  cipherOffered : Bool                   -- cipher_suite in the client's list filtered for the version
  certTypeOffered : Bool
  compressionNull : Bool
  tack : Bool
  npn : Bool
  ems : Ext Unit
  alpn : Ext (List Nat)                  -- name lengths; membership in the client's list below
  alpnFirstOffered : Bool
  heartbeat : Ext Nat
  ecPointFormats : Ext (Option (List Nat))
  recordSizeLimit : Ext (Option Nat)
  keyShare : Ext (Option Nat)            -- server_share: None when the body is empty, else its group
  psk : Ext (Option Nat)                 -- selected identity: None when the body is empty
  deriving Repr

structure CliState where
  minVersion : Ver
  maxVersion : Ver
  versions : List Ver
  requireEms : Bool
  sentTack : Bool
  sentNpn : Bool
  sentAlpn : Bool
  useHeartbeat : Bool
  heartbeatCallback : Bool
  sharesSent : Option (List Nat)         -- groups of the key_share extension in our ClientHello, if any
  pskIdsSent : Option Nat                -- number of identities in our pre_shared_key extension, if any
  deriving Repr

def shRealVersion (h : SH) : Except Escape Ver :=
  if 0x0303 ≤ h.serverVersion then
    match getExt h.supportedVersions with
    | .error e => .error e
    | .ok none => .ok h.serverVersion
    | .ok (some v) => .ok v
  else .ok h.serverVersion

def shkVersion (c : CliState) (h : SH) : Chk :=
  match shRealVersion h with
  | .error e => .error e
  | .ok rv =>
    alertIf (0x0303 < rv && !h.aligned) dUnexpectedMessage "ServerHello not aligned with record boundary" <|
    alertIf h.hrrCipherMismatch dIllegalParameter "server selected different cipher in HRR and Server Hello" <|
    alertIf (rv < c.minVersion) dProtocolVersion "Too old version" <|
    alertIf (c.maxVersion < rv && !c.versions.contains rv) dProtocolVersion "Too new version" <|
    alertIf (0x0303 < rv && !h.sessionIdEchoed) dIllegalParameter
      "Received ServerHello session_id does not match the one in ClientHello" done

def shkBasics (c : CliState) (h : SH) : Chk :=
  alertIf (!h.cipherOffered) dIllegalParameter "Server responded with incorrect ciphersuite" <|
  alertIf (!h.certTypeOffered) dIllegalParameter "Server responded with incorrect certificate type" <|
  alertIf (!h.compressionNull) dIllegalParameter "Server responded with incorrect compression method" <|
  alertIf (h.tack && !c.sentTack) dIllegalParameter "Server responded with unrequested Tack Extension" <|
  alertIf (h.npn && !c.sentNpn) dIllegalParameter "Server responded with unrequested NPN Extension" done

def shkEms (c : CliState) (h : SH) : Chk :=
  match shRealVersion h with
  | .error x => .error x
  | .ok rv =>
    withExt h.ems fun e =>
    alertIf (e.isNone && c.requireEms && rv < 0x0304) dInsufficientSecurity
      "Negotiation of Extended master Secret failed" done

def shkAlpn (c : CliState) (h : SH) : Chk :=
  withExt h.alpn fun e =>
  match e with
  | none => done
  | some names =>
    alertIf (names.length != 1) dIllegalParameter "Server responded with invalid ALPN extension" <|
    alertIf (!c.sentAlpn) dUnsupportedExtension "Server sent ALPN extension without one in client hello" <|
    match names with
    | [] => .error (.py .indexError "alpnExt.protocol_names[0]")        -- unreachable: length checked
    | _ :: _ => alertIf (!h.alpnFirstOffered) dIllegalParameter
        "Server selected ALPN protocol we did not advertise" done

def shkHeartbeat (c : CliState) (h : SH) : Chk :=
  withExt h.heartbeat fun e =>
  match e with
  | none => done
  | some m =>
    alertIf (!c.useHeartbeat) dUnsupportedExtension "Server sent Heartbeat extension without one in client hello" <|
    alertIf (!(m == 1 && c.heartbeatCallback) && !(m == 2 || !c.heartbeatCallback)) dIllegalParameter
      "Server responded with invalid Heartbeat extension" done

def shkEcPointFormats (h : SH) : Chk :=
  withExt h.ecPointFormats fun e =>
  match e with
  | none => done
  | some f => alertIf (optEmpty f) dDecodeError "Empty ec_point_formats extension in Server Hello" done

def shkRecordSizeLimit (h : SH) : Chk :=
  withExt h.recordSizeLimit fun e =>
  match e with
  | none => done
  | some none => .ok (some (dDecodeError, "Malformed record_size_limit extension"))
  | some (some v) => alertIf (!(64 ≤ v && v ≤ 16384)) dIllegalParameter
      "Server responed with invalid value in record_size_limit extension" done

/-- start of `_clientTLS13Handshake`: which key share / PSK the server selected.  The two `raise
    TLSIllegalParameterException` are answered by the handler around the call (illegal_parameter with
    the exception text) -/
def shkTls13 (c : CliState) (h : SH) : Chk :=
  match shRealVersion h with
  | .error e => .error e
  | .ok rv =>
    if rv ≤ 0x0303 then done else
    withExt h.keyShare fun ks =>
    withExt h.psk fun psk =>
    alertIf (ks.isNone && psk.isNone) dIllegalParameter "Server did not select PSK nor an (EC)DH group" <|
    let kexPart : Chk :=
      match ks with
      | none => done
      | some none => .ok (some (dDecodeError, "Empty key_share extension in Server Hello"))
      | some (some g) =>
        match c.sharesSent with
        | none => .ok (some (dUnsupportedExtension, "Server sent key_share extension without one in client hello"))
        | some sent => alertIf (!sent.contains g) dIllegalParameter "Server selected not advertised group." done
    match kexPart with
    | .error e => .error e
    | .ok (some a) => .ok (some a)
    | .ok none =>
      match psk with
      | none => done
      | some sel =>
        match c.pskIdsSent with
        | none => .ok (some (dUnsupportedExtension, "Server sent pre_shared_key extension without one in client hello"))
        | some n =>
          match sel with
          | none => .ok (some (dDecodeError, "Empty pre_shared_key extension in Server Hello"))
          | some i => alertIf (decide (n ≤ i)) dIllegalParameter "Server selected PSK identity we did not offer" done

def SH.noDup (h : SH) : Bool :=
  !h.supportedVersions.isDup && !h.ems.isDup && !h.alpn.isDup && !h.heartbeat.isDup &&
  !h.recordSizeLimit.isDup && !h.keyShare.isDup && !h.psk.isDup && !h.ecPointFormats.isDup

def shBlocks (c : CliState) (h : SH) : List (Unit → Chk) :=
  [ fun _ => shkVersion c h, fun _ => shkBasics c h, fun _ => shkEms c h, fun _ => shkAlpn c h,
    fun _ => shkHeartbeat c h, fun _ => shkEcPointFormats h, fun _ => shkRecordSizeLimit h,
    fun _ => shkTls13 c h ]

def shChecks (c : CliState) (h : SH) : Except Escape Verdict :=
  if h.parseError then .ok (.alert dDecodeError "parse")
  else if !h.noDup then .ok (.alert dIllegalParameter "parse-duplicate")
  else runBlocks (shBlocks c h)

/-! ## (iv) CompressedCertificate -/

/-- what a zlib stream is, as far as the accept rule can see -/
structure ZStream where
  avail : Nat          -- bytes the stream would produce if decompressed without limit
  complete : Bool      -- it ends with a proper end-of-stream marker
  corrupt : Bool       -- zlib.error before `avail` bytes are out
  deriving Repr

structure Decomp where
  accepted : Bool
  produced : Nat       -- length of the output buffer that was materialised
  alert : Option Desc
  deriving DecidableEq, Repr

/-- `CompressedCertificate.parse` + `_decompress` for zlib: `declared` is the 3-byte
    uncompressed_length, `clen` the length of the compressed field -/
def decompress (declared clen : Nat) (known : Bool) (z : ZStream) : Decomp :=
  if clen == 0 then ⟨false, 0, some dDecodeError⟩
  else if !known then ⟨false, 0, some dIllegalParameter⟩
  else if z.corrupt then ⟨false, 0, some dBadCertificate⟩
  else
    -- decompressobj(15).decompress(data, declared + 1)
    let out := min z.avail (declared + 1)
    let eof := z.complete && z.avail < declared + 1
    if out ≤ declared && !eof then ⟨false, out, some dBadCertificate⟩     -- "Truncated compressed data"
    else if out != declared then ⟨false, out, some dBadCertificate⟩
    else ⟨true, out, none⟩

/-- the call as it was before the fix: `zlib.decompress(data, 15, declared)` — the third argument is
    the initial buffer size, the whole stream is inflated -/
def decompressOld (declared clen : Nat) (known : Bool) (z : ZStream) : Decomp :=
  if clen == 0 then ⟨false, 0, some dDecodeError⟩
  else if !known then ⟨false, 0, some dIllegalParameter⟩
  else if z.corrupt || !z.complete then ⟨false, 0, some dBadCertificate⟩
  else if z.avail != declared then ⟨false, z.avail, some dBadCertificate⟩
  else ⟨true, z.avail, none⟩

end Tls.ErrPath
