import TlsModel.Record
import TlsModel.Gen.Record
/-
  Hand-written side of the tie by regeneration (C01 / C02).

  `TlsModel/Gen/Record.lean` is rewritten on every run from the Python AST of recordlayer.py /
  tlsrecordlayer.py: tables, statement orders and expression texts.  This file gives that data a
  meaning in terms of the record-layer model `Tls.Rec` through CLOSED recognition tables: a text
  the table does not know is `none`, so an edited source makes the obligations of Props/C01.lean and
  Props/C02.lean (`gen_*`) false instead of being guessed at.
-/
namespace Tls.Rec.Tie
open Tls.Gen

/-! ### cipher / MAC parameter tables -/

/-- what the model needs to know about a bulk-cipher constructor -/
structure Shape where
  cipher : Cipher
  /-- `encContext.block_size` of the object (1 when not a block cipher) -/
  bs : Nat
  nameHasAes : Bool
  nameIsChacha : Bool
  deriving DecidableEq, Repr

/-- the constructors of utils/cipherfactory.py the record layer can be handed -/
def shapeOf : String → Option Shape
  | "createAESGCM" => some ⟨.aead, 1, true, false⟩
  | "createAESCCM" => some ⟨.aead, 1, true, false⟩
  | "createAESCCM_8" => some ⟨.aead, 1, true, false⟩
  | "createCHACHA20" => some ⟨.aead, 1, false, true⟩
  | "createAES" => some ⟨.block, 16, true, false⟩
  | "createTripleDES" => some ⟨.block, 8, false, false⟩
  | "createRC4" => some ⟨.stream, 1, false, false⟩
  | "None" => some ⟨.null, 1, false, false⟩
  | _ => none

def tagOf (ctor : String) : Option Nat :=
  if ctor == "None" then some 0 else (Record.tagTable.find? (·.1 == ctor)).map (·.2.1)

/-- one generated cipher row, classified: (suite list, key length, IV length, shape, tag length) -/
def cipherRows : Option (List (String × Nat × Nat × Shape × Nat)) :=
  Record.cipherTable.mapM fun r => do
    let sh ← shapeOf r.2.2.2
    let tg ← tagOf r.2.2.2
    some (r.1, r.2.1, r.2.2.1, sh, tg)

/-- the table the model is instantiated with (hand-written; compared with `cipherRows`) -/
def modelCipherRows : List (String × Nat × Nat × Shape × Nat) :=
  [("aes256GcmSuites", 32, 4, ⟨.aead, 1, true, false⟩, 16),
   ("aes128GcmSuites", 16, 4, ⟨.aead, 1, true, false⟩, 16),
   ("aes256Ccm_8Suites", 32, 4, ⟨.aead, 1, true, false⟩, 8),
   ("aes256CcmSuites", 32, 4, ⟨.aead, 1, true, false⟩, 16),
   ("aes128Ccm_8Suites", 16, 4, ⟨.aead, 1, true, false⟩, 8),
   ("aes128CcmSuites", 16, 4, ⟨.aead, 1, true, false⟩, 16),
   ("chacha20Suites", 32, 12, ⟨.aead, 1, false, true⟩, 16),
   ("chacha20draft00Suites", 32, 4, ⟨.aead, 1, false, true⟩, 16),
   ("aes128Suites", 16, 16, ⟨.block, 16, true, false⟩, 0),
   ("aes256Suites", 32, 16, ⟨.block, 16, true, false⟩, 0),
   ("rc4Suites", 16, 0, ⟨.stream, 1, false, false⟩, 0),
   ("tripleDESSuites", 24, 8, ⟨.block, 8, false, false⟩, 0),
   ("nullSuites", 0, 0, ⟨.null, 1, false, false⟩, 0)]

def modelMacRows : List (String × Nat × String) :=
  [("aeadSuites", 0, "None"), ("shaSuites", 20, "hashlib.sha1"), ("sha256Suites", 32, "hashlib.sha256"),
   ("sha384Suites", 48, "hashlib.sha384"), ("md5Suites", 16, "hashlib.md5")]

/-- SSLv3 uses the SSL MAC, TLS 1.0–1.2 HMAC (the model's `MacAlg` is either, keyed) -/
def modelHmacRows : List (String × String) :=
  [("assert version in ((3, 0), (3, 1), (3, 2), (3, 3))", ""), ("version == (3, 0)", "createMAC_SSL"),
   ("version in ((3, 1), (3, 2), (3, 3))", "createHMAC"), ("return", "createMACFunc")]

/-- the numeric side conditions of `unprotect_protect` / `recordCodec_lawful` (`hov`, `htag`, `hivl`
    with `fixedIV` of `ivLength` bytes), for one cipher row and one MAC row -/
def rowSideConditions (c : String × Nat × Nat × Shape × Nat) (m : String × Nat × String) : Bool :=
  let bs := c.2.2.2.1.bs
  let tag := c.2.2.2.2
  decide (m.2.1 + 2 * bs + tag + 8 ≤ 2048) && decide (tag ≤ 255) && decide (m.2.1 < 2 ^ 29) &&
  -- CBC: the IV block (`getRandomBytes(ivLength)`) is one cipher block; `block_size ≤ 256`
  (c.2.2.2.1.cipher != .block || (c.2.2.1 == bs && decide (0 < bs) && decide (bs ≤ 256))) &&
  -- XOR nonce (12-byte ChaCha20 IV): at least the 8 bytes of the sequence number
  (!(c.2.2.2.1.nameIsChacha && c.2.2.1 == 12) || decide (8 ≤ c.2.2.1))

/-! ### key block -/

/-- byte ranges (offset, length) of the `getFixBytes` slices for given lengths -/
def sliceRanges (slices : List (String × String)) (mac key iv : Nat) : Option (List (String × Nat × Nat)) :=
  let rec go (l : List (String × String)) (off : Nat) : Option (List (String × Nat × Nat)) :=
    match l with
    | [] => some []
    | (nm, len) :: rest => do
      let n ← (match len with
        | "macLength" => some mac | "keyLength" => some key | "ivLength" => some iv | _ => none)
      let tl ← go rest (off + n)
      some ((nm, off, n) :: tl)
  match slices with
  | ("parser", "Parser(keyBlock)") :: rest => go rest 0
  | _ => none

/-- RFC 5246 §6.3 order: client MAC, server MAC, client key, server key, client IV, server IV -/
def modelSliceRanges (mac key iv : Nat) : List (String × Nat × Nat) :=
  [("clientMACBlock", 0, mac), ("serverMACBlock", mac, mac), ("clientKeyBlock", 2 * mac, key),
   ("serverKeyBlock", 2 * mac + key, key), ("clientIVBlock", 2 * mac + 2 * key, iv),
   ("serverIVBlock", 2 * mac + 2 * key + iv, iv)]

def modelKeyBlockFields : List (String × String) :=
  [("clientPendingState.encContext", "createCipherFunc(clientKeyBlock, clientIVBlock, implementations)"),
   ("clientPendingState.encContext", "createCipherFunc(clientKeyBlock, implementations)"),
   ("clientPendingState.fixedNonce", "clientIVBlock"),
   ("clientPendingState.macContext", "None"),
   ("clientPendingState.macContext", "createMACFunc(compatHMAC(clientMACBlock), digestmod=digestmod)"),
   ("serverPendingState.encContext", "createCipherFunc(serverKeyBlock, implementations)"),
   ("serverPendingState.encContext", "createCipherFunc(serverKeyBlock, serverIVBlock, implementations)"),
   ("serverPendingState.fixedNonce", "serverIVBlock"),
   ("serverPendingState.macContext", "None"),
   ("serverPendingState.macContext", "createMACFunc(compatHMAC(serverMACBlock), digestmod=digestmod)")]

/-- (write state, read state) of a role according to a generated role table -/
def rolePair (roles : List (String × String × String)) (role : String) : Option (String × String) := do
  let w ← roles.find? fun r => r.1 == role && r.2.1 == "self._pendingWriteState"
  let r ← roles.find? fun r => r.1 == role && r.2.1 == "self._pendingReadState"
  some (w.2.2, r.2.2)

/-- each side writes with its own state and reads with the peer's: the two directions pair up
    (this is the `Sync` premise `stream_fifo` starts from) -/
def rolesPairUp (roles : List (String × String × String)) : Bool :=
  match rolePair roles "client", rolePair roles "server" with
  | some (cw, cr), some (sw, sr) => cw == "clientPendingState" && cr == "serverPendingState" && sw == cr && sr == cw
  | _, _ => false

/-! ### dispatch -/

structure SendAtoms where
  ssl2 : Bool          -- self.version in ((0, 2), (2, 0))
  gt33ccs : Bool       -- self.version > (3, 3) and contentType == change_cipher_spec
  aead : Bool          -- encContext and encContext.isAEAD
  etm : Bool           -- _writeState.encryptThenMAC
  deriving DecidableEq

inductive SendCond | ssl2 | gt33ccs | aead | etm | otherwise
  deriving DecidableEq, Repr

def sendCondOf : String → Option SendCond
  | "self.version in ((0, 2), (2, 0))" => some .ssl2
  | "self.version > (3, 3) and contentType == ContentType.change_cipher_spec" => some .gt33ccs
  | "self._writeState.encContext and self._writeState.encContext.isAEAD" => some .aead
  | "self._writeState.encryptThenMAC" => some .etm
  | "else" => some .otherwise
  | _ => none

def SendCond.eval (a : SendAtoms) : SendCond → Bool
  | .ssl2 => a.ssl2 | .gt33ccs => a.gt33ccs | .aead => a.aead | .etm => a.etm | .otherwise => true

def sendAction : String → Option String
  | "(data, padding) = self._ssl2Encrypt(data)" => some "ssl2"
  | "pass" => some "plain"
  | "data = self._encryptThenSeal(data, contentType)" => some "aead"
  | "data = self._encryptThenMAC(data, contentType)" => some "etm"
  | "data = self._macThenEncrypt(data, contentType)" => some "mte"
  | _ => none

/-- a generated (condition text, action text) chain, classified; `none` if any row is not understood -/
def classify {κ} (cond : String → Option κ) (act : String → Option String) (chain : List (String × String)) :
    Option (List (κ × String)) :=
  chain.mapM fun p => do some (← cond p.1, ← act p.2)

/-- first branch whose condition holds -/
def firstTrue {κ} (ev : κ → Bool) : List (κ × String) → Option String
  | [] => none
  | (k, x) :: rest => if ev k then some x else firstTrue ev rest

/-- the chain `sendRecord` is expected to have -/
def modelSendChain : List (SendCond × String) :=
  [(.ssl2, "ssl2"), (.gt33ccs, "plain"), (.aead, "aead"), (.etm, "etm"), (.otherwise, "mte")]

/-- the model's dispatch (`sendRecord`), on the same atoms -/
def modelSendPath (a : SendAtoms) : String :=
  if a.ssl2 then "ssl2" else if a.gt33ccs then "plain" else if a.aead then "aead" else if a.etm then "etm" else "mte"

def sendAtomsOf (c : Cfg) (t : UInt8) : SendAtoms :=
  { ssl2 := (c.vmaj == 0 && c.vmin == 2) || (c.vmaj == 2 && c.vmin == 0),
    gt33ccs := c.verGt 3 3 && t == 20, aead := c.cipher == .aead, etm := c.etm }

structure RecvAtoms where
  ssl2hdr : Bool       -- isinstance(header, RecordHeader2)
  is13 : Bool
  typ20 : Bool
  typ21 : Bool
  short : Bool         -- len(data) < 3
  paOk : Bool          -- plaintext_alerts_ok
  enc : Bool           -- _readState.encContext
  seq0 : Bool
  aead : Bool          -- encContext.isAEAD
  etm : Bool
  block : Bool         -- encContext.isBlockCipher
  deriving DecidableEq

inductive RecvCond | ssl2hdr | ccs13 | alert13 | aead | etm | block | otherwise
  deriving DecidableEq, Repr

def recvCondOf : String → Option RecvCond
  | "isinstance(header, RecordHeader2)" => some .ssl2hdr
  | "self._is_tls13_plus() and header.type == ContentType.change_cipher_spec" => some .ccs13
  | "self._is_tls13_plus() and header.type == ContentType.alert and (len(data) < 3) and self.plaintext_alerts_ok and self._readState and self._readState.encContext and (self._readState.seqnum == 0)" =>
      some .alert13
  | "self._readState and self._readState.encContext and self._readState.encContext.isAEAD" => some .aead
  | "self._readState and self._readState.encryptThenMAC" => some .etm
  | "self._readState and self._readState.encContext and self._readState.encContext.isBlockCipher" => some .block
  | "else" => some .otherwise
  | _ => none

def RecvCond.eval (a : RecvAtoms) : RecvCond → Bool
  | .ssl2hdr => a.ssl2hdr
  | .ccs13 => a.is13 && a.typ20
  | .alert13 => a.is13 && a.typ21 && a.short && a.paOk && a.enc && a.seq0
  | .aead => a.enc && a.aead
  | .etm => a.etm
  | .block => a.enc && a.block
  | .otherwise => true

def modelRecvChain : List (RecvCond × String) :=
  [(.ssl2hdr, "ssl2"), (.ccs13, "pass"), (.alert13, "pass"), (.aead, "aead"), (.etm, "etm"), (.block, "cbc"),
   (.otherwise, "stream")]

def recvAction : String → Option String
  | "if self.version not in ((2, 0), (0, 2)) and self._readState and (self._readState.encContext or self._readState.macContext): raise TLSUnexpectedMessage; data = self._decryptSSL2(data, header.padding); if self.handshake_finished: header.type = ContentType.application_data" => some "ssl2"
  | "pass" => some "pass"
  | "data = self._decryptAndUnseal(header, data)" => some "aead"
  | "data = self._macThenDecrypt(header.type, data)" => some "etm"
  | "data = self._decryptThenMAC(header.type, data)" => some "cbc"
  | "data = self._decryptStreamThenMAC(header.type, data)" => some "stream"
  | _ => none

/-- the model's `decrypt` dispatch on the same atoms (SSLv3-framed records) -/
def modelRecvPath (a : RecvAtoms) : String :=
  if a.ssl2hdr then "ssl2"
  else if a.is13 && a.typ20 then "pass"
  else if a.is13 && a.typ21 && a.short && a.paOk && a.enc && a.seq0 then "pass"
  else if a.enc && a.aead then "aead"
  else if a.etm then "etm"
  else if a.enc && a.block then "cbc"
  else "stream"

/-! ### authenticated constructions -/

/-- one `mac.update(…)` argument of calculateMAC -/
def macField (seq : Nat) (t : UInt8) (c : Cfg) (data : Bytes) : String → Option Bytes
  | "compatHMAC(seqnumBytes)" => some (seqBytes seq)
  | "compatHMAC(bytearray([contentType]))" => some [t]
  | "[self.version != (3, 0)] compatHMAC(bytearray([self.version[0]]))" =>
      some (if CT.isSsl3 c.vmaj c.vmin then [] else [UInt8.ofNat c.vmaj])
  | "[self.version != (3, 0)] compatHMAC(bytearray([self.version[1]]))" =>
      some (if CT.isSsl3 c.vmaj c.vmin then [] else [UInt8.ofNat c.vmin])
  | "compatHMAC(bytearray([len(data) // 256]))" => some [UInt8.ofNat (data.length / 256)]
  | "compatHMAC(bytearray([len(data) % 256]))" => some [UInt8.ofNat (data.length % 256)]
  | "compatHMAC(data)" => some data
  | _ => none

def interpMac (fields : List String) (seq : Nat) (t : UInt8) (c : Cfg) (data : Bytes) : Option Bytes :=
  (fields.mapM (macField seq t c data)).map List.flatten

/-- the additional-data expressions of `_encryptThenSeal` / `_decryptAndUnseal` -/
inductive AadKind | tls12 | tls13 | headerWrite
  deriving DecidableEq, Repr

def aadKindOf : String → Option AadKind
  | "[not self._is_tls13_plus()] seqNumBytes + bytearray([contentType, self.version[0], self.version[1], len(buf) // 256, len(buf) % 256])" => some .tls12
  | "[not self._is_tls13_plus()] seqnumBytes + bytearray([header.type, self.version[0], self.version[1], plaintextLen // 256, plaintextLen % 256])" => some .tls12
  | "[not(not self._is_tls13_plus())] bytearray([contentType, self._recordSocket.version[0], self._recordSocket.version[1], out_len // 256, out_len % 256])" => some .tls13
  | "[not(not self._is_tls13_plus())] header.write()" => some .headerWrite
  | _ => none

/-- the bytes such an expression builds; `plen` is the length it puts into the last two bytes, `hv` the
    version bytes of the header in hand (`RecordHeader3.write()`: type, version, length) -/
def AadKind.eval (seq : Nat) (t : UInt8) (c : Cfg) (hv : Nat × Nat) (plen : Nat) : AadKind → Bytes
  | .tls12 => seqBytes seq ++ [t, UInt8.ofNat c.vmaj, UInt8.ofNat c.vmin, UInt8.ofNat (plen / 256), UInt8.ofNat (plen % 256)]
  | .tls13 => [t, UInt8.ofNat c.recVer.1, UInt8.ofNat c.recVer.2, UInt8.ofNat (plen / 256), UInt8.ofNat (plen % 256)]
  | .headerWrite => [t, UInt8.ofNat hv.1, UInt8.ofNat hv.2, UInt8.ofNat (plen / 256), UInt8.ofNat (plen % 256)]

/-- `_getNonce` is recognised as: condition, XOR construction with zero pad of len(fixed) - 8, else concatenation -/
def nonceRecognised (cond exprs : List String) : Bool :=
  cond == ["state.encContext.name == 'chacha20-poly1305' and len(state.fixedNonce) == 12 or self._is_tls13_plus()"] &&
  exprs == ["[state.encContext.name == 'chacha20-poly1305' and len(state.fixedNonce) == 12 or self._is_tls13_plus()] bytearray((i ^ j for i, j in zip(pad + seqnum, state.fixedNonce)))",
     "[not(state.encContext.name == 'chacha20-poly1305' and len(state.fixedNonce) == 12 or self._is_tls13_plus())] state.fixedNonce + seqnum",
     "[state.encContext.name == 'chacha20-poly1305' and len(state.fixedNonce) == 12 or self._is_tls13_plus()] bytearray(len(state.fixedNonce) - len(seqnum))"]

/-- what the recognised `_getNonce` computes (`bytearray(n)` raises for negative n) -/
def nonceRecognisedEval (c : Cfg) (seq : Nat) : Option Bytes :=
  if (c.nameIsChacha && c.fixedNonce.length == 12) || c.is13 then
    if c.fixedNonce.length < 8 then none
    else some (xorBytes (zeros (c.fixedNonce.length - 8) ++ seqBytes seq) c.fixedNonce)
  else some (c.fixedNonce ++ seqBytes seq)

/-! ### TLS 1.3 key update -/

/-- symbolic evaluation of `_calcTLS1_3KeyUpdate` over an abstract `HKDF-Expand-Label`:
    returns (secret returned to the caller, secret the key is derived from, secret the IV is derived
    from, the new state is a fresh ConnectionState) -/
def keyUpdateEval {α} (H : α → String → α) (appSecret : α) (rows : List (String × String × String)) :
    Option (α × α × α × Bool) :=
  let rec go (l : List (String × String × String)) (newSecret keySrc ivSrc : Option α) (fresh : Bool) :
      Option (α × α × α × Bool) :=
    match l with
    | [] => none
    | (fn, tgt, val) :: rest =>
      if fn != "_calcTLS1_3KeyUpdate" then go rest newSecret keySrc ivSrc fresh
      else match tgt, val with
        | "(prf_name, prf_length)", "('sha384', 48) if cipherSuite in CipherSuite.sha384PrfSuites else ('sha256', 32)" =>
            go rest newSecret keySrc ivSrc fresh
        | "(key_length, iv_length, cipher_func)", "self._getCipherSettings(cipherSuite)" => go rest newSecret keySrc ivSrc fresh
        | "iv_length", "12" => go rest newSecret keySrc ivSrc fresh
        | "new_app_secret", "HKDF_expand_label(app_secret, b'traffic upd', b'', prf_length, prf_name)" =>
            go rest (some (H appSecret "traffic upd")) keySrc ivSrc fresh
        | "new_state", "ConnectionState()" => go rest newSecret keySrc ivSrc true
        | "new_state.macContext", "None" => go rest newSecret keySrc ivSrc fresh
        | "new_state.encContext", "cipher_func(HKDF_expand_label(new_app_secret, b'key', b'', key_length, prf_name), None)" =>
            go rest newSecret newSecret ivSrc fresh
        | "new_state.fixedNonce", "HKDF_expand_label(new_app_secret, b'iv', b'', iv_length, prf_name)" =>
            go rest newSecret keySrc newSecret fresh
        | "return", "(new_app_secret, new_state)" => do
            some (← newSecret, ← keySrc, ← ivSrc, fresh)
        | _, _ => none
  go rows none none none false

/-- per role: (which secret `calcTLS1_3KeyUpdate_*` ratchets, which state it replaces, what it returns) -/
def keyUpdateRoles : List (String × String × String) :=
  Record.keyUpdate.filter fun r => r.1 != "_calcTLS1_3KeyUpdate"

def modelKeyUpdateRoles : List (String × String × String) :=
  [("calcTLS1_3KeyUpdate_sender:client", "(new_sr_app_secret, server_state)", "self._calcTLS1_3KeyUpdate(cipherSuite, sr_app_secret)"),
   ("calcTLS1_3KeyUpdate_sender:client", "self._readState", "server_state"),
   ("calcTLS1_3KeyUpdate_sender:client", "return", "(cl_app_secret, new_sr_app_secret)"),
   ("calcTLS1_3KeyUpdate_sender:server", "(new_cl_app_secret, client_state)", "self._calcTLS1_3KeyUpdate(cipherSuite, cl_app_secret)"),
   ("calcTLS1_3KeyUpdate_sender:server", "self._readState", "client_state"),
   ("calcTLS1_3KeyUpdate_sender:server", "return", "(new_cl_app_secret, sr_app_secret)"),
   ("calcTLS1_3KeyUpdate_reciever:client", "(new_cl_app_secret, client_state)", "self._calcTLS1_3KeyUpdate(cipherSuite, cl_app_secret)"),
   ("calcTLS1_3KeyUpdate_reciever:client", "self._writeState", "client_state"),
   ("calcTLS1_3KeyUpdate_reciever:client", "return", "(new_cl_app_secret, sr_app_secret)"),
   ("calcTLS1_3KeyUpdate_reciever:server", "(new_sr_app_secret, server_state)", "self._calcTLS1_3KeyUpdate(cipherSuite, sr_app_secret)"),
   ("calcTLS1_3KeyUpdate_reciever:server", "self._writeState", "server_state"),
   ("calcTLS1_3KeyUpdate_reciever:server", "return", "(cl_app_secret, new_sr_app_secret)")]

def modelTls13States : List (String × String) :=
  [("prf_name", "'sha384' if cipherSuite in CipherSuite.sha384PrfSuites else 'sha256'"),
   ("(key_length, iv_length, cipher_func)", "self._getCipherSettings(cipherSuite)"),
   ("iv_length", "12"),
   ("clientPendingState", "ConnectionState()"),
   ("serverPendingState", "ConnectionState()"),
   ("clientPendingState.macContext", "None"),
   ("clientPendingState.encContext", "cipher_func(HKDF_expand_label(cl_traffic_secret, b'key', b'', key_length, prf_name), implementations)"),
   ("clientPendingState.fixedNonce", "HKDF_expand_label(cl_traffic_secret, b'iv', b'', iv_length, prf_name)"),
   ("serverPendingState.macContext", "None"),
   ("serverPendingState.encContext", "cipher_func(HKDF_expand_label(sr_traffic_secret, b'key', b'', key_length, prf_name), implementations)"),
   ("serverPendingState.fixedNonce", "HKDF_expand_label(sr_traffic_secret, b'iv', b'', iv_length, prf_name)")]

/-! ### sequence numbers, limits, fragmentation: normal forms the model mirrors -/

/-- each protect / unprotect function draws exactly one sequence number from the state of its
    direction, under the guard the model has (`protMte…`/`protEtm`: only with a MAC; `decStream`: only
    when the body is long enough; AEAD: always) -/
def modelSeqUse : List (String × String) :=
  [("getSeqNumBytes", "writer = Writer(); writer.add(self.seqnum, 8); self.seqnum += 1; return writer.bytes"),
   ("_macThenEncrypt", "self._writeState.getSeqNumBytes if self._writeState.macContext"),
   ("_encryptThenMAC", "self._writeState.getSeqNumBytes if self._writeState.macContext"),
   ("_encryptThenSeal", "self._writeState.getSeqNumBytes"),
   ("_ssl2Encrypt", "self._writeState.getSeqNumBytes"),
   ("_decryptStreamThenMAC", "self._readState.getSeqNumBytes if self._readState.macContext & not(endLength > len(data))"),
   ("_decryptThenMAC", "self._readState.getSeqNumBytes if self._readState.encContext"),
   ("_macThenDecrypt", "self._readState.getSeqNumBytes if self._readState.macContext"),
   ("_decryptAndUnseal", "self._readState.getSeqNumBytes"),
   ("_decryptSSL2", "self._readState.getSeqNumBytes")]

/-- allowance of a `len > limit + …` test -/
def allowance : String → Option (String × Nat)
  | "record.length > self.recv_record_limit + 1024 + 1024" => some ("wire", 1024 + 1024)
  | "self.tls13record and record.length > self.recv_record_limit + 256" => some ("wire13", 256)
  | "len(data) > self.recv_record_limit + 1" => some ("inner13", 1)
  | "len(data) > self.recv_record_limit" => some ("plain", 0)
  | _ => none

def allowances : Option (List (String × Nat)) :=
  (Record.sizeChecks.filter fun r => r.2.2 == "TLSRecordOverflow").mapM fun r => allowance r.2.1

def allowOf (k : String) : Option Nat := do
  let l ← allowances
  (l.find? (·.1 == k)).map (·.2)

def modelFragmentation : List String :=
  ["if randomizeFirstBlock and self.version <= (3, 1) and self._recordLayer.isCBCMode() and (msg.contentType == ContentType.application_data): msgFirstByte = msg.splitFirstByte(); for result in self._sendMsgThroughSocket(msgFirstByte): yield result; if len(msg.write()) == 0: return",
   "buf = msg.write()", "contentType = msg.contentType",
   "if update_hashes and contentType == ContentType.handshake: self._handshake_hash.update(buf)",
   "while len(buf) > self.recordSize: newB = buf[:self.recordSize]; buf = buf[self.recordSize:]; msgFragment = Message(contentType, newB); for: self._sendMsgThroughSocket(msgFragment)",
   "msgFragment = Message(contentType, buf)", "for: self._sendMsgThroughSocket(msgFragment)",
   "recordSize: return min(self._user_record_limit, self._send_record_limit)"]

def modelRecvPost : List String :=
  ["self.early_data_ok = False",
   "if self._is_tls13_plus() and self._readState and self._readState.encContext and (header.type == ContentType.application_data): if len(data) > self.recv_record_limit + 1: raise TLSRecordOverflow; (data, contentType) = self._tls13_de_pad(data); header = RecordHeader3().create((3, 4), contentType, len(data))",
   "if len(data) > self.recv_record_limit: raise TLSRecordOverflow", "yield (header, Parser(data))"]

def modelRecvAfterDispatch : List String :=
  ["if not self._readState.encContext and (not self._readState.macContext) and self.early_data_ok and (header.type == ContentType.application_data): raise TLSBadRecordMAC",
   "HANDLERS",
   "except TLSBadRecordMAC => if self.early_data_ok and self._early_data_processed + len(data) < self.max_early_data: self._early_data_processed += len(data); self._readState = read_state_copy; continue; raise"]

def modelSendWrap : String :=
  "self._is_tls13_plus() and self._writeState.encContext and (contentType != ContentType.change_cipher_spec)"

def modelSendWrapBody : List String :=
  ["data += bytearray([contentType])",
   "if self.padding_cb: max_padding = self.send_record_limit + 1 - len(data); data += bytearray(self.padding_cb(len(data), contentType, max_padding))",
   "contentType = ContentType.application_data"]

end Tls.Rec.Tie
