import TlsModel.Conn
/-
  Fragment level of the connection model: what is on the wire when `_sendMsg` splits a message that
  is longer than the record size limit (recordSize, record_size_limit extension) over several
  records, and what `_getNextRecord` + the defragmenter + the checks of `_getMsg` make of a sequence
  of such records.

  A handshake message of n >= 2 pieces travels as `part m 0 n`, ..., `part m (n-1) n`, all protected
  under the generation current when `_sendMsg` was called (the write generation only moves after
  the whole KeyUpdate is out).  Application data is already fragmented at message level
  (`appRecords`); alerts and heartbeats travel whole.
-/
namespace Tls.Conn

inductive Piece where
  | whole (m : Msg)
  | part (m : Msg) (i n : Nat)        -- i-th (0-based) of n pieces of handshake message m
deriving DecidableEq, Repr, Inhabited

structure Frag where
  gen : Nat
  piece : Piece
deriving DecidableEq, Repr, Inhabited

/-- pieces `i, i+1, ..., n-1` of `m`, all under generation `g` -/
def partsFrom (g : Nat) (m : Msg) (n : Nat) : Nat → Nat → List Frag
  | 0, _ => []
  | k+1, i => ⟨g, .part m i n⟩ :: partsFrom g m n k (i + 1)

/-- the records `_sendMsg` produces for one message when it needs `nf m` pieces (only handshake
    messages are reassembled by the receiver; everything else is sent whole here) -/
def fragRec (nf : Msg → Nat) (r : Rec) : List Frag :=
  if r.msg.ct == 22 && 2 ≤ nf r.msg then partsFrom r.gen r.msg (nf r.msg) (nf r.msg) 0
  else [⟨r.gen, .whole r.msg⟩]

/-- defragmenter state: the handshake message being collected and the index of the next piece -/
abbrev Pend := Option (Msg × Nat)

/-- one record through `_getNextRecord` / defragmenter / the TLS 1.3 interleaving check of `_getMsg`:
    `.error d` = fatal alert d, otherwise the new defragmenter state and the message completed by
    this record, if any (with the generation of the record that completed it) -/
def feed (ver13 : Bool) (p : Pend) (f : Frag) : Except Nat (Pend × Option Rec) :=
  match f.piece with
  | .whole m =>
    match p with
    | none => .ok (none, some ⟨f.gen, m⟩)
    | some _ =>
      if m.ct != 22 then
        -- "Interleaved Handshake and non-handshake messages" (TLS 1.3); earlier versions let it through
        if ver13 then .error 10 else .ok (p, some ⟨f.gen, m⟩)
      else .error 50                                   -- bytes of two messages run together: does not parse
  | .part m i n =>
    if m.ct != 22 then .error 50
    else match p with
      | none => if i == 0 && 2 ≤ n then .ok (some (m, 1), none) else .error 50
      | some (m', k) =>
        if m' == m && i == k then
          if k + 1 == n then .ok (none, some ⟨f.gen, m⟩) else .ok (some (m, k + 1), none)
        else .error 50

/-- a sequence of records: the messages that come out, in order, and the final defragmenter state -/
def reasm (ver13 : Bool) : Pend → List Frag → Except Nat (List Rec × Pend)
  | p, [] => .ok ([], p)
  | p, f :: fs =>
    match feed ver13 p f with
    | .error d => .error d
    | .ok (p', out) =>
      match reasm ver13 p' fs with
      | .error d => .error d
      | .ok (rs, pf) => .ok ((match out with | some r => [r] | none => []) ++ rs, pf)

end Tls.Conn
