import TlsModel.CT
/-
  A small model of the Python runtime as far as tlslite/utils/constanttime.py uses it; target
  language of translate/gen_ct.py (generated module TlsModel/Gen/CT.lean).  Core Lean only.

  * Python `int` = `Int`.  `+`, `-`, unary `-`, `*`, comparisons are the `Int` operations.
    `&`, `|`, `^`, `~` are Python's: two's complement with infinite sign extension, defined here
    by cases on the sign (`Int.negSucc n` = `-(n+1)` = `~n`) through the `Nat` bit operations.
    `x << k` = `x * 2^k`, `x >> k` = `⌊x / 2^k⌋`; a negative shift count raises ValueError,
    `a // 0` raises ZeroDivisionError.
  * Everything that can raise returns `Option`; `none` = "an exception was raised" and also
    `poison`, which the translator emits for every construct it does not understand, so that an
    equality `Gen.f … = some …` fails instead of passing silently.
  * `bytearray`/`bytes` = `Tls.Bytes`; indexing is Python's (negative indices count from the end,
    out of range raises IndexError); slices clamp like Python's.
  * An hmac object = the keyed algorithm (`MacAlg`) and the bytes fed so far; `copy()` is a fresh
    object with the same accumulated input, `update(b)` appends, `digest()` is `alg.digest acc`.
  The integer operations are compared with the running interpreter on boundary and random
  operands of both signs by harness/props/c12.py (stream `pyint`).
-/
namespace Tls.Py
open Tls Tls.CT

/-- what the translator emits for a construct it does not understand -/
def poison {α : Type} : Option α := none

/-- Python `a & b` -/
def band : Int → Int → Int
  | .ofNat a, .ofNat b => .ofNat (a &&& b)
  | .ofNat a, .negSucc n => .ofNat (a ^^^ (a &&& n))
  | .negSucc m, .ofNat b => .ofNat (b ^^^ (b &&& m))
  | .negSucc m, .negSucc n => .negSucc (m ||| n)

/-- Python `a | b` -/
def bor : Int → Int → Int
  | .ofNat a, .ofNat b => .ofNat (a ||| b)
  | .ofNat a, .negSucc n => .negSucc (n ^^^ (n &&& a))
  | .negSucc m, .ofNat b => .negSucc (m ^^^ (m &&& b))
  | .negSucc m, .negSucc n => .negSucc (m &&& n)

/-- Python `a ^ b` -/
def bxor : Int → Int → Int
  | .ofNat a, .ofNat b => .ofNat (a ^^^ b)
  | .ofNat a, .negSucc n => .negSucc (a ^^^ n)
  | .negSucc m, .ofNat b => .negSucc (m ^^^ b)
  | .negSucc m, .negSucc n => .ofNat (m ^^^ n)

/-- Python `~a` -/
def bnot (a : Int) : Int := -a - 1

/-- `x << k` for a literal, non-negative `k` -/
def shl (x : Int) (k : Nat) : Int := x * 2 ^ k

/-- `x >> k` for a literal, non-negative `k` (floor: `-1 >> 1 = -1`) -/
def shr (x : Int) (k : Nat) : Int := x / 2 ^ k

/-- `x << n` with a computed count -/
def lshift (x n : Int) : Option Int := if n < 0 then none else some (shl x n.toNat)

/-- `x >> n` with a computed count -/
def rshift (x n : Int) : Option Int := if n < 0 then none else some (shr x n.toNat)

/-- `a // b` -/
def floordiv (a b : Int) : Option Int := if b = 0 then none else some (Int.fdiv a b)

/-- `max(a, b)`, `min(a, b)` on ints -/
def max2 (a b : Int) : Int := if a < b then b else a
def min2 (a b : Int) : Int := if b < a then b else a

/-- `assert c` -/
def guard (c : Bool) : Option Unit := if c then some () else none

/-- `len(d)` -/
def len (d : Bytes) : Int := d.length

/-- `d[i]` -/
def getItem (d : Bytes) (i : Int) : Option Int :=
  let j := if i < 0 then i + d.length else i
  if j < 0 then none else (d[j.toNat]?).map fun b => (b.toNat : Int)

/-- position a slice bound denotes in a sequence of length `n` -/
def sliceBound (n : Nat) (i : Int) : Nat :=
  if i < 0 then (i + n).toNat else if i.toNat < n then i.toNat else n

/-- `d[lo:hi]` (either bound may be absent) -/
def slice (d : Bytes) (lo hi : Option Int) : Bytes :=
  let a := match lo with | none => 0 | some i => sliceBound d.length i
  let b := match hi with | none => d.length | some i => sliceBound d.length i
  (d.drop a).take (b - a)

/-- `range(a, b)` -/
def range (a b : Int) : List Int := (List.range' 0 (b - a).toNat).map fun (k : Nat) => a + (k : Int)

/-- `for i in l: s = body(i, s)` where the body may raise -/
def forIn {σ : Type} (l : List Int) (init : σ) (body : Int → σ → Option σ) : Option σ :=
  l.foldlM (fun s i => body i s) init

/-- `bytearray([v0, v1, …])`: ValueError unless every `v` is in `range(256)` -/
def bytearrayOfInts (l : List Int) : Option Bytes :=
  l.mapM fun v => if 0 ≤ v ∧ v < 256 then some (UInt8.ofNat v.toNat) else none

/-- an hmac-like object: keyed algorithm and the input accumulated so far -/
structure MacObj where
  alg : MacAlg
  acc : Bytes

def macDigestSize (m : MacObj) : Int := m.alg.dlen
def macBlockSize (m : MacObj) : Int := m.alg.blockSize
def macCopy (m : MacObj) : MacObj := m
def macUpdate (m : MacObj) (b : Bytes) : MacObj := { m with acc := m.acc ++ b }
def macDigest (m : MacObj) : Bytes := m.alg.digest m.acc

end Tls.Py
