import TlsModel.PyInt
import TlsModel.RsaDecrypt
/-
  Python-runtime model, part 2: exceptions that can be caught, `while`, iterators, and the objects
  tlslite/utils/rsakey.py (RSAKey.decrypt and its helpers) and RSAKeyExchange.processClientKeyExchange
  work on.  Target language of translate/gen_rsadecrypt.py (generated module
  TlsModel/Gen/RsaDecrypt.lean); core Lean only.  Int operations, bytearray indexing and slicing
  come from TlsModel/PyInt.lean (`Tls.Py`); their `Option` results lift into `M` as `Err.other`.

  * `M α = Except Err α`: `Err.valueError`, `.assertionError`, `.stopIteration` are Python's
    exceptions of that name; `.other` is any other exception (IndexError, ZeroDivisionError,
    AttributeError, OverflowError, …) *and poison* — `try … except ValueError` never catches it;
    `.fuel`: a `while` loop still running after `fuel` iterations (the generated functions take the
    bound as a parameter; the theorems hold for every sufficiently large bound).
  * iterators are the list of the items not yet consumed: `iter(b)`, `enumerate(b)`, `next(it)`,
    `zip(it, it)` (consecutive pairs from one iterator), `zip(a, b)`.
  * `self` of an RSAKey: the attributes decrypt reads (`n`, `d`, `key_type`, `hasPrivateKey()`,
    the cached `_key_hash`, absent = `none`) and, as parameters, what it calls out to:
    `_rawPrivateKeyOp` (python_rsakey.py), `secureHash(·, "sha256")`, `secureHMAC(·, ·, "sha256")`.
  * cryptomath helpers `numBits`/`numBytes` (= int.bit_length, byte_length; of |x| for negative x),
    `bytesToNumber` (big endian), `numberToByteArray(x, k)` (big endian on k bytes, keeping the low k
    bytes when x is longer; OverflowError for x < 0): these are no assumptions any more —
    translate/gen_cryptomath.py regenerates cryptomath.py/compat.py and Props/C10.lean, Props/C11.lean
    prove the regenerated functions equal to these definitions (`gen_numBits_eq` …).
-/
namespace Tls.PyE
open Tls Tls.CT

inductive Err where
  | valueError | assertionError | stopIteration | other | fuel
  | overflowError | zeroDivisionError | indexError
  /-- tlslite.errors: InvalidSignature, EncodingError, MessageTooLongError, MaskTooLongError, UnknownRSAType -/
  | invalidSignature | encodingError | messageTooLong | maskTooLong | unknownRSAType
  deriving DecidableEq, Repr

abbrev M := Except Err

instance : MonadLift Option M := ⟨fun o => match o with | some a => .ok a | none => .error .other⟩

/-- what the translator emits for a construct it does not understand -/
def poison {α : Type} : M α := .error .other

def raise {α : Type} (e : Err) : M α := .error e

/-- `try: x = body  except <kind>: …` — `none` when `body` raised `kind` (the handler runs),
    any other exception propagates -/
def attempt {α : Type} (body : M α) (kind : Err) : M (Option α) :=
  match body with
  | .ok a => .ok (some a)
  | .error e => if e = kind then .ok none else .error e

/-- the value bound by the `try` body once the handler has been ruled out -/
def getSome {α : Type} (o : Option α) : M α :=
  match o with | some a => .ok a | none => .error .other

/-- `while cond(s): s = body(s)`, at most `fuel` iterations -/
def whileLoop {σ : Type} (cond : σ → Bool) (body : σ → M σ) : Nat → σ → M σ
  | 0, s => if cond s then .error .fuel else .ok s
  | fuel + 1, s => if cond s then (body s).bind (whileLoop cond body fuel) else .ok s

/-- `for x in l: s = body(x, s)` -/
def forInL {β σ : Type} (l : List β) (init : σ) (body : β → σ → M σ) : M σ :=
  l.foldlM (fun s x => body x s) init

/-- `x % m`, `x // m` for a positive literal `m` -/
def modLit (x : Int) (m : Nat) : Int := x % (m : Int)
def fdivLit (x : Int) (m : Nat) : Int := x / (m : Int)

/-- items of `iter(b)` -/
def iterBytes (b : Bytes) : List Int := b.map fun v => (v.toNat : Int)

/-- items of `enumerate(b)` -/
def enumFrom (pos : Nat) : Bytes → List (Int × Int)
  | [] => []
  | v :: rest => ((pos : Int), (v.toNat : Int)) :: enumFrom (pos + 1) rest
def enumerate (b : Bytes) : List (Int × Int) := enumFrom 0 b

/-- `next(it)`: the item and the iterator afterwards -/
def next {α : Type} (it : List α) : M (α × List α) :=
  match it with
  | [] => .error .stopIteration
  | a :: rest => .ok (a, rest)

/-- items of `zip(it, it)` over ONE iterator: consecutive pairs, a trailing odd item is consumed
    and dropped -/
def zipSelf {α : Type} : List α → List (α × α)
  | a :: b :: rest => (a, b) :: zipSelf rest
  | _ => []

/-- items of `zip(a, b)` for two byte strings -/
def zipBytes (a b : Bytes) : List (Int × Int) :=
  List.zipWith (fun x y => ((x.toNat : Int), (y.toNat : Int))) a b

def numBits (x : Int) : Int := (Tls.RsaDec.numBits x.natAbs : Int)
def numBytes (x : Int) : Int := (Tls.RsaDec.numBytes x.natAbs : Int)
def bytesToNumber (b : Bytes) : Int := (beDecode b : Int)
/-- `numberToByteArray(x, k)` (big endian): the low `k` bytes of `x`, zero-padded; nothing for `k ≤ 0`;
    OverflowError for a negative `x` (proved of the regenerated cryptomath.py:
    `gen_numberToByteArray_eq`) -/
def numberToByteArray (x k : Int) : M Bytes :=
  if x < 0 then .error .overflowError else .ok (beEncode k.toNat x.toNat)

/-- an RSAKey object as far as decrypt looks at it -/
structure RsaSelf where
  n : Int
  d : Int
  keyType : String
  hasPrivateKey : Bool
  /-- the `_key_hash` attribute; `none` = not set -/
  keyHash : Option Bytes
  sha256 : Bytes → Bytes
  hmac : Bytes → Bytes → Bytes
  /-- `_rawPrivateKeyOp` -/
  privOp : Int → Int
  /-- `_rawPublicKeyOp` -/
  pubOp : Int → Int := fun _ => 0
  /-- `secureHash(data, name)` for a variable algorithm name -/
  hashFn : String → Bytes → Bytes := fun _ _ => []
  /-- `getattr(hashlib, name)().digest_size`; `none` = no such hash (AttributeError) -/
  digestSize : String → Option Int := fun _ => none
  /-- what `getRandomBytes(n)` returns in this call -/
  random : Int → Bytes := fun _ => []

/-- `not hasattr(self, '_key_hash') or not self._key_hash` -/
def keyHashMissing (s : RsaSelf) : Bool :=
  match s.keyHash with | none => true | some h => h.isEmpty

/-- `self._key_hash` (AttributeError when not set) -/
def getKeyHash (s : RsaSelf) : M Bytes :=
  match s.keyHash with | some h => .ok h | none => .error .other

/-- `self._key_hash = h` -/
def setKeyHash (s : RsaSelf) (h : Bytes) : RsaSelf := { s with keyHash := some h }

/-- `not x` for `x` a bytearray or None -/
def falsyOpt (x : Option Bytes) : Bool := match x with | none => true | some b => b.isEmpty

/-- an RSAKeyExchange object on the server side as far as processClientKeyExchange looks at it;
    `random48` is what `getRandomBytes(48)` returns in this call -/
structure KexSelf where
  privateKey : RsaSelf
  clientVersion : Int × Int
  serverVersion : Int × Int
  random48 : Bytes

end Tls.PyE

namespace Tls.PyE
/-- `len(x)` / `x[i]` for `x` a bytearray or None (TypeError on None) -/
def lenOpt (x : Option Bytes) : M Int := match x with | some b => .ok (Py.len b) | none => .error .other
def getItemOpt (x : Option Bytes) (i : Int) : M Int :=
  match x with | some b => (Py.getItem b i : Option Int) | none => .error .other
end Tls.PyE

/-! ### int methods, number <-> bytes (runtime primitives of translate/gen_cryptomath.py) -/
namespace Tls.PyE
open Tls

/-- `x.bit_length()` (of |x| for negative x) -/
def bitLength (x : Int) : Int := (Tls.RsaDec.numBits x.natAbs : Int)

/-- `x.to_bytes(length=length, byteorder=order)` (unsigned): ValueError for a negative length or an
    unknown byte order, OverflowError for a negative `x` or one that does not fit -/
def intToBytes (x length : Int) (order : String) : M Bytes :=
  if length < 0 then .error .valueError
  else if order ≠ "big" ∧ order ≠ "little" then .error .valueError
  else if x < 0 then .error .overflowError
  else if x.toNat ≥ 256 ^ length.toNat then .error .overflowError
  else .ok (if order = "big" then beEncode length.toNat x.toNat else (beEncode length.toNat x.toNat).reverse)

/-- `int.from_bytes(b, order)` (unsigned) -/
def intFromBytes (b : Bytes) (order : String) : M Int :=
  if order = "big" then .ok (beDecode b : Int)
  else if order = "little" then .ok (beDecode b.reverse : Int)
  else .error .valueError

/-- the int an `Optional[int]` holds (TypeError on None when used as a number) -/
def optGet {α : Type} (o : Option α) : M α := match o with | some a => .ok a | none => .error .other

/-- `divmod(a, b)` -/
def divmod (a b : Int) : M (Int × Int) :=
  if b = 0 then .error .zeroDivisionError else .ok (Int.fdiv a b, Int.fmod a b)

/-- `int(bool(x))` for an int `x` -/
def intBool (x : Int) : Int := if x = 0 then 0 else 1

end Tls.PyE

/-! ### lists of ints, byte strings, dictionaries (runtime primitives of translate/gen_rsapad.py) -/
namespace Tls.PyE
open Tls

/-- `[v] * n` (empty for n ≤ 0) -/
def listRepeat (v n : Int) : List Int := List.replicate n.toNat v
/-- `l[:n]` for a list -/
def listTake (l : List Int) (n : Int) : List Int :=
  if n < 0 then l.take (l.length - (-n).toNat) else l.take n.toNat
def lenL (l : List Int) : Int := l.length
/-- `[b for b in data if b]` -/
def filterNonZero (b : Bytes) : List Int := (iterBytes b).filter fun v => v != 0
/-- `bytearray(n)`: n zero bytes, ValueError for a negative n -/
def zeros (n : Int) : M Bytes := if n < 0 then .error .valueError else .ok (List.replicate n.toNat 0)
/-- `any(x != 0 for x in b)` / `any(b)` -/
def anyNonZero (b : Bytes) : Bool := b.any fun v => v != 0
/-- `s.lower()` -/
def lower (s : String) : String := s.toLower
/-- `b[i] = v` (in place; the translator only allows it on a fresh local) -/
def setItem (b : Bytes) (i v : Int) : M Bytes :=
  let j := if i < 0 then i + b.length else i
  if j < 0 ∨ j ≥ b.length then .error .indexError
  else if v < 0 ∨ v ≥ 256 then .error .valueError
  else .ok (b.set j.toNat (UInt8.ofNat v.toNat))
/-- `b[i]` with IndexError -/
def getItemE (b : Bytes) (i : Int) : M Int :=
  match Py.getItem b i with | some v => .ok v | none => .error .indexError
/-- `d[k]` / `k in d` for a dict literal with string keys -/
def dictGet (d : List (String × Bytes)) (k : String) : M Bytes :=
  match d.lookup k with | some v => .ok v | none => .error .other
def dictHas (d : List (String × Bytes)) (k : String) : Bool := (d.lookup k).isSome
/-- `getattr(hashlib, name)().digest_size` -/
def getDigestSize (s : RsaSelf) (name : String) : M Int :=
  match s.digestSize name with | some n => .ok n | none => .error .other

end Tls.PyE
