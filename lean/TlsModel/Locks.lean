import TlsModel.Conc
/-
  C18 — lock-structure facts read from the Python AST (data in TlsModel/Gen/Locks.lean, regenerated
  on every run by translate/gen_locks.py) and the decision procedure that turns them into the
  action shape of each method (`shapeOf`), checked against `Tls.Conc.shapeOK`.

  The translator only reports, per flattened statement: its line, whether it is the
  `lock.acquire()` / `lock.release()` (or the entry / exit of `with lock:`), the lock section it is
  syntactically nested in, which `self.*` fields it reads / writes (reference or content), and
  which methods of the same object it calls.  Everything it cannot classify is `unknown`, which
  makes the shape `bad`.  All decisions are taken here, in Lean.
-/
namespace Tls.Locks
open Tls.Conc

inductive Mode
  | refRead        -- the attribute itself is read (`self.db == None`, `x = self.n`)
  | refWrite       -- the attribute is rebound / deleted (`self.firstIndex = ...`)
  | contentRead    -- the object behind it is read (`self.entriesDict[k]`, `k in self.db`)
  | contentWrite   -- the object behind it is mutated (`self.db[k] = v`, `del self.db[k]`, unknown method)
  | unknown        -- the translator could not classify the use (`setattr`, bare `self` escaping, ...)
  deriving DecidableEq, Repr

structure Access where
  field : Nat
  mode : Mode
  deriving DecidableEq, Repr

inductive Role
  | plain
  | acquire (lock : Nat)
  | release (lock : Nat)
  | unknown
  deriving DecidableEq, Repr

structure Stmt where
  line : Nat
  role : Role
  inLock : Option Nat       -- lock field whose section syntactically contains the statement
  acc : List Access
  calls : List Nat          -- ids of methods of the same object called by the statement
  deriving Repr

structure Method where
  name : String
  setup : Bool              -- constructor-time method (`__init__`, BaseDB.create/open)
  stmts : List Stmt
  deriving Repr

structure ClassInfo where
  name : String
  lockField : Nat
  lockIsThreadingLock : Bool   -- `self.<lock> = threading.Lock()` (or RLock) in `__init__`, nowhere else
  entries : List Nat           -- ids of the methods callers use concurrently
  methods : List Method
  deriving Repr

/-- pseudo field 0: the wall clock (`time.time()`); always shared -/
def clockField : Nat := 0

def isWrite : Mode → Bool
  | .refWrite => true
  | .contentWrite => true
  | .unknown => true
  | _ => false

def isRefWrite : Mode → Bool
  | .refWrite => true
  | .unknown => true
  | _ => false

/-- accesses made by the methods that run after construction -/
def opAccesses (c : ClassInfo) : List Access :=
  (c.methods.filter (fun m => !m.setup)).flatMap (fun m => m.stmts.flatMap (·.acc))

def writtenFields (c : ClassInfo) : List Nat :=
  ((opAccesses c).filter (fun a => isWrite a.mode)).map (·.field)

def refWrittenFields (c : ClassInfo) : List Nat :=
  ((opAccesses c).filter (fun a => isRefWrite a.mode)).map (·.field)

/-- does this access touch state that some operation changes? -/
def sharedAccess (c : ClassInfo) (a : Access) : Bool :=
  a.field == clockField ||
  match a.mode with
  | .refRead => (refWrittenFields c).contains a.field
  | .unknown => true
  | _ => (writtenFields c).contains a.field

def stmtKind (c : ClassInfo) (inl : Option Nat) (s : Stmt) : Kind :=
  match s.role with
  | .unknown => .bad
  | .acquire l => if l = c.lockField ∧ inl = none then .acq else .bad
  | .release l => if l = c.lockField ∧ inl = none then .rel else .bad
  | .plain =>
    if s.acc.any (fun a => a.mode == .unknown) then .bad
    else if s.acc.any (sharedAccess c) then (if inl = some c.lockField then .sh else .bad)
    else .loc

/-- flattened action kinds of a method with the methods it calls on `self` inlined at the call -/
def expand (c : ClassInfo) : Nat → Option Nat → Nat → List Kind
  | 0, _, _ => [.bad]
  | fuel + 1, inh, mid =>
    match c.methods[mid]? with
    | none => [.bad]
    | some m =>
      m.stmts.flatMap fun s =>
        let inl := if inh.isSome then inh else s.inLock
        stmtKind c inl s :: s.calls.flatMap (fun callee => expand c fuel inl callee)

def shapeOf (c : ClassInfo) (mid : Nat) : List Kind := expand c (c.methods.length + 1) none mid

/-- every entry method keeps every shared access inside one section of the object's own lock -/
def classOK (c : ClassInfo) : Bool :=
  c.lockIsThreadingLock && !(writtenFields c).contains c.lockField &&
    c.entries.all (fun e => shapeOK 0 (shapeOf c e))

def kindName : Kind → String
  | .loc => "loc" | .sh => "sh" | .acq => "acq" | .rel => "rel" | .bad => "bad"

end Tls.Locks
