import TlsModel.Proto
import TlsModel.Conn
import TlsModel.ConnFrag
/-
  Line protocol shared by the C16 and C17 drivers (stateful: one World).
    init <ver13:0|1>                          -> ok          fresh world
    set <c|s> <field> <nat>                   -> ok
    op <c|s> write <hex> | read <max|-> <min> | ku <0|1> | pha | hb <hex> <pad> | close
             | inject <msg...> | kill <1|2> | abort
                                              -> <out> <state of that endpoint>
    st <c|s>                                  -> - <state>
    hsfault <steps> <i> <eof|reset|pipe> <pendingAlertDesc|->   -> <exc|none> closed res complete
    reasm <ver13> <frag>...   (w:<msg> | p:<msg>:<i>:<n>)       -> ok <messages> pend=<0|1> | err <alert>
    hsalert <level> <desc>                                     -> <exc> closed res complete
  msg: app <hex> | ku <v> | nst | creq <ctx> <0|1> | cert <ctx> <chain> | cv <a> <c> <s> | fin <ok>
       | hso <t> | hsm <t> | hb <mt> <hex> <pad> | hbbad | alert <lvl> <desc> | ccs | empty | unk
-/
namespace Tls.Conn

def b01 (s : String) : Option Bool :=
  if s == "1" then some true else if s == "0" then some false else none

def parseSide : String → Option Side
  | "c" => some .client
  | "s" => some .server
  | _ => none

def parseMsg : List String → Option Msg
  | ["app", h] => do some (.appData (← ofHex h))
  | ["ku", v] => do some (.keyUpdate (← v.toNat?))
  | ["nst"] => some .newSessionTicket
  | ["creq", c, e] => do some (.certRequest (← c.toNat?) (← e.toNat?))
  | ["cert", c, ch] => do some (.certificate (← c.toNat?) (← ch.toNat?))
  | ["cv", a, c, s] => do some (.certVerify (← b01 a) (← b01 c) (← b01 s))
  | ["fin", o] => do some (.finished (← b01 o))
  | ["hso", t] => do
    let t ← t.toNat?
    if [24, 4, 13, 11, 15, 20].contains t then none else some (.hsOther t)
  | ["hsm", t] => do some (.hsMalformed (← t.toNat?))
  | ["kuco", v] => do some (.kuCoalesced (← v.toNat?))
  | ["hb", mt, h, p] => do some (.heartbeat (← mt.toNat?) (← ofHex h) (← p.toNat?))
  | ["hbbad"] => some .heartbeatBad
  | ["alert", l, d] => do some (.alert (← l.toNat?) (← d.toNat?))
  | ["ccs"] => some .ccs
  | ["empty"] => some .emptyRec
  | ["unk"] => some .unknownCt
  | _ => none

def parseOp : List String → Option Op
  | ["write", h] => do some (.write (← ofHex h))
  | ["read", mx, mn] => do
    let mn ← mn.toNat?
    if mx == "-" then some (.read none mn) else some (.read (some (← mx.toNat?)) mn)
  | ["ku", r] => do some (.keyUpdate (← b01 r))
  | ["pha"] => some (.requestClientAuth 0)
  | ["pha", n] => do some (.requestClientAuth (← n.toNat?))
  | ["hb", h, p] => do some (.heartbeat (← ofHex h) (← p.toNat?))
  | ["close"] => some .close
  | ["makefile"] => some .makefile
  | "inject" :: rest => do some (.inject (← parseMsg rest))
  | ["kill", k] => do
    let k ← k.toNat?
    if k == 1 || k == 2 then some (.kill k) else none
  | ["abort"] => some .abort
  | _ => none

def setField (e : End) (f : String) (v : Nat) : Option End :=
  let b := v != 0
  match f with
  | "hasKeypair" => some { e with hasKeypair := b }
  | "myChain" => some { e with myChain := v }
  | "phaSupported" => some { e with phaSupported := b }
  | "hbSupported" => some { e with hbSupported := b }
  | "hbCanSend" => some { e with hbCanSend := b }
  | "hbCanRecv" => some { e with hbCanRecv := b }
  | "hbCallback" => some { e with hbCallback := b }
  | "closeSocket" => some { e with closeSocket := b }
  | "ignoreAbruptClose" => some { e with ignoreAbruptClose := b }
  | "certRequired" => some { e with certRequired := b }
  | "phaTamper" => some { e with phaTamper := v }
  | "recordSize" => some { e with recordSize := v }
  | "beastSplit" => some { e with beastSplit := b }
  | _ => none

def bit (b : Bool) : String := if b then "1" else "0"

def outStr : Out → String
  | .done => "done"
  | .bytes b => "bytes:" ++ hexOut b
  | .stall => "stall"
  | .err e => "err:" ++ e.str

def stateStr (e : End) : String :=
  let hb := match e.hbLog.getLast? with
    | some (p, n) => s!"{e.hbLog.length}:{hexOut p}:{n}"
    | none => "0"
  s!"closed={bit e.closed} res={bit e.resumable} rg={e.readGen} wg={e.writeGen} tk={e.tickets} " ++
  s!"chain={if e.chainSet then toString e.clientChain else "-"} reqs={e.certReqs.length} hb={hb} buf={e.readBuf.length} rc={e.refCount}"

def parseSteps (s : String) : Option (List IoStep) :=
  s.toList.mapM fun c =>
    match c with
    | 'r' => some IoStep.recv
    | 'h' => some IoStep.sendHs
    | 'o' => some IoStep.sendOther
    | 'f' => some IoStep.flush
    | _ => none

def parseFault : String → Option Fault
  | "eof" => some .eof
  | "reset" => some .reset
  | "pipe" => some .pipe
  | _ => none

/-- `w:<msg>` whole record, `p:<msg>:<i>:<n>` i-th of n pieces; msg in nst ku0 ku1 app hb alert -/
def parseFragMsg : String → Option Msg
  | "nst" => some .newSessionTicket
  | "ku0" => some (.keyUpdate 0)
  | "ku1" => some (.keyUpdate 1)
  | "app" => some (.appData [120])
  | "hb" => some (.heartbeat 1 [] 16)
  | "alert" => some (.alert 1 90)
  | _ => none

def parseFrag (t : String) : Option Frag :=
  match t.splitOn ":" with
  | ["w", m] => do some ⟨0, .whole (← parseFragMsg m)⟩
  | ["p", m, i, n] => do some ⟨0, .part (← parseFragMsg m) (← i.toNat?) (← n.toNat?)⟩
  | _ => none

def initWorld (v13 : Bool) : World :=
  { c := { isClient := true, ver13 := v13 }, s := { isClient := false, ver13 := v13 } }

def handle (w : World) : List String → World × Option String
  | ["init", v] =>
    match b01 v with
    | some v13 => (initWorld v13, some "ok")
    | none => (w, none)
  | ["set", sd, f, v] =>
    match parseSide sd, v.toNat? with
    | some side, some n =>
      match setField (w.endOf side) f n with
      | some e => (match side with | .client => { w with c := e } | .server => { w with s := e }, some "ok")
      | none => (w, none)
    | _, _ => (w, none)
  | "op" :: sd :: rest =>
    match parseSide sd, parseOp rest with
    | some side, some op =>
      let (o, w') := step w side op
      (w', some (outStr o ++ " " ++ stateStr (w'.endOf side)))
    | _, _ => (w, none)
  | ["st", sd] =>
    match parseSide sd with
    | some side => (w, some ("- " ++ stateStr (w.endOf side)))
    | none => (w, none)
  | ["hsfault", steps, i, k, pa] =>
    match parseSteps steps, i.toNat?, parseFault k with
    | some st, some i, some k =>
      let pend : Option (Option Nat) := if pa == "-" then some none else pa.toNat?.map some
      match pend with
      | some p =>
        let r := hsFault st i k p
        (w, some s!"{match r.exc with | some e => e.str | none => "none"} closed={bit r.closed} res={bit r.resumable} complete={bit r.complete}")
      | none => (w, none)
    | _, _, _ => (w, none)
  | "reasm" :: v :: frags =>
    match b01 v, frags.mapM parseFrag with
    | some v13, some fs =>
      match reasm v13 none fs with
      | .ok (rs, p) => (w, some s!"ok {rs.length} pend={bit p.isSome}")
      | .error d => (w, some s!"err {d}")
    | _, _ => (w, none)
  | ["sessionafter", ends] =>
    match ends.toList.mapM (fun c => if c == 'o' then some ConnEnd.orderly else if c == 'f' then some ConnEnd.fatal else none) with
    | some es => (w, some s!"resumes={bit (nextResumes es)}")
    | none => (w, none)
  | ["hsalert", lvl, d] =>
    match lvl.toNat?, d.toNat? with
    | some lvl, some d =>
      let r := hsAlert lvl d
      (w, some s!"{match r.exc with | some e => e.str | none => "none"} closed={bit r.closed} res={bit r.resumable} complete={bit r.complete}")
    | _, _ => (w, none)
  | _ => (w, none)

end Tls.Conn
