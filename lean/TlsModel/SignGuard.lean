import TlsModel.Basic
/-
  The send paths that sign and then verify before the signature is put on the wire:

    KeyExchange.signServerKeyExchange      tlslite/keyexchange.py  (TLS ≤ 1.1 branch and the four
                                           TLS 1.2 helpers: RSA, ECDSA, DSA, EdDSA)
    KeyExchange.makeCertificateVerify      tlslite/keyexchange.py  (client, TLS ≤ 1.2)
    TLS 1.3 client CertificateVerify       tlslite/tlsconnection.py (_clientTLS13Handshake)
    TLS 1.3 server CertificateVerify       tlslite/tlsconnection.py (_serverTLS13Handshake)
    post-handshake authentication          tlslite/tlsrecordlayer.py (_handle_pha)

  Each is  `sig = sig_func(bytes, …); [if not sig: raise]; if not ver_func(sig, bytes, …): abort`.
  The key object is abstract: `sign` is whatever the (possibly faulty) private operation returned,
  `verify` is the key's own verification function.
-/
namespace Tls.SignGuard

structure Signer where
  sign : Bytes → Bytes
  verify : Bytes → Bytes → Bool     -- verify sig bytes

inductive Outcome where
  | send (sig : Bytes)              -- the message carrying `sig` is handed to the record layer
  | abort                           -- TLSInternalError / internal_error alert, nothing is sent
  deriving DecidableEq, Repr

/-- the common shape; `checkEmpty` is the `if not signature: raise TLSInternalError("Empty signature")`
    line that only the ServerKeyExchange paths have -/
def emit (checkEmpty : Bool) (s : Signer) (bytes : Bytes) : Outcome :=
  let sig := s.sign bytes
  if checkEmpty ∧ sig.isEmpty then .abort
  else if ¬ s.verify sig bytes then .abort
  else .send sig

/-- `signServerKeyExchange` for TLS ≤ 1.1 and `_tls12_signSKE` (RSA) / `_tls12_sign_dsa_SKE` -/
def signServerKeyExchange (s : Signer) (hashBytes : Bytes) : Outcome := emit true s hashBytes

/-- `_tls12_sign_ecdsa_SKE`: the hash is truncated to the curve's `baselen` first -/
def signServerKeyExchangeEcdsa (s : Signer) (hashBytes : Bytes) (baselen : Nat) : Outcome :=
  emit true s (hashBytes.take baselen)

/-- `_tls12_sign_eddsa_ske`: hashAndSign / hashAndVerify on the ServerKeyExchange "hash" bytes -/
def signServerKeyExchangeEddsa (s : Signer) (bytes : Bytes) : Outcome := emit true s bytes

/-- `makeCertificateVerify` (no emptiness test) -/
def makeCertificateVerify (s : Signer) (verifyBytes : Bytes) : Outcome := emit false s verifyBytes

/-- TLS 1.3 client and server CertificateVerify, and post-handshake authentication -/
def tls13CertificateVerify (s : Signer) (signatureContext : Bytes) : Outcome :=
  emit false s signatureContext

end Tls.SignGuard
