import TlsModel.Basic
/-
  C13 — SessionTicketPayload (tlslite/messages.py) and ticket sealing (`_serverSendTickets`,
  `_tryDecrypt` of tlslite/tlsconnection.py) at byte level.

  `writePayload` / `parsePayload` mirror `SessionTicketPayload.write` / `.parse` statement by
  statement (the certificate chain is the opaque content of its 3-byte-length vector; `none` =
  ValueError or a short read).  The AEAD and the key derivation are parameters: `seal key nonce m`
  / `aopen key nonce c` with the key derived from (user key, nonce) as `_derive_key_iv` does.
-/
namespace Tls.Ticket

structure TicketPayload where
  version : Nat               -- 0, 1 (with certificate chain), 2 (with EtM/EMS/server name)
  masterSecret : Bytes
  protoMajor : Nat
  protoMinor : Nat
  suite : Nat
  nonce : Bytes
  creationTime : Nat
  certChain : Bytes           -- concatenated CertificateEntry encodings   (version >= 1)
  etm : Bool                  -- (version >= 2)
  ems : Bool
  serverName : Bytes
deriving DecidableEq, Repr

/-- `SessionTicketPayload.create`: the version is chosen from what has to be carried -/
def create (masterSecret : Bytes) (protoMajor protoMinor suite creationTime : Nat) (nonce : Bytes)
    (certChain : Option Bytes) (etm ems : Bool) (serverName : Bytes) : TicketPayload :=
  let v1 := certChain.isSome
  let v2 := etm || ems || !serverName.isEmpty
  { version := if v2 then 2 else if v1 then 1 else 0,
    masterSecret := masterSecret, protoMajor := protoMajor, protoMinor := protoMinor, suite := suite,
    nonce := nonce, creationTime := creationTime,
    certChain := certChain.getD [],
    etm := if v2 then etm else false, ems := if v2 then ems else false,
    serverName := if v2 then serverName else [] }

def b2n (b : Bool) : Nat := if b then 1 else 0

/-- `SessionTicketPayload.write` -/
def writePayload (p : TicketPayload) : Bytes :=
  beEncode 2 p.version ++
  beEncode 2 p.masterSecret.length ++ p.masterSecret ++
  beEncode 1 p.protoMajor ++ beEncode 1 p.protoMinor ++
  beEncode 2 p.suite ++
  beEncode 1 p.nonce.length ++ p.nonce ++
  beEncode 8 p.creationTime ++
  (if p.version ≥ 1 then beEncode 3 p.certChain.length ++ p.certChain else []) ++
  (if p.version ≥ 2 then beEncode 1 (b2n p.etm) ++ beEncode 1 (b2n p.ems) ++
      beEncode 2 p.serverName.length ++ p.serverName else [])

/-- `Parser.get(n)`: big-endian integer of the next n bytes -/
def getN (n : Nat) (b : Bytes) : Option (Nat × Bytes) :=
  if b.length < n then none else some (beDecode (b.take n), b.drop n)

/-- `Parser.getVarBytes(n)` -/
def getVar (n : Nat) (b : Bytes) : Option (Bytes × Bytes) :=
  match getN n b with
  | none => none
  | some (len, r) => if r.length < len then none else some (r.take len, r.drop len)

/-- `SessionTicketPayload.parse` -/
def parsePayload (b : Bytes) : Option TicketPayload := do
  let (version, b) ← getN 2 b
  if version > 2 then none else
  let (ms, b) ← getVar 2 b
  let (maj, b) ← getN 1 b
  let (min, b) ← getN 1 b
  let (suite, b) ← getN 2 b
  let (nonce, b) ← getVar 1 b
  let (ct, b) ← getN 8 b
  let (chain, b) ← (if version ≥ 1 then getVar 3 b else some ([], b))
  let (etm, ems, sn, b) ← (if version ≥ 2 then do
      let (e1, b) ← getN 1 b
      let (e2, b) ← getN 1 b
      let (sn, b) ← getVar 2 b
      some (decide (e1 ≠ 0), decide (e2 ≠ 0), sn, b)
    else some (false, false, [], b))
  if !b.isEmpty then none else
  some { version := version, masterSecret := ms, protoMajor := maj, protoMinor := min, suite := suite,
         nonce := nonce, creationTime := ct, certChain := chain, etm := etm, ems := ems, serverName := sn }

/-- what `write` can represent and `parse` gives back -/
def TicketPayload.WF (p : TicketPayload) : Prop :=
  p.version ≤ 2 ∧ p.masterSecret.length < 2 ^ 16 ∧ p.protoMajor < 256 ∧ p.protoMinor < 256 ∧
  p.suite < 2 ^ 16 ∧ p.nonce.length < 256 ∧ p.creationTime < 2 ^ 64 ∧ p.certChain.length < 2 ^ 24 ∧
  p.serverName.length < 2 ^ 16 ∧
  (p.version < 1 → p.certChain = []) ∧
  (p.version < 2 → p.etm = false ∧ p.ems = false ∧ p.serverName = [])

/-! ### sealing -/

structure Aead where
  /-- key derived from the user key and the 32-byte nonce (`_derive_key_iv`) -/
  kdf : Bytes → Bytes → Bytes
  aseal : Bytes → Bytes → Bytes          -- derived key, plaintext -> ciphertext ++ tag
  aopen : Bytes → Bytes → Option Bytes   -- derived key, ciphertext -> plaintext

/-- `_serverSendTickets`: `nonce ++ seal(derive(nonce, ticketKeys[0]), payload.write())` -/
def sealTicket (A : Aead) (keys : List Bytes) (nonce : Bytes) (p : TicketPayload) : Option Bytes :=
  match keys with
  | [] => none
  | k :: _ => some (nonce ++ A.aseal (A.kdf nonce k) (writePayload p))

/-- `_tryDecrypt` (<=1.2 form): every current key in order; a failed open, an empty plaintext or a
    parse error move on to the next key -/
def openTicket (A : Aead) (keys : List Bytes) (ticket : Bytes) : Option TicketPayload :=
  keys.findSome? (fun k =>
    match A.aopen (A.kdf (ticket.take 32) k) (ticket.drop 32) with
    | none => none
    | some m => if m.isEmpty then none else parsePayload m)

end Tls.Ticket
