import TlsModel.Basic
import TlsModel.CT
/-
  Model of the TLS record layer of tlslite-ng (properties C01 and C02).

  Mirrors tlslite/recordlayer.py (`sendRecord`, `_macThenEncrypt`, `_encryptThenMAC`,
  `_encryptThenSeal`, `_getNonce`, `recvRecord`, `_decryptStreamThenMAC`, `_decryptThenMAC`,
  `_macThenDecrypt`, `_decryptAndUnseal`, `_tls13_de_pad`, the length caps of `RecordSocket.recv`),
  and tlslite/tlsrecordlayer.py (`_sendMsg` fragmentation, `readAsync(max, min)`,
  `_getNextRecordFromSocket` error -> alert mapping, `_sendError`, `_shutdown`).

  Cryptographic primitives are PARAMETERS (`Prims`): a keyed MAC (an incremental MAC object is a
  function of its accumulated input, as in `Tls.CT.MacAlg`), a stateful bulk cipher
  (`enc`/`dec : S → Bytes → S × Bytes`; CBC chaining / stream position live in `S`), and an AEAD
  (`aeadSeal`/`aeadOpen`).  One `Prims` value = the primitives keyed for one direction of one epoch.

  Not modelled (returns `none`): the SSLv2 record format; a non-block cipher together with the
  encrypt-then-MAC flag (the code would raise AttributeError on `block_size`).
  Python facts behind side conditions, stated as hypotheses where they matter:
    * `Writer.add(seqnum, 8)` raises ValueError at 2^64 (`seq < 2^64`);
    * `bytearray([len // 256, len % 256])` raises ValueError at 2^16 (`len < 2^16`);
    * `data[:-n]` with `n = 0` is empty (a MAC with `digest_size = 0`; mirrored by `dropLast`).
-/
namespace Tls.Rec
open Tls.CT (MacAlg macHeader addPadding stripPadMac cbcCheck byteAt)

/-- exceptions raised by `RecordLayer.recvRecord` that `_getNextRecordFromSocket` maps to alerts -/
inductive Err
  | bad_record_mac | decryption_failed | record_overflow | unexpected_message | illegal_parameter
  deriving DecidableEq, Repr

/-- `AlertDescription` sent by `_getNextRecordFromSocket` for each exception -/
def Err.alert : Err → Nat
  | .unexpected_message => 10
  | .bad_record_mac => 20
  | .decryption_failed => 21
  | .record_overflow => 22
  | .illegal_parameter => 47

def Err.name : Err → String
  | .unexpected_message => "unexpected_message"
  | .bad_record_mac => "bad_record_mac"
  | .decryption_failed => "decryption_failed"
  | .record_overflow => "record_overflow"
  | .illegal_parameter => "illegal_parameter"

/-- `ConnectionState.getSeqNumBytes` (the increment is done by the callers below) -/
def seqBytes (n : Nat) : Bytes := beEncode 8 n

/-- `bytearray([n // 256, n % 256])` -/
def be16 (n : Nat) : Bytes := [UInt8.ofNat (n / 256), UInt8.ofNat (n % 256)]

def zeros (n : Nat) : Bytes := List.replicate n 0

/-- Python `d[:-n]` (empty when `n = 0`) -/
def dropLast (n : Nat) (d : Bytes) : Bytes := if n = 0 then [] else d.take (d.length - n)

/-- Python `d[-n:]` for `n ≤ len d` (the whole string when `n = 0`) -/
def lastN (n : Nat) (d : Bytes) : Bytes := if n = 0 then d else d.drop (d.length - n)

structure Prims (S : Type) where
  /-- `macContext` (HMAC / MAC_SSL object keyed for this direction) -/
  mac : MacAlg
  /-- `encContext.block_size` -/
  bs : Nat
  /-- `encContext.encrypt` / `.decrypt` for RC4 / CBC objects: the object state is threaded -/
  enc : S → Bytes → S × Bytes
  dec : S → Bytes → S × Bytes
  /-- `encContext.tagLength` -/
  tagLen : Nat
  /-- `encContext.seal(nonce, plaintext, aad)` / `.open(nonce, ciphertext, aad)` -/
  aeadSeal : Bytes → Bytes → Bytes → Bytes
  aeadOpen : Bytes → Bytes → Bytes → Option Bytes

/-- `ConnectionState`: sequence number and the state of the cipher object -/
structure St (S : Type) where
  seq : Nat
  cs : S

inductive Cipher
  | null    -- encContext is None
  | stream  -- isBlockCipher = False, isAEAD = False (RC4)
  | block   -- isBlockCipher = True (AES-CBC, 3DES-CBC)
  | aead    -- isAEAD = True
  deriving DecidableEq, Repr

/-- what is fixed for one direction of one epoch -/
structure Cfg where
  vmaj : Nat
  vmin : Nat
  /-- `RecordLayer.tls13record` -/
  tls13record : Bool
  cipher : Cipher
  /-- `macContext` is not None -/
  hasMac : Bool
  /-- `ConnectionState.encryptThenMAC` -/
  etm : Bool
  /-- `"aes" in encContext.name` -/
  nameHasAes : Bool
  /-- `encContext.name == "chacha20-poly1305"` -/
  nameIsChacha : Bool
  /-- `ConnectionState.fixedNonce` -/
  fixedNonce : Bytes
  /-- `RecordLayer.fixedIVBlock` (sender side, TLS ≥ 1.1 CBC) -/
  fixedIV : Bytes

/-- Python tuple comparison `self.version >= (a, b)` -/
def Cfg.verGe (c : Cfg) (a b : Nat) : Bool := c.vmaj > a || (c.vmaj == a && c.vmin ≥ b)
def Cfg.verGt (c : Cfg) (a b : Nat) : Bool := c.vmaj > a || (c.vmaj == a && c.vmin > b)
def Cfg.verLe (c : Cfg) (a b : Nat) : Bool := !c.verGt a b

/-- `_is_tls13_plus()` -/
def Cfg.is13 (c : Cfg) : Bool := c.verGt 3 3 && c.tls13record

/-- the bytes fed to the MAC by `calculateMAC`: seq ‖ type ‖ [version] ‖ length ‖ data -/
def macInput (seq : Nat) (t : UInt8) (c : Cfg) (data : Bytes) : Bytes :=
  macHeader (seqBytes seq) t c.vmaj c.vmin data.length ++ data

/-- additional data of a TLS ≤ 1.2 AEAD record -/
def aad12 (seq : Nat) (t : UInt8) (vmaj vmin : Nat) (plainLen : Nat) : Bytes :=
  seqBytes seq ++ ([t, UInt8.ofNat vmaj, UInt8.ofNat vmin] ++ be16 plainLen)

/-- additional data of a TLS 1.3 record: the record header as sent -/
def aad13 (t : UInt8) (vmaj vmin : Nat) (wireLen : Nat) : Bytes :=
  [t, UInt8.ofNat vmaj, UInt8.ofNat vmin] ++ be16 wireLen

def xorBytes (a b : Bytes) : Bytes := List.zipWith (fun x y => x ^^^ y) a b

/-- `_getNonce`'s test for the TLS 1.3 style construction -/
def Cfg.xorNonce (c : Cfg) : Bool := (c.nameIsChacha && c.fixedNonce.length == 12) || c.is13

/-- `_getNonce` -/
def nonce (c : Cfg) (seq : Nat) : Bytes :=
  if c.xorNonce then
    xorBytes (zeros (c.fixedNonce.length - 8) ++ seqBytes seq) c.fixedNonce
  else c.fixedNonce ++ seqBytes seq

/-- the explicit nonce is on the wire: `"aes" in name and not _is_tls13_plus()` -/
def Cfg.explicitNonce (c : Cfg) : Bool := c.nameHasAes && !c.is13

/-- a record as it travels: header type, header version, body -/
structure Rec where
  typ : UInt8
  vmaj : Nat
  vmin : Nat
  body : Bytes
  deriving DecidableEq, Repr

/-- `RecordSocket.version` as maintained by `_handle_tls13_record` -/
def Cfg.recVer (c : Cfg) : Nat × Nat := if c.is13 then (3, 3) else (c.vmaj, c.vmin)

/-! ## sending -/

/-- `_macThenEncrypt`, no cipher or a stream cipher -/
def protMteStream {S} (P : Prims S) (c : Cfg) (useEnc : Bool) (st : St S) (t : UInt8) (data : Bytes) :
    St S × Bytes :=
  let seq' := if c.hasMac then st.seq + 1 else st.seq
  let data := if c.hasMac then data ++ P.mac.digest (macInput st.seq t c data) else data
  if useEnc then
    let r := P.enc st.cs data
    (⟨seq', r.1⟩, r.2)
  else (⟨seq', st.cs⟩, data)

/-- plaintext body of a CBC record before encryption (`_macThenEncrypt`, block cipher) -/
def mteCbcPlain {S} (P : Prims S) (c : Cfg) (seq : Nat) (t : UInt8) (data : Bytes) : Bytes :=
  let data := if c.hasMac then data ++ P.mac.digest (macInput seq t c data) else data
  let data := if c.verGe 3 2 then c.fixedIV ++ data else data
  addPadding P.bs data

/-- `_macThenEncrypt`, block cipher -/
def protMteCbc {S} (P : Prims S) (c : Cfg) (st : St S) (t : UInt8) (data : Bytes) : St S × Bytes :=
  let seq' := if c.hasMac then st.seq + 1 else st.seq
  let r := P.enc st.cs (mteCbcPlain P c st.seq t data)
  (⟨seq', r.1⟩, r.2)

/-- what `_encryptThenMAC` encrypts -/
def etmPlain {S} (P : Prims S) (c : Cfg) (data : Bytes) : Bytes :=
  addPadding P.bs (if c.verGe 3 2 then c.fixedIV ++ data else data)

/-- `_encryptThenMAC` (`useEnc` = encContext is not None) -/
def protEtm {S} (P : Prims S) (c : Cfg) (useEnc : Bool) (st : St S) (t : UInt8) (data : Bytes) :
    St S × Bytes :=
  let r := if useEnc then P.enc st.cs (etmPlain P c data) else (st.cs, data)
  if c.hasMac then
    (⟨st.seq + 1, r.1⟩, r.2 ++ P.mac.digest (macInput st.seq t c r.2))
  else (⟨st.seq, r.1⟩, r.2)

/-- `_encryptThenSeal`; `t` is the header type, `data` what is sealed -/
def protAead {S} (P : Prims S) (c : Cfg) (st : St S) (t : UInt8) (data : Bytes) : St S × Bytes :=
  let aad :=
    if !c.is13 then aad12 st.seq t c.vmaj c.vmin data.length
    else aad13 t c.recVer.1 c.recVer.2 (data.length + P.tagLen)
  let out := P.aeadSeal (nonce c st.seq) data aad
  (⟨st.seq + 1, st.cs⟩, if c.explicitNonce then seqBytes st.seq ++ out else out)

/-- `padding_cb(len(data), contentType, max_padding)`; `max_padding = send_record_limit + 1 - len(data)`
    (never negative for fragments within the limit; `Int` because nothing in `sendRecord` enforces it) -/
abbrev PadCb := Nat → UInt8 → Int → Nat

/-- TLSInnerPlaintext as built at the top of `sendRecord` -/
def innerPlain (padCb : Option PadCb) (sendLimit : Nat) (t : UInt8) (data : Bytes) : Bytes :=
  let d := data ++ [t]
  match padCb with
  | none => d
  | some cb => d ++ zeros (cb d.length t ((sendLimit : Int) + 1 - (d.length : Int)))

/-- `sendRecord`: returns the new write state and the record handed to `RecordSocket.send`.
    `none`: SSLv2 framing, or stream cipher with the encrypt-then-MAC flag (not modelled). -/
def sendRecord {S} (P : Prims S) (c : Cfg) (padCb : Option PadCb) (sendLimit : Nat)
    (st : St S) (t : UInt8) (data : Bytes) : Option (St S × Rec) :=
  let wrap := c.is13 && c.cipher != .null && t != 20
  let data := if wrap then innerPlain padCb sendLimit t data else data
  let t := if wrap then 23 else t
  let mk (r : St S × Bytes) : Option (St S × Rec) := some (r.1, ⟨t, c.recVer.1, c.recVer.2, r.2⟩)
  if (c.vmaj == 0 && c.vmin == 2) || (c.vmaj == 2 && c.vmin == 0) then none
  else if c.verGt 3 3 && t == 20 then mk (st, data)
  else if c.cipher == .aead then mk (protAead P c st t data)
  else if c.etm then
    match c.cipher with
    | .null => mk (protEtm P c false st t data)
    | .block => mk (protEtm P c true st t data)
    | _ => none
  else
    match c.cipher with
    | .null => mk (protMteStream P c false st t data)
    | .stream => mk (protMteStream P c true st t data)
    | .block => mk (protMteCbc P c st t data)
    | .aead => none

/-! ## receiving -/

/-- `_decryptStreamThenMAC` -/
def decStream {S} (P : Prims S) (c : Cfg) (useEnc : Bool) (st : St S) (t : UInt8) (body : Bytes) :
    Except Err (St S × Bytes) :=
  let r := if useEnc then P.dec st.cs body else (st.cs, body)
  let data := r.2
  if c.hasMac then
    if P.mac.dlen > data.length then .error .bad_record_mac
    else
      let check := (data.drop (data.length - P.mac.dlen)).take P.mac.dlen
      let d := dropLast P.mac.dlen data
      if P.mac.digest (macInput st.seq t c d) == check then .ok (⟨st.seq + 1, r.1⟩, d)
      else .error .bad_record_mac
  else .ok (⟨st.seq, r.1⟩, data)

/-- `_decryptThenMAC` (block cipher, MAC-then-encrypt) -/
def decCbc {S} (P : Prims S) (c : Cfg) (st : St S) (t : UInt8) (body : Bytes) :
    Except Err (St S × Bytes) :=
  if body.length % P.bs != 0 then .error .decryption_failed
  else
    let r := P.dec st.cs body
    let data := if c.verGe 3 2 then r.2.drop P.bs else r.2
    if !cbcCheck P.mac data (seqBytes st.seq) t c.vmaj c.vmin P.bs then .error .bad_record_mac
    else .ok (⟨st.seq + 1, r.1⟩, stripPadMac P.mac data)

/-- the padding checks at the end of `_macThenDecrypt` -/
def etmUnpad (c : Cfg) (buf : Bytes) : Except Err Bytes :=
  if buf.length == 0 then .error .bad_record_mac
  else
    let padLen := byteAt buf (buf.length - 1)
    if padLen + 1 > buf.length then .error .bad_record_mac
    else
      let good :=
        if CT.isSsl3 c.vmaj c.vmin then true
        else ((buf.drop (buf.length - (padLen + 1))).take padLen).all fun b => b.toNat == padLen
      if !good then .error .bad_record_mac
      else .ok (buf.take (buf.length - (padLen + 1)))

/-- `_macThenDecrypt` -/
def decEtm {S} (P : Prims S) (c : Cfg) (useEnc : Bool) (st : St S) (t : UInt8) (body : Bytes) :
    Except Err (St S × Bytes) :=
  let afterMac : Except Err (Nat × Bytes) :=
    if c.hasMac then
      if body.length < P.mac.dlen then .error .bad_record_mac
      else
        let check := lastN P.mac.dlen body
        let buf := dropLast P.mac.dlen body
        if P.mac.digest (macInput st.seq t c buf) == check then .ok (st.seq + 1, buf)
        else .error .bad_record_mac
    else .ok (st.seq, body)
  match afterMac with
  | .error e => .error e
  | .ok (seq', buf) =>
    if useEnc then
      if buf.length % P.bs != 0 then .error .decryption_failed
      else
        let r := P.dec st.cs buf
        let buf := if c.verGe 3 2 then r.2.drop P.bs else r.2
        match etmUnpad c buf with
        | .error e => .error e
        | .ok d => .ok (⟨seq', r.1⟩, d)
    else .ok (⟨seq', st.cs⟩, buf)

/-- `_decryptAndUnseal`; the header is the one read from the wire -/
def decAead {S} (P : Prims S) (c : Cfg) (st : St S) (h : Rec) : Except Err (St S × Bytes) :=
  let buf := h.body
  if c.explicitNonce && 8 > buf.length then .error .bad_record_mac
  else
    let n := if c.explicitNonce then c.fixedNonce ++ buf.take 8 else nonce c st.seq
    let buf := if c.explicitNonce then buf.drop 8 else buf
    if P.tagLen > buf.length then .error .bad_record_mac
    else if !c.is13 then
      match P.aeadOpen n buf (aad12 st.seq h.typ c.vmaj c.vmin (buf.length - P.tagLen)) with
      | none => .error .bad_record_mac
      | some p => .ok (⟨st.seq + 1, st.cs⟩, p)
    else if h.typ != 23 then .error .unexpected_message
    else if !(h.vmaj == 3 && h.vmin == 3) then .error .illegal_parameter
    else
      match P.aeadOpen n buf (aad13 h.typ h.vmaj h.vmin buf.length) with
      | none => .error .bad_record_mac
      | some p => .ok (⟨st.seq + 1, st.cs⟩, p)

/-- `_tls13_de_pad`: strip trailing zeros; the last non-zero byte is the content type -/
def dePad (data : Bytes) : Option (Bytes × UInt8) :=
  match (data.reverse.dropWhile (· == 0)) with
  | [] => none
  | v :: rest => some (rest.reverse, v)

/-- receiver: read state plus the early-data window and the limit in force -/
structure Recv (S : Type) where
  st : St S
  earlyOk : Bool
  maxEarly : Nat
  processed : Nat
  recvLimit : Nat
  /-- `RecordLayer.plaintext_alerts_ok`: True until `_handshakeDone` -/
  plaintextAlertsOk : Bool

inductive RecvResult (S : Type)
  /-- a record was accepted: new receiver, content type, plaintext -/
  | ok (rv : Recv S) (t : UInt8) (data : Bytes)
  /-- early-data window: the record was ignored, `recvRecord` loops -/
  | skip (rv : Recv S)
  | err (e : Err)

/-- the decryption dispatch inside `recvRecord`'s `try` -/
def decrypt {S} (P : Prims S) (c : Cfg) (rv : Recv S) (h : Rec) : Except Err (St S × Bytes) :=
  let r : Except Err (St S × Bytes) :=
    if c.is13 && h.typ == 20 then .ok (rv.st, h.body)
    else if c.is13 && h.typ == 21 && h.body.length < 3 && rv.plaintextAlertsOk && c.cipher != .null && rv.st.seq == 0 then
      .ok (rv.st, h.body)
    else if c.cipher == .aead then decAead P c rv.st h
    else if c.etm then
      match c.cipher with
      | .null => decEtm P c false rv.st h.typ h.body
      | _ => decEtm P c true rv.st h.typ h.body
    else
      match c.cipher with
      | .block => decCbc P c rv.st h.typ h.body
      | .null => decStream P c false rv.st h.typ h.body
      | _ => decStream P c true rv.st h.typ h.body
  match r with
  | .error e => .error e
  | .ok x =>
    if c.cipher == .null && !c.hasMac && rv.earlyOk && h.typ == 23 then .error .bad_record_mac
    else .ok x

/-- `RecordLayer.recvRecord` on one record read by `RecordSocket.recv` (SSLv3 framing) -/
def recvRecord {S} (P : Prims S) (c : Cfg) (rv : Recv S) (h : Rec) : RecvResult S :=
  if h.body.length > rv.recvLimit + 1024 + 1024 then .err .record_overflow
  else if c.tls13record && h.body.length > rv.recvLimit + 256 then .err .record_overflow
  else
    match decrypt P c rv h with
    | .error .bad_record_mac =>
      if rv.earlyOk && rv.processed + h.body.length < rv.maxEarly then
        .skip { rv with processed := rv.processed + h.body.length }
      else .err .bad_record_mac
    | .error e => .err e
    | .ok (st', data) =>
      let rv' : Recv S := { rv with st := st', earlyOk := false, processed := 0 }
      if c.is13 && c.cipher != .null && h.typ == 23 then
        if data.length > rv.recvLimit + 1 then .err .record_overflow
        else
          match dePad data with
          | none => .err .unexpected_message
          | some (d, t) =>
            if d.length > rv.recvLimit then .err .record_overflow else .ok rv' t d
      else if data.length > rv.recvLimit then .err .record_overflow
      else .ok rv' h.typ data

/-- `RecordSocket._recvHeader`: a first byte that is a ContentType starts a 5-byte SSLv3/TLS header,
    anything else is read as an SSLv2 header -/
def isTlsHeaderByte (b0 : UInt8) : Bool := b0 == 20 || b0 == 21 || b0 == 22 || b0 == 23 || b0 == 24

/-- `recvRecord` on a record that came with an SSLv2 header: refused (`unexpected_message`) when the
    connection is not SSLv2 and the read state has a cipher or a MAC; `none`: SSLv2 processing, not
    modelled (only the first ClientHello may legitimately arrive this way) -/
def recvSsl2Framed (c : Cfg) : Option Err :=
  if !((c.vmaj == 2 && c.vmin == 0) || (c.vmaj == 0 && c.vmin == 2)) && (c.cipher != .null || c.hasMac) then
    some .unexpected_message
  else none

/-! ## fragmentation (`TLSRecordLayer._sendMsg`) -/

/-- `while len(buf) > recordSize: ...` ; `fuel` bounds the loop (it terminates within
    `len buf` iterations when `recordSize ≥ 1`; with `recordSize = 0` Python spins forever) -/
def chunks (rs : Nat) : Nat → Bytes → Option (List Bytes)
  | 0, buf => if buf.length > rs then none else some [buf]
  | fuel + 1, buf =>
    if buf.length > rs then (chunks rs fuel (buf.drop rs)).map (buf.take rs :: ·)
    else some [buf]

/-- the same loop when `self.recordSize` (a property, re-read at every iteration) changes between
    iterations: an application may assign `conn.recordSize` while a `writeAsync` generator is
    suspended on a would-block.  `rs i` = the value in force when record `i` of this write is cut
    (condition and both slices of one iteration see the same value: nothing yields between them). -/
def chunksVar (rs : Nat → Nat) : Nat → Nat → Bytes → Option (List Bytes)
  | i, 0, buf => if buf.length > rs i then none else some [buf]
  | i, fuel + 1, buf =>
    if buf.length > rs i then (chunksVar rs (i + 1) fuel (buf.drop (rs i))).map (buf.take (rs i) :: ·)
    else some [buf]

/-- `_sendMsg` with a record size that varies per record of the write (record 0 of a split write
    is the single first byte) -/
def fragmentsVar (split : Bool) (rs : Nat → Nat) (data : Bytes) : Option (List Bytes) :=
  if split then
    let rest := data.drop 1
    if rest.length == 0 then some [data.take 1]
    else (chunksVar rs 1 rest.length rest).map (data.take 1 :: ·)
  else chunksVar rs 0 data.length data

/-- `recordSize = min(_user_record_limit, _send_record_limit)` -/
def recordSize (userLimit sendLimit : Nat) : Nat := min userLimit sendLimit

/-- `_sendMsg` for an ApplicationData message with `randomizeFirstBlock=True`:
    `split` = `version <= (3, 1) and isCBCMode()` -/
def fragments (split : Bool) (rs : Nat) (data : Bytes) : Option (List Bytes) :=
  if split then
    let rest := data.drop 1
    if rest.length == 0 then some [data.take 1]
    else (chunks rs rest.length rest).map (data.take 1 :: ·)
  else chunks rs data.length data

/-- `version <= (3, 1) and self._recordLayer.isCBCMode()` -/
def Cfg.split (c : Cfg) : Bool := c.verLe 3 1 && c.cipher == .block

/-- `addPadding` output length -/
def paddedLen (bs n : Nat) : Nat := n + (bs - 1 - n % bs) + 1

/-- body length on the wire of a record carrying `n` plaintext bytes (after the TLS 1.3 wrap,
    `inner` = length of TLSInnerPlaintext) -/
def wireLen {S} (P : Prims S) (c : Cfg) (padCb : Option PadCb) (sendLimit : Nat) (t : UInt8) (n : Nat) : Option Nat :=
  let wrap := c.is13 && c.cipher != .null && t != 20
  let n := if wrap then (innerPlain padCb sendLimit t (zeros n)).length else n
  let t := if wrap then 23 else t
  let macLen := if c.hasMac then P.mac.dlen else 0
  let iv := if c.verGe 3 2 then c.fixedIV.length else 0
  if (c.vmaj == 0 && c.vmin == 2) || (c.vmaj == 2 && c.vmin == 0) then none
  else if c.verGt 3 3 && t == 20 then some n
  else if c.cipher == .aead then some ((if c.explicitNonce then 8 else 0) + n + P.tagLen)
  else if c.etm then
    match c.cipher with
    | .null => some (n + macLen)
    | .block => some (paddedLen P.bs (iv + n) + macLen)
    | _ => none
  else
    match c.cipher with
    | .null => some (n + macLen)
    | .stream => some (n + macLen)
    | .block => some (paddedLen P.bs (iv + n + macLen))
    | .aead => none

/-! ## record_size_limit negotiation (tlsconnection.py) -/

/-- what each side ends up with: (client send, client recv, server send, server recv).
    `cset`/`sset` = `HandshakeSettings.record_size_limit` (None = extension disabled);
    validated settings satisfy `64 ≤ v ≤ 2^14 + 1`. -/
def negotiateLimits (tls13 : Bool) (cset sset : Option Nat) : Nat × Nat × Nat × Nat :=
  match cset, sset with
  | some cv, some sv =>
    if tls13 then
      -- server EncryptedExtensions carries min(2^14+1, sv); client: send = ext - 1
      let sext := min (2^14 + 1) sv
      (sext - 1, min (2^14) (cv - 1), min (2^14) (cv - 1), min (2^14) (sv - 1))
    else
      let sext := min (2^14) sv
      (sext, min (2^14) cv, min (2^14) cv, min (2^14) sv)
  | _, _ => (2^14, 2^14, 2^14, 2^14)

/-! ## connection level: two endpoints joined by FIFO channels of records -/

/-- what the connection model needs from the record layer for ONE direction:
    sender state, receiver state, protect, unprotect (`ok none` = skipped: early data) -/
structure Codec where
  SS : Type
  RS : Type
  prot : SS → UInt8 → Bytes → Option (SS × Rec)
  unprot : RS → Rec → Except Err (Option (RS × UInt8 × Bytes))

/-- the record layer of this file as a `Codec` -/
def recordCodec {S} (P : Prims S) (c : Cfg) (padCb : Option PadCb) (sendLimit : Nat) : Codec where
  SS := St S
  RS := Recv S
  prot := fun s t d => sendRecord P c padCb sendLimit s t d
  unprot := fun rv h =>
    match recvRecord P c rv h with
    | .ok rv' t d => .ok (some (rv', t, d))
    | .skip _ => .ok none   -- the early-data counters live in rv'; not used after the handshake
    | .err e => .error e

structure Endpoint (W R : Type) where
  wr : W
  rd : R
  /-- `_readBuffer` -/
  buf : Bytes
  closed : Bool
  /-- `session.resumable` -/
  resumable : Bool
  /-- fragmentation parameters of `_sendMsg`: `recordSize` is the effective value
      `min(_user_record_limit, _send_record_limit)` -/
  split : Bool
  recordSize : Nat
  /-- `_send_record_limit` (negotiated) -/
  sendLimit : Nat
  /-- `version > (3, 3) and _middlebox_compat_mode`: unprotected ChangeCipherSpec records are
      dropped silently.  True during a TLS 1.3 handshake; both roles clear `_middlebox_compat_mode`
      when their handshake ends, so it is False for every established connection. -/
  ccsTolerated : Bool := false

/-- result of one `readAsync(max, min)` run to completion (or until it would block) -/
inductive ReadOut
  | data (b : Bytes)
  | stall                         -- yields 0 for ever: no further record available
  | localAlert (desc : Nat)       -- TLSLocalAlert raised after sending the alert
  | unmodelled                    -- alert / handshake / CCS / heartbeat records after the handshake
  deriving DecidableEq, Repr

inductive WriteOut
  | done
  | closedError                   -- TLSClosedConnectionError
  | unmodelled                    -- recordSize = 0 (Python loops forever) / unmodelled protect path
  deriving DecidableEq, Repr

/-- protect a list of fragments in order (`_sendMsgThroughSocket` per fragment) -/
def protAll {W} (prot : W → UInt8 → Bytes → Option (W × Rec)) (t : UInt8) : W → List Bytes → Option (W × List Rec)
  | s, [] => some (s, [])
  | s, f :: fs =>
    match prot s t f with
    | none => none
    | some (s', r) =>
      match protAll prot t s' fs with
      | none => none
      | some (s'', rs) => some (s'', r :: rs)

/-- `writeAsync`: returns endpoint, the records appended to its outgoing channel, outcome -/
def epWrite {W R} (prot : W → UInt8 → Bytes → Option (W × Rec)) (e : Endpoint W R) (data : Bytes) :
    Endpoint W R × List Rec × WriteOut :=
  if e.closed then (e, [], .closedError)
  else
    match fragments e.split e.recordSize data with
    | none => (e, [], .unmodelled)
    | some fr =>
      match protAll prot 23 e.wr fr with
      | none => (e, [], .unmodelled)
      | some (w', rs) => ({ e with wr := w' }, rs, .done)

/-- `_sendError` + `_shutdown(False)`: one fatal alert (level 2) through the write state, then the
    connection is closed and the session marked non-resumable -/
def epFatal {W R} (prot : W → UInt8 → Bytes → Option (W × Rec)) (e : Endpoint W R) (desc : Nat) :
    Endpoint W R × List Rec :=
  match prot e.wr 21 [2, UInt8.ofNat desc] with
  | none => ({ e with closed := true, resumable := false }, [])
  | some (w', r) => ({ e with wr := w', closed := true, resumable := false }, [r])

/-- the loop condition of `readAsync`: `(len(buf) < min or (not buf and try_once)) and not closed` -/
def readMore {W R} (e : Endpoint W R) (min : Nat) (tryOnce : Bool) : Bool :=
  (e.buf.length < min || (e.buf.isEmpty && tryOnce)) && !e.closed

/-- the end of `readAsync`: `returnBytes = buf[:max]; buf = buf[max:]` (`max = None`: everything) -/
def epReturn {W R} (max : Option Nat) (e : Endpoint W R) (inc : List Rec) :
    Endpoint W R × List Rec × List Rec × ReadOut :=
  let m := match max with | none => e.buf.length | some m => m
  ({ e with buf := e.buf.drop m }, inc, [], .data (e.buf.take m))

/-- the loop of `readAsync(max, min)` over the records available on the incoming channel.
    Returns endpoint, remaining incoming channel, records put on the outgoing channel, outcome. -/
def epReadLoop {W R} (prot : W → UInt8 → Bytes → Option (W × Rec))
    (unprot : R → Rec → Except Err (Option (R × UInt8 × Bytes))) (max : Option Nat) (min : Nat) :
    Bool → Endpoint W R → List Rec → Endpoint W R × List Rec × List Rec × ReadOut
  | tryOnce, e, [] => if readMore e min tryOnce then (e, [], [], .stall) else epReturn max e []
  | tryOnce, e, r :: inc' =>
    if readMore e min tryOnce then
      match unprot e.rd r with
      | .error err =>
        let x := epFatal prot e err.alert
        (x.1, inc', x.2, .localAlert err.alert)
      | .ok none => epReadLoop prot unprot max min tryOnce e inc'
      | .ok (some (rd', t, d)) =>
        if t == 23 then
          -- `_getMsg` skips empty application-data records
          if d.isEmpty then epReadLoop prot unprot max min tryOnce { e with rd := rd' } inc'
          else epReadLoop prot unprot max min false { e with rd := rd', buf := e.buf ++ d } inc'
        else if d.isEmpty || !(t == 20 || t == 21 || t == 22 || t == 24) then
          -- empty non-application record / unknown content type
          let x := epFatal prot { e with rd := rd' } Err.unexpected_message.alert
          (x.1, inc', x.2, .localAlert Err.unexpected_message.alert)
        else if t == 20 then
          -- ChangeCipherSpec: dropped only in TLS 1.3 middlebox-compatibility mode (and only the
          -- one-byte value 1); otherwise it is a record of an unexpected type
          if e.ccsTolerated && d == [1] then epReadLoop prot unprot max min tryOnce { e with rd := rd' } inc'
          else if e.ccsTolerated && d.head? == some 1 then ({ e with rd := rd' }, inc', [], .unmodelled)
          else
            let x := epFatal prot { e with rd := rd' } Err.unexpected_message.alert
            (x.1, inc', x.2, .localAlert Err.unexpected_message.alert)
        else ({ e with rd := rd' }, inc', [], .unmodelled)
    else epReturn max e (r :: inc')

/-- two endpoints; `ab` / `ba` are the records in flight; the remaining fields are ghost state
    recording what the applications wrote and were handed -/
structure Conn (Kab Kba : Codec) where
  a : Endpoint Kab.SS Kba.RS
  b : Endpoint Kba.SS Kab.RS
  ab : List Rec
  ba : List Rec
  writtenA : Bytes
  writtenB : Bytes
  deliveredA : Bytes      -- handed to A's application (sent by B)
  deliveredB : Bytes
  /-- some operation ended in something other than done / data / stall -/
  failed : Bool

inductive Op
  | writeA (data : Bytes)
  | writeB (data : Bytes)
  /-- the application assigns `conn.recordSize = n` between operations -/
  | setSizeA (n : Nat)
  | setSizeB (n : Nat)
  /-- `conn.unread(b)` with `b` = the last `k` bytes the application was handed (peek and push back):
      `_readBuffer = b + _readBuffer` -/
  | unreadA (k : Nat)
  | unreadB (k : Nat)
  | readA (max : Option Nat) (min : Nat)
  | readB (max : Option Nat) (min : Nat)

def ReadOut.bytes : ReadOut → Bytes
  | .data b => b
  | _ => []

def ReadOut.isFail : ReadOut → Bool
  | .data _ => false
  | .stall => false
  | _ => true

def step {Kab Kba : Codec} (c : Conn Kab Kba) : Op → Conn Kab Kba
  | .writeA d =>
    let r := epWrite Kab.prot c.a d
    { c with a := r.1, ab := c.ab ++ r.2.1,
             writtenA := if r.2.2 = .done then c.writtenA ++ d else c.writtenA,
             failed := c.failed || r.2.2 != .done }
  | .writeB d =>
    let r := epWrite Kba.prot c.b d
    { c with b := r.1, ba := c.ba ++ r.2.1,
             writtenB := if r.2.2 = .done then c.writtenB ++ d else c.writtenB,
             failed := c.failed || r.2.2 != .done }
  | .unreadA k =>
    { c with a := { c.a with buf := c.deliveredA.drop (c.deliveredA.length - k) ++ c.a.buf },
             deliveredA := c.deliveredA.take (c.deliveredA.length - k) }
  | .unreadB k =>
    { c with b := { c.b with buf := c.deliveredB.drop (c.deliveredB.length - k) ++ c.b.buf },
             deliveredB := c.deliveredB.take (c.deliveredB.length - k) }
  | .setSizeA n => { c with a := { c.a with recordSize := recordSize n c.a.sendLimit } }
  | .setSizeB n => { c with b := { c.b with recordSize := recordSize n c.b.sendLimit } }
  | .readA mx mn =>
    let r := epReadLoop Kab.prot Kba.unprot mx mn true c.a c.ba
    { c with a := r.1, ba := r.2.1, ab := c.ab ++ r.2.2.1,
             deliveredA := c.deliveredA ++ r.2.2.2.bytes, failed := c.failed || r.2.2.2.isFail }
  | .readB mx mn =>
    let r := epReadLoop Kba.prot Kab.unprot mx mn true c.b c.ab
    { c with b := r.1, ab := r.2.1, ba := c.ba ++ r.2.2.1,
             deliveredB := c.deliveredB ++ r.2.2.2.bytes, failed := c.failed || r.2.2.2.isFail }

def run {Kab Kba : Codec} (c : Conn Kab Kba) (ops : List Op) : Conn Kab Kba := ops.foldl step c

end Tls.Rec
