/-
  Basic byte-string utilities shared by every model module.
  Import-free (core Lean only) so that the drivers link as native executables.
-/
namespace Tls

abbrev Bytes := List UInt8

def hexDigit (n : Nat) : Char :=
  if n < 10 then Char.ofNat (48 + n) else Char.ofNat (87 + n)

def toHex (b : Bytes) : String :=
  String.ofList (b.flatMap fun x => [hexDigit (x.toNat / 16), hexDigit (x.toNat % 16)])

def hexVal (c : Char) : Option Nat :=
  if '0' ≤ c ∧ c ≤ '9' then some (c.toNat - 48)
  else if 'a' ≤ c ∧ c ≤ 'f' then some (c.toNat - 87)
  else if 'A' ≤ c ∧ c ≤ 'F' then some (c.toNat - 55)
  else none

def ofHexChars : List Char → Option Bytes
  | [] => some []
  | [_] => none
  | a :: b :: rest => do
    let x ← hexVal a
    let y ← hexVal b
    let r ← ofHexChars rest
    pure (UInt8.ofNat (x * 16 + y) :: r)

/-- `-` denotes the empty byte string on the wire protocol. -/
def ofHex (s : String) : Option Bytes :=
  if s == "-" then some [] else ofHexChars s.toList

def hexOut (b : Bytes) : String := if b.isEmpty then "-" else toHex b

/-- big-endian encoding of `x` on `n` bytes (truncating, like `x & mask`). -/
def beEncode : Nat → Nat → Bytes
  | 0, _ => []
  | n+1, x => UInt8.ofNat ((x / 256 ^ n) % 256) :: beEncode n x

def beDecode (b : Bytes) : Nat := b.foldl (fun acc x => acc * 256 + x.toNat) 0

end Tls
