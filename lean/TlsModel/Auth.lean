import TlsModel.Gen.SigSchemes
/-
  C05 — "peer credentials are recorded only after proof of possession".

  Executable model (core Lean only) of every place where tlslite-ng decides that the peer has
  proved knowledge of the secret that belongs to the identity it presents, mirroring the code
  of the tree under check, not the RFC:

    sigHashesToList          TLSConnection._sigHashesToList
    checkCertChain           TLSConnection._check_certchain_with_settings (+ _clientGetKeyFromChain)
    keyVerify                RSAKey / ECDSAKey / EdDSAKey / Python_DSAKey .verify / .hashAndVerify
    skeHash, verifySKE       ServerKeyExchange.hash, KeyExchange.verifyServerKeyExchange and the
                             exception mapping of _clientKeyExchange
    calcVerifyBytes          KeyExchange.calcVerifyBytes
    verifyCV12               _serverCertKeyExchange (client CertificateVerify, TLS <= 1.2)
    verifyDC                 DelegatedCredential.verify
    verifyCV13Client         _clientTLS13Handshake (server CertificateVerify, delegated credential)
    verifyCV13Server         _serverTLS13Handshake (client CertificateVerify)
    phaServer                TLSRecordLayer._handle_srv_pha
    srp*                     SRPKeyExchange.processClientKeyExchange / processServerKeyExchange
    pskSelect                the PSK loop of _serverTLS13Handshake with HandshakeHelpers.verify_binder
    hs*                      the order of checks and of the write to `session.*` per handshake flavour
    wrapper                  _handshakeWrapperAsync with a Checker

  Cryptography is a parameter (`Crypto`): `verify` is the mathematical signature verification of
  an (algorithm, key) pair on the bytes handed to it, `hash` is `secureHash`, etc.  Python
  exceptions are explicit (`Reject.raise`): they leave `_handshakeWrapperAsync` through the bare
  `except:` (socket closed, no alert), whereas `_sendError` is `Reject.alert`.
  Versions are the minor number of (3, n); SSLv3 = 0.
-/
namespace Tls.Auth
open Gen

/-! ### outcomes -/

inductive Reject
  | alert (desc : Nat)      -- `_sendError(desc)`: fatal alert on the wire, TLSLocalAlert raised
  | raise (name : String)   -- any other exception: propagates, connection shut down, no alert
  deriving DecidableEq, Repr

namespace AD
def closeNotify : Nat := 0
def unexpectedMessage : Nat := 10
def badRecordMac : Nat := 20
def handshakeFailure : Nat := 40
def illegalParameter : Nat := 47
def decodeError : Nat := 50
def decryptError : Nat := 51
def insufficientSecurity : Nat := 71
def internalError : Nat := 80
def unknownPskIdentity : Nat := 115
def certificateRequired : Nat := 116
end AD

/-! ### certificates, settings -/

inductive CertAlg
  | rsa | rsaPss | ecdsa | ed25519 | ed448 | dsa
  deriving DecidableEq, Repr, Inhabited

/-- what the verifier reads from the end-entity certificate (`x509List[0]`) -/
structure Cert where
  key : Nat                 -- identity of the public key
  alg : CertAlg             -- `certAlg`
  curve : Curve := .other   -- `publicKey.curve_name` (ECDSA)
  baselen : Nat := 0        -- `public_key.curve.baselen` (ECDSA)
  bits : Nat := 0           -- `len(publicKey)`
  deriving DecidableEq, Repr, Inhabited

/-- certificate chain, end entity first; `[]` is "no certificates" (`cert_chain is None`) -/
abbrev Chain := List Cert

structure Settings where
  rsaSigHashes : List HashName
  rsaSchemes : List RsaPad
  ecdsaSigHashes : List HashName
  dsaSigHashes : List HashName
  moreSigSchemes : List MoreScheme
  eccCurves : List Curve          -- `settings.eccCurves` after CURVE_ALIASES (never contains `.other`)
  minKeySize : Nat
  maxKeySize : Nat
  dcSigAlgs : List SchemeId := []
  deriving Repr, Inhabited

def isBrainpoolMore : MoreScheme → Bool
  | .bp256 | .bp384 | .bp512 => true
  | _ => false

def isMldsaMore : MoreScheme → Bool
  | .mldsa44 | .mldsa65 | .mldsa87 => true
  | _ => false

/-- `sig_scheme != certType` for the certificate types that reach the first block -/
def moreMatchesCert (m : MoreScheme) (a : CertAlg) : Bool :=
  match m, a with
  | .ed25519, .ed25519 => true
  | .ed448, .ed448 => true
  | _, _ => false

def isBrainpoolCurve : Curve → Bool
  | .bp256 | .bp384 | .bp512 => true
  | _ => false

def lookupAttr (o : Option SchemeId) : Except Reject SchemeId :=
  match o with
  | some x => .ok x
  | none => .error (.raise "AttributeError")

/-- the `more_sig_schemes` loop -/
def moreLoop (s : Settings) (ct : Option CertAlg) (ver : Nat) : Except Reject (List SchemeId) :=
  (s.moreSigSchemes.filter fun m =>
      !(ver < 4 && isMldsaMore m) && !(ver < 3) &&
      (match ct with | some a => moreMatchesCert m a | none => true) &&
      !(ver < 4 && isBrainpoolMore m)).mapM fun m => lookupAttr (moreAttr m)

def brainpoolSchemeOf : Curve → Option SchemeId
  | .bp256 => moreAttr .bp256
  | .bp384 => moreAttr .bp384
  | _ => moreAttr .bp512      -- `else: assert curve == "BRAINPOOLP512r1"`

/-- the ECDSA block -/
def ecdsaLoop (s : Settings) (pk : Option Cert) (ver : Nat) : Except Reject (List SchemeId) :=
  match pk with
  | some c =>
    if ver > 3 && isBrainpoolCurve c.curve then do
      let x ← lookupAttr (brainpoolSchemeOf c.curve)
      pure [x]
    else if ver > 3 then
      -- `curve_name_to_hash_name` is evaluated inside the loop: it raises only if the loop
      -- reaches it, i.e. if some hash survives the sha1/sha224 filter
      let hs := s.ecdsaSigHashes.filter fun h => !(h == .sha1 || h == .sha224)
      match hs with
      | [] => pure []
      | _ =>
        match curveHash c.curve with
        | none => .error (.raise "TLSIllegalParameterException")
        | some mh => pure ((hs.filter fun h => h == mh).map fun h => (hashId h, sigEcdsa))
    else pure (s.ecdsaSigHashes.map fun h => (hashId h, sigEcdsa))
  | none =>
    pure ((s.ecdsaSigHashes.filter fun h => !(ver > 3 && (h == .sha1 || h == .sha224))).map
      fun h => (hashId h, sigEcdsa))

/-- body of the inner RSA loop for one (schemeName, hashName) -/
def rsaInner (ct : Option CertAlg) (privSmall : Bool) (p : RsaPad) (h : HashName) : List SchemeId :=
  if ct = some .rsaPss ∧ p = .pkcs1 then []
  else if p = .pss ∧ h = .sha512 ∧ privSmall = true then []
  else
    let fallback : List SchemeId := if p = .pkcs1 then [(hashId h, sigRsa)] else []
    let first : Option (List SchemeId) :=       -- `none` = AttributeError in the first getattr
      if ct ≠ some .rsaPss then (rsaAttr p false h).map fun x => [x] else some []
    match first with
    | none => fallback
    | some l1 =>
      if ct ≠ some .rsa then
        match rsaAttr p true h with
        | some y => l1 ++ [y]
        | none => l1 ++ fallback
      else l1

def rsaLoop (s : Settings) (ct : Option CertAlg) (privSmall : Bool) (ver : Nat) : List SchemeId :=
  (s.rsaSchemes.filter fun p => !(ver > 3 && p == .pkcs1)).flatMap fun p =>
    s.rsaSigHashes.flatMap fun h => rsaInner ct privSmall p h

/-- `TLSConnection._sigHashesToList(settings, privateKey, certList, version)`;
    `privSmall` is `privateKey and privateKey.n < 2**2047`. -/
def sigHashesToList (s : Settings) (privSmall : Bool) (certList : Chain) (ver : Nat) :
    Except Reject (List SchemeId) := do
  let pk : Option Cert := certList.head?
  let ct : Option CertAlg := pk.map (·.alg)
  let l1 ← if ct.isNone || ct == some .ed25519 || ct == some .ed448 then moreLoop s ct ver else pure []
  let l2 ← if ct.isNone || ct == some .ecdsa then ecdsaLoop s pk ver else pure []
  let l3 := if ct.isNone || ct == some .dsa then
      (s.dsaSigHashes.filter fun _ => !(ver > 3)).map fun h => (hashId h, sigDsa) else []
  let l4 := if ct.isNone || ct == some .rsa || ct == some .rsaPss then rsaLoop s ct privSmall ver else []
  pure (l1 ++ l2 ++ l3 ++ l4)

/-! ### `_check_certchain_with_settings` / `_clientGetKeyFromChain` -/

def curve13Ok : Curve → Bool
  | .other => false
  | _ => true

def checkCertChain (s : Settings) (ver : Nat) (chain : Chain) : Except Reject Cert :=
  match chain with
  | [] => .error (.raise "IndexError")     -- callers guard against the empty chain
  | c :: _ =>
    match c.alg with
    | .ecdsa =>
      if ver ≤ 3 ∧ ¬ (c.curve ∈ s.eccCurves) then .error (.alert AD.handshakeFailure)
      else if ver ≥ 4 ∧ curve13Ok c.curve = false then .error (.alert AD.illegalParameter)
      else if ver ≥ 4 then
        match curveHash c.curve with
        | some h => if h ∈ s.ecdsaSigHashes then .ok c else .error (.alert AD.illegalParameter)
        | none => .error (.raise "AssertionError")
      else .ok c
    | .ed25519 =>
      if ver < 3 then .error (.alert AD.illegalParameter)
      else if ¬ (MoreScheme.ed25519 ∈ s.moreSigSchemes) then .error (.alert AD.handshakeFailure)
      else .ok c
    | .ed448 =>
      if ver < 3 then .error (.alert AD.illegalParameter)
      else if ¬ (MoreScheme.ed448 ∈ s.moreSigSchemes) then .error (.alert AD.handshakeFailure)
      else .ok c
    | _ =>
      if c.bits < s.minKeySize then .error (.alert AD.handshakeFailure)
      else if c.bits > s.maxKeySize then .error (.alert AD.handshakeFailure)
      else .ok c

/-- `_clientGetKeyFromChain` (TACK not modelled) -/
def clientGetKeyFromChain (s : Settings) (ver : Nat) (chain : Chain) : Except Reject Cert :=
  match chain with
  | [] => .error (.alert AD.illegalParameter)
  | _ => checkCertChain s ver chain

/-! ### cryptography as a parameter -/

/-- the mathematical algorithm a key object ends up running -/
inductive SigAlg
  | rsaPkcs1                          -- EMSA-PKCS1-v1_5 type 1 padding of the given bytes
  | rsaPss (h : HashName) (salt : Nat)
  | ecdsa | eddsa | dsa
  deriving DecidableEq, Repr

structure Crypto where
  verify : Nat → SigAlg → Bytes → Bytes → Bool     -- key, algorithm, data, signature
  hash : HashName → Bytes → Bytes                  -- secureHash
  hashLen : HashName → Nat                         -- getattr(hashlib, h)().digest_size
  pkcs1Prefix : HashName → Bytes                   -- DigestInfo header of addPKCS1Prefix
  pkcs1Sha1Alt : Bytes                             -- the SHA-1 header without NULL
  derOk : Bytes → Bool                             -- DER SEQUENCE{INTEGER,INTEGER} parses (DSA)
  hmac : HashName → Bytes → Bytes → Bytes          -- secureHMAC(key, data, h)
  finKey : HashName → Bytes → Bytes                -- HKDF_expand_label(secret, "finished", "", n, h)
  prf12 : Nat → Bytes → Bytes → Bytes → Bytes      -- calc_key(version, master, label, handshake hashes)
  binderKey : HashName → Bytes → Bool → Bytes      -- early secret -> binder key (external / resumption)

inductive Method | verify | hashAndVerify
  deriving DecidableEq, Repr

/-- arguments `(padding, hashAlg, saltLen)` as passed by the callers -/
structure VArgs where
  pad : Option RsaPad := none
  hash : Option HashName := none
  salt : Option Nat := none
  deriving Repr

def hashUsable : HashName → Bool
  | .none | .intrinsic => false
  | _ => true

def rsaVerify (C : Crypto) (c : Cert) (sig data : Bytes) (a : VArgs) : Except Reject Bool :=
  match a.pad with
  | some .pkcs1 =>
    if c.alg = .rsaPss then .ok false
    else match a.hash with
      | some .sha1 =>
        .ok (C.verify c.key .rsaPkcs1 (C.pkcs1Prefix .sha1 ++ data) sig ||
             C.verify c.key .rsaPkcs1 (C.pkcs1Sha1Alt ++ data) sig)
      | some h => .ok (C.verify c.key .rsaPkcs1 (C.pkcs1Prefix h ++ data) sig)
      | none => .ok (C.verify c.key .rsaPkcs1 data sig)
  | some .pss =>
    match a.hash, a.salt with
    | some h, some n => .ok (C.verify c.key (.rsaPss h n) data sig)
    | _, _ => .error (.raise "TypeError")
  | none => .error (.raise "UnknownRSAType")

/-- python-ecdsa `verify_digest` without `allow_truncate`: a digest longer than the curve order
    raises BadDigestError, which `Python_ECDSAKey._verify` catches: verification fails -/
def ecdsaVerify (C : Crypto) (c : Cert) (sig data : Bytes) : Except Reject Bool :=
  if data.length > c.baselen then .ok false
  else .ok (C.verify c.key .ecdsa data sig)

/-- `publicKey.<method>(sig, data, pad, hash, salt)` for the key class of the certificate -/
def keyVerify (C : Crypto) (c : Cert) (m : Method) (sig data : Bytes) (a : VArgs) : Except Reject Bool :=
  match c.alg, m with
  | .rsa, .verify | .rsaPss, .verify => rsaVerify C c sig data a
  | .rsa, .hashAndVerify | .rsaPss, .hashAndVerify =>
    match a.pad, a.hash with
    | some _, some h =>
      if hashUsable h then rsaVerify C c sig (C.hash h data) a else .error (.raise "ValueError")
    | _, _ => .error (.raise "AttributeError")
  | .ecdsa, .verify => ecdsaVerify C c sig data
  | .ecdsa, .hashAndVerify =>
    match a.hash with
    | some h => if hashUsable h then ecdsaVerify C c sig (C.hash h data)
                else .error (.raise "ValueError")
    | none => .error (.raise "AttributeError")
  | .ed25519, .verify | .ed448, .verify => .error (.raise "TypeError")
  | .ed25519, .hashAndVerify | .ed448, .hashAndVerify => .ok (C.verify c.key .eddsa data sig)
  | .dsa, .verify =>
    if sig = [] then .ok false
    else if C.derOk sig = false then .ok false      -- UnexpectedDER is caught: not a signature
    else .ok (C.verify c.key .dsa data sig)
  | .dsa, .hashAndVerify => .error (.raise "TypeError")

/-! ### transcripts -/

/-- `HandshakeHashes`: the concatenation of the handshake messages hashed so far -/
abbrev Transcript := Bytes

def digest (C : Crypto) (h : HashName) (t : Transcript) : Bytes := C.hash h t
/-- `handshakeHashes.digest()` without argument: MD5 ‖ SHA-1 -/
def digestLegacy (C : Crypto) (t : Transcript) : Bytes := C.hash .md5 t ++ C.hash .sha1 t

/-- ASCII labels are written out as byte lists so that the kernel can compute with them -/
def lblTls13 : Bytes := [84, 76, 83, 32, 49, 46, 51, 44, 32]            -- "TLS 1.3, "
def lblCertVerify : Bytes := [32, 67, 101, 114, 116, 105, 102, 105, 99, 97, 116, 101, 86, 101, 114, 105, 102, 121]   -- " CertificateVerify"
def lblDc : Bytes := [84, 76, 83, 44, 32, 115, 101, 114, 118, 101, 114, 32, 100, 101, 108, 101, 103, 97, 116, 101, 100, 32, 99, 114, 101, 100, 101, 110, 116, 105, 97, 108, 115]   -- "TLS, server delegated credentials"
def lblServerFinished : Bytes := [115, 101, 114, 118, 101, 114, 32, 102, 105, 110, 105, 115, 104, 101, 100]   -- "server finished"
def lblClientFinished : Bytes := [99, 108, 105, 101, 110, 116, 32, 102, 105, 110, 105, 115, 104, 101, 100]   -- "client finished"

def spaces64 : Bytes := List.replicate 64 0x20

/-- `b'\x20'*64 + b'TLS 1.3, ' + peer_tag + b' CertificateVerify' + b'\x00' + transcript_hash` -/
def tbs13 (tag : Bytes) (th : Bytes) : Bytes :=
  spaces64 ++ lblTls13 ++ tag ++ lblCertVerify ++ [0] ++ th

def tagClient : Bytes := [99, 108, 105, 101, 110, 116]   -- "client"
def tagServer : Bytes := [115, 101, 114, 118, 101, 114]   -- "server"

def isEddsaId (sid : SchemeId) : Bool := sid == (8, 7) || sid == (8, 8)
def isEddsaOrMldsaId (sid : SchemeId) : Bool :=
  isEddsaId sid || sid == (9, 4) || sid == (9, 5) || sid == (9, 6)

/-- TLS 1.2 branch of `calcVerifyBytes`: (hashName, padding == 'pkcs1') for a signature algorithm -/
def cvParams12 (sid : SchemeId) : Except Reject (HashName × Bool) :=
  if isEddsaId sid then .ok (.intrinsic, false)
  else if sid.2 = sigDsa then
    match hashRepr sid.1 with | some h => .ok (h, false) | none => .error (.raise "TypeError")
  else if sid.2 ≠ sigEcdsa then
    match schemeRepr sid.1 sid.2 with
    | none =>
      match hashRepr sid.1 with | some h => .ok (h, true) | none => .error (.raise "TypeError")
    | some info =>
      match info.pad with
      | some p => .ok (info.hash, p == .pkcs1)
      | none => .error (.raise "AssertionError")       -- getPadding asserts kType == 'rsa'
  else
    match hashRepr sid.1 with | some h => .ok (h, false) | none => .error (.raise "TypeError")

/-- `KeyExchange.calcVerifyBytes` for (3,1)…(3,4); `sigAlg = none` is Python `None` (TLS < 1.2).
    SSLv3 is not modelled (`ValueError` here). -/
def calcVerifyBytes (C : Crypto) (ver : Nat) (t : Transcript) (sigAlg : Option SchemeId)
    (prf : HashName) (tag : Bytes) (keyIsEcdsa : Bool) : Except Reject Bytes :=
  if ver = 1 ∨ ver = 2 then
    .ok (if keyIsEcdsa then digest C .sha1 t else digestLegacy C t)
  else if ver = 3 then
    match sigAlg with
    | none => .error (.raise "TypeError")
    | some sid =>
      match cvParams12 sid with
      | .error e => .error e
      | .ok (h, pk) =>
        -- `handshakeHashes.digest(hashName)`: "intrinsic" returns the raw buffer
        let vb := if h = .intrinsic then t else digest C h t
        if h = .none then .error (.raise "ValueError")
        else .ok (if pk then C.pkcs1Prefix h ++ vb else vb)
  else if ver = 4 then
    match sigAlg with
    | none => .error (.raise "TypeError")
    | some sid =>
      let hn : Option HashName :=
        match schemeRepr sid.1 sid.2 with
        | some info => some info.hash
        | none => hashRepr sid.1
      let vb := tbs13 tag (digest C prf t)
      match hn with
      | some .intrinsic => .ok vb
      | some h => if hashUsable h then .ok (C.hash h vb) else .error (.raise "ValueError")
      | none => .error (.raise "ValueError")
  else .error (.raise "ValueError")

/-! ### ServerKeyExchange signature (client side, TLS ≤ 1.2) -/

structure SKE where
  hashAlg : Nat
  signAlg : Nat
  params : Bytes          -- `writeParams()`
  signature : Bytes
  deriving Repr

/-- which pre-1.2 digest the suite family uses -/
inductive SuiteSig | rsaLike | ecdsaOrDsa
  deriving DecidableEq, Repr

/-- `ServerKeyExchange.hash(clientRandom, serverRandom)` -/
def skeHash (C : Crypto) (ver : Nat) (fam : SuiteSig) (ske : SKE) (cr sr : Bytes) : Except Reject Bytes :=
  let b := cr ++ sr ++ ske.params
  if ver ≥ 3 then
    let hn : Except Reject HashName :=
      match schemeRepr ske.hashAlg ske.signAlg with
      | some info => .ok info.hash
      | none =>
        match hashRepr ske.hashAlg with
        | some h => .ok h
        | none => .error (.raise "AssertionError")
    match hn with
    | .error e => .error e
    | .ok .intrinsic => .ok b
    | .ok h => if h = .none then .error (.raise "ValueError") else .ok (C.hash h b)
  else
    match fam with
    | .ecdsaOrDsa => .ok (C.hash .sha1 b)
    | .rsaLike => .ok (C.hash .md5 b ++ C.hash .sha1 b)

/-- internal exceptions of `verifyServerKeyExchange` before `_clientKeyExchange` maps them -/
inductive SkeExc
  | illegalParameter | decryptionFailed | other (name : String)

def liftKV (r : Except Reject Bool) : Except SkeExc Bool :=
  match r with
  | .ok b => .ok b
  | .error (.raise n) => .error (.other n)
  | .error (.alert _) => .error (.other "alert")

def liftH (r : Except Reject Bytes) : Except SkeExc Bytes :=
  match r with
  | .ok b => .ok b
  | .error (.raise n) => .error (.other n)
  | .error (.alert _) => .error (.other "alert")

/-- `KeyExchange._tls12_verify_SKE` -/
def tls12VerifySKE (C : Crypto) (fam : SuiteSig) (ske : SKE) (pk : Cert) (cr sr : Bytes)
    (valid : List SchemeId) : Except SkeExc Unit := do
  let sid : SchemeId := (ske.hashAlg, ske.signAlg)
  if ¬ (sid ∈ valid) then throw .illegalParameter
  if isEddsaId sid then
    if ske.signature = [] then throw .illegalParameter
    let hb ← liftH (skeHash C 3 fam ske cr sr)
    let ok ← liftKV (keyVerify C pk .hashAndVerify ske.signature hb {})
    if ok then pure () else throw .decryptionFailed
  else if ske.signAlg = sigEcdsa then
    match hashRepr ske.hashAlg with
    | none => throw .illegalParameter
    | some hn =>
      let hb ← liftH (skeHash C 3 fam ske cr sr)
      if pk.alg ≠ .ecdsa then throw (.other "AttributeError")     -- publicKey.public_key.curve
      let ok ← liftKV (keyVerify C pk .verify ske.signature (hb.take pk.baselen) { hash := some hn })
      if ok then pure () else throw .decryptionFailed
  else if ske.signAlg = sigDsa then
    let hb ← liftH (skeHash C 3 fam ske cr sr)
    let ok ← liftKV (keyVerify C pk .verify ske.signature hb {})
    if ok then pure () else throw .decryptionFailed
  else
    let args : Except SkeExc VArgs :=
      match schemeRepr ske.hashAlg ske.signAlg with
      | some info =>
        match info.pad with
        | some p => .ok { pad := some p, hash := some info.hash, salt := some (C.hashLen info.hash) }
        | none => .error (.other "AssertionError")
      | none =>
        if ske.signAlg ≠ sigRsa then .error (.other "TLSInternalError")
        else match hashRepr ske.hashAlg with
          | some h => .ok { pad := some .pkcs1, hash := some h, salt := some 0 }
          | none => .error .illegalParameter
    let a ← args
    let hb ← liftH (skeHash C 3 fam ske cr sr)
    if ske.signature = [] then throw .illegalParameter
    let ok ← liftKV (keyVerify C pk .verify ske.signature hb a)
    if ok then pure () else throw .decryptionFailed

/-- `KeyExchange.verifyServerKeyExchange` -/
def verifyServerKeyExchange (C : Crypto) (ver : Nat) (fam : SuiteSig) (ske : SKE) (pk : Cert)
    (cr sr : Bytes) (valid : List SchemeId) : Except SkeExc Unit :=
  if ver < 3 then do
    let hb ← liftH (skeHash C ver fam ske cr sr)
    if ske.signature = [] then throw .illegalParameter
    -- `publicKey.verify(sigBytes, hashBytes)`: RSA default padding is 'pkcs1'
    let a : VArgs := match pk.alg with
      | .rsa | .rsaPss => { pad := some .pkcs1 }
      | _ => {}
    let ok ← liftKV (keyVerify C pk .verify ske.signature hb a)
    if ok then pure () else throw .decryptionFailed
  else tls12VerifySKE C fam ske pk cr sr valid

/-- the certificate and ServerKeyExchange part of `_clientKeyExchange`:
    returns the chain that will be written to `session.serverCertChain`. -/
def verifySKE (C : Crypto) (s : Settings) (ver : Nat) (fam : SuiteSig) (chain : Chain)
    (ske : Option SKE) (cr sr : Bytes) : Except Reject Chain := do
  let pk ← clientGetKeyFromChain s ver chain
  match ske with
  | none => pure chain
  | some ske =>
    let valid ← sigHashesToList s false chain 3
    match verifyServerKeyExchange C ver fam ske pk cr sr valid with
    | .ok () => pure chain
    | .error .illegalParameter => throw (.alert AD.illegalParameter)
    | .error .decryptionFailed => throw (.alert AD.decryptError)
    | .error (.other n) => throw (.raise n)

/-! ### CertificateVerify -/

structure CertVerify where
  scheme : Option SchemeId     -- `signatureAlgorithm` (None before TLS 1.2)
  signature : Bytes
  deriving Repr

/-- the branch on the signature algorithm in `_serverCertKeyExchange` -/
def cv12Call (C : Crypto) (pk : Cert) (sigAlg : Option SchemeId) (sig vb : Bytes) : Except Reject Bool :=
  match sigAlg with
  | some sid =>
    if isEddsaId sid then keyVerify C pk .hashAndVerify sig vb { hash := some .intrinsic }
    else if sid.2 = sigDsa then
      keyVerify C pk .verify sig vb { hash := hashRepr sid.1 }
    else if sid.2 ≠ sigEcdsa then
      match schemeRepr sid.1 sid.2 with
      | none => keyVerify C pk .verify sig vb { pad := some .pkcs1, salt := some 0 }
      | some info =>
        match info.pad with
        | some .pss => keyVerify C pk .verify sig vb
            { pad := some .pss, hash := some info.hash, salt := some (C.hashLen info.hash) }
        | some .pkcs1 => keyVerify C pk .verify sig vb { pad := some .pkcs1, salt := some 0 }
        | none => .error (.raise "AssertionError")
    else
      if pk.alg ≠ .ecdsa then .error (.raise "AttributeError")
      else keyVerify C pk .verify sig (vb.take pk.baselen) { hash := hashRepr sid.1 }
  | none => keyVerify C pk .verify sig vb { pad := some .pkcs1, salt := some 0 }

/-- the TLS 1.2 admission test on the scheme named in CertificateVerify; `none` before TLS 1.2 -/
def cv12Admit (s : Settings) (ver : Nat) (chain : Chain) (cv : CertVerify) : Except Reject (Option SchemeId) :=
  if ver = 3 then do
    let valid ← sigHashesToList s false chain ver
    match cv.scheme with
    | none => throw (.alert AD.illegalParameter)
    | some sid =>
      if ¬ (sid ∈ valid) then throw (.alert AD.illegalParameter)
      pure (some sid)
  else pure none

/-- signed bytes, certificate check, key operation (after the admission test) -/
def cv12Tail (C : Crypto) (s : Settings) (ver : Nat) (c0 : Cert) (rest : Chain) (t : Transcript)
    (sigAlg : Option SchemeId) (sig : Bytes) : Except Reject Chain := do
  let vb ← calcVerifyBytes C ver t sigAlg .sha256 tagClient (c0.alg == .ecdsa)
  let pk ← checkCertChain s ver (c0 :: rest)
  let ok ← cv12Call C pk sigAlg sig vb
  if ok then pure (c0 :: rest) else throw (.alert AD.decryptError)

/-- TLS ≤ 1.2, server side (`_serverCertKeyExchange`): returns the chain that goes to the session -/
def verifyCV12 (C : Crypto) (s : Settings) (ver : Nat) (chain : Chain) (t : Transcript)
    (cv : CertVerify) : Except Reject Chain :=
  match chain with
  | [] => pure []          -- no client certificate: nothing to verify, nothing recorded
  | c0 :: rest => do
    let sigAlg ← cv12Admit s ver (c0 :: rest) cv
    let sigAlg : Option SchemeId :=
      match sigAlg with
      | none => if c0.alg = .ecdsa then some (hashId .sha1, sigEcdsa) else none
      | some x => some x
    cv12Tail C s ver c0 rest t sigAlg cv.signature

/-- the four-way branch shared by the TLS 1.3 verifiers; `curveCheck` is the extra test the
    client side makes in the ECDSA branch; `bpHashFrom` is the scheme whose name the brainpool
    branch reads the hash from (the server side reads a stale variable, see `verifyCV13Server`). -/
def cv13Call (C : Crypto) (pk : Cert) (sid : SchemeId) (sig ctx : Bytes) (curveCheck : Bool)
    (bpHashFrom : Option SchemeId) : Except Reject Bool :=
  if isEddsaOrMldsaId sid then
    keyVerify C pk .hashAndVerify sig ctx { hash := some .intrinsic }
  else if sid.2 = sigEcdsa then
    match hashRepr sid.1 with
    | none => .error (.raise "TypeError")
    | some hn =>
      if curveCheck then
        if pk.alg ≠ .ecdsa then .error (.raise "AttributeError")
        else match curveHash pk.curve with
          | none => .error (.raise "TLSIllegalParameterException")
          | some mh =>
            if hn ≠ mh then .error (.raise "TLSIllegalParameterException")
            else keyVerify C pk .verify sig ctx { hash := some hn }
      else keyVerify C pk .verify sig ctx { hash := some hn }
  else if sid ∈ brainpool13 then
    match bpHashFrom with
    | none => .error (.raise "NameError")
    | some b =>
      match schemeRepr b.1 b.2 with
      | some info => keyVerify C pk .verify sig ctx { hash := some info.hash }
      | none => .error (.raise "ValueError")
  else
    match schemeRepr sid.1 sid.2 with
    | none => .error (.raise "TypeError")
    | some info =>
      match info.pad with
      | none => .error (.raise "AssertionError")
      | some p => keyVerify C pk .verify sig ctx
          { pad := some p, hash := some info.hash, salt := some (C.hashLen info.hash) }

/-! ### delegated credential -/

structure DelegatedCred where
  dcKey : Cert                    -- `cred.pub_key` with its algorithm
  dcScheme : SchemeId             -- `cred.dc_cert_verify_algorithm`
  credBytes : Bytes               -- `cred.bytes`
  algorithm : SchemeId            -- scheme of the delegation signature
  signature : Bytes
  deriving Repr

/-- `compute_certificate_dc_sig_context` -/
def dcContext (certBytes credBytes : Bytes) (alg : SchemeId) : Bytes :=
  spaces64 ++ lblDc ++ [0] ++ certBytes ++ credBytes ++
    [UInt8.ofNat alg.1, UInt8.ofNat alg.2]

/-- the branch on the delegation algorithm in `DelegatedCredential.verify` -/
def dcCall (C : Crypto) (cert : Cert) (sid : SchemeId) (sig ctx : Bytes) : Except Reject Bool :=
  if isEddsaId sid then keyVerify C cert .hashAndVerify sig ctx { hash := some .intrinsic }
  else if sid.2 = sigEcdsa then
    match hashRepr sid.1 with
    | none => .error (.raise "TypeError")
    | some hn =>
      if cert.alg ≠ .ecdsa then .error (.raise "AttributeError")
      else match curveHash cert.curve with
        | none => .error (.raise "TLSIllegalParameterException")
        | some mh =>
          if hn ≠ mh then .error (.raise "TLSIllegalParameterException")
          else keyVerify C cert .hashAndVerify sig ctx { hash := some hn }
  else if sid ∈ brainpool13 then
    match schemeRepr sid.1 sid.2 with
    | some info => keyVerify C cert .hashAndVerify sig ctx { hash := some info.hash }
    | none => .error (.raise "ValueError")
  else
    match schemeRepr sid.1 sid.2 with
    | none => .error (.raise "TypeError")
    | some info =>
      match info.pad with
      | none => .error (.raise "AssertionError")
      | some p => keyVerify C cert .hashAndVerify sig ctx
          { pad := some p, hash := some info.hash, salt := some (C.hashLen info.hash) }

/-- `DelegatedCredential.verify(certificate_entry, client_hello, cert_verify)`;
    `chSigAlgs` = signature_algorithms of the ClientHello, `chDcAlgs` = delegated_credential ext. -/
def verifyDC (C : Crypto) (cert : Cert) (certBytes : Bytes) (chSigAlgs chDcAlgs : List SchemeId)
    (dc : DelegatedCred) (cvScheme : SchemeId) : Except Reject Unit := do
  if ¬ (dc.dcScheme ∈ chDcAlgs) then throw (.raise "TLSIllegalParameterException")
  if ¬ (dc.algorithm ∈ chSigAlgs) then throw (.raise "TLSIllegalParameterException")
  if dc.dcScheme ≠ cvScheme then throw (.raise "TLSIllegalParameterException")
  let ctx := dcContext certBytes dc.credBytes dc.algorithm
  let sid := dc.algorithm
  let ok ← dcCall C cert sid dc.signature ctx
  if ok then pure () else throw (.raise "TLSDecryptionFailed")

/-! ### TLS 1.3 CertificateVerify -/

/-- client side (`_clientTLS13Handshake`): server Certificate (+ optional delegated credential)
    and CertificateVerify.  `chSigAlgs` is the signature_algorithms list of the ClientHello. -/
def verifyCV13ClientRaw (C : Crypto) (s : Settings) (chSigAlgs : List SchemeId) (chain : Chain)
    (certBytes : Bytes) (dcs : List DelegatedCred) (t : Transcript) (prf : HashName)
    (cv : CertVerify) : Except Reject Chain := do
  let sid ← match cv.scheme with
    | some x => pure x
    | none => throw (.raise "TypeError")
  -- the scheme must be advertised (signature_algorithms or delegated_credential) before it is used
  if ¬ (sid ∈ chSigAlgs ++ s.dcSigAlgs) then throw (.alert AD.illegalParameter)
  -- `calcVerifyBytes` runs before `_clientGetKeyFromChain`
  let ctx ← calcVerifyBytes C 4 t (some sid) prf tagServer false
  let pk ← clientGetKeyFromChain s 4 chain
  if dcs.length > 1 then throw (.alert AD.illegalParameter)
  let (pk', sid') ← match dcs with
    | dc :: _ => do
      if s.dcSigAlgs = [] then throw (.alert AD.unexpectedMessage)
      verifyDC C pk certBytes chSigAlgs s.dcSigAlgs dc sid
      pure (dc.dcKey, dc.dcScheme)
    | [] => do
      let valid ← sigHashesToList s false chain 4
      if ¬ (sid ∈ chSigAlgs) ∨ ¬ (sid ∈ valid) then throw (.alert AD.illegalParameter)
      pure (pk, sid)
  let ok ← cv13Call C pk' sid' cv.signature ctx true (some sid')
  if ok then pure chain else throw (.raise "TLSDecryptionFailed")

/-- `_handshakeClientAsyncHelper` turns the exceptions raised by the TLS 1.3 client's checks into
    alerts -/
def mapExc13 : Reject → Reject
  | .raise n =>
    if n = "TLSIllegalParameterException" then .alert AD.illegalParameter
    else if n = "TLSDecryptionFailed" then .alert AD.decryptError
    else if n = "TLSDecodeError" then .alert AD.decodeError
    else if n = "BadCertificateError" then .alert 42
    else .raise n
  | e => e

def liftExc13 {α : Type} (r : Except Reject α) : Except Reject α :=
  match r with
  | .ok x => .ok x
  | .error e => .error (mapExc13 e)

/-- the client-side check as seen from outside `_clientTLS13Handshake` -/
def verifyCV13Client (C : Crypto) (s : Settings) (chSigAlgs : List SchemeId) (chain : Chain)
    (certBytes : Bytes) (dcs : List DelegatedCred) (t : Transcript) (prf : HashName)
    (cv : CertVerify) : Except Reject Chain :=
  liftExc13 (verifyCV13ClientRaw C s chSigAlgs chain certBytes dcs t prf cv)

/-- server side (`_serverTLS13Handshake`): client Certificate and CertificateVerify.
    `ownScheme` is the scheme the server itself signed with (the stale `scheme` variable read by
    the brainpool branch). -/
def verifyCV13Server (C : Crypto) (s : Settings) (offered : List SchemeId) (chain : Chain)
    (t : Transcript) (prf : HashName) (ownScheme : Option SchemeId) (cv : CertVerify) :
    Except Reject Chain := do
  match chain with
  | [] => pure []
  | pk :: _ =>
    let sid ← match cv.scheme with
      | some x => pure x
      | none => throw (.raise "TypeError")
    let valid ← sigHashesToList s false chain 4
    -- `offered` = `certificate_request.supported_signature_algs`
    if ¬ (sid ∈ valid) ∨ ¬ (sid ∈ offered) then throw (.alert AD.illegalParameter)
    let ctx ← calcVerifyBytes C 4 t (some sid) prf tagClient false
    let ok ← cv13Call C pk sid cv.signature ctx false ownScheme
    if ok then pure chain else throw (.alert AD.decryptError)

/-! ### Finished -/

/-- TLS 1.3 Finished verify_data -/
def finished13 (C : Crypto) (prf : HashName) (trafficSecret : Bytes) (t : Transcript) : Bytes :=
  C.hmac prf (C.finKey prf trafficSecret) (digest C prf t)

/-- TLS ≤ 1.2 Finished verify_data -/
def finished12 (C : Crypto) (ver : Nat) (master : Bytes) (label : Bytes) (t : Transcript) : Bytes :=
  C.prf12 ver master label t

/-! ### post-handshake authentication (`_handle_srv_pha`) -/

structure CertRequest where
  context : Bytes
  sigAlgs : List SchemeId       -- `supported_signature_algs`
  bytes : Bytes                 -- `write()`
  deriving Repr

structure PhaState where
  requests : List (Bytes × CertRequest)    -- `_cert_requests`
  clientCertChain : Chain                  -- `session.clientCertChain`
  firstHs : Transcript                     -- `_first_handshake_hashes`
  clAppSecret : Bytes
  prf : HashName
  certRequired : Bool
  deriving Repr

def popRequest (ctx : Bytes) : List (Bytes × CertRequest) → Option (CertRequest × List (Bytes × CertRequest))
  | [] => none
  | (k, v) :: r =>
    if k = ctx then some (v, r)
    else match popRequest ctx r with
      | some (x, r') => some (x, (k, v) :: r')
      | none => none

/-- the three-way branch of `_handle_srv_pha` -/
def phaCall (C : Crypto) (pk : Cert) (sid : SchemeId) (sig sc : Bytes) : Except Reject Bool :=
  if isEddsaId sid then keyVerify C pk .hashAndVerify sig sc { hash := some .intrinsic }
  else if sid.2 = sigEcdsa then keyVerify C pk .verify sig sc { hash := hashRepr sid.1 }
  else
    match schemeRepr sid.1 sid.2 with
    | none => .error (.raise "TypeError")
    | some info =>
      match info.pad with
      | none => .error (.raise "AssertionError")
      | some p => keyVerify C pk .verify sig sc
          { pad := some p, hash := some info.hash, salt := some (C.hashLen info.hash) }

/-- default `HandshakeSettings()` is a parameter (`dflt`): `_handle_srv_pha` builds one itself -/
def phaServer (C : Crypto) (dflt : Settings) (st : PhaState) (crContext : Bytes) (chain : Chain)
    (certMsg : Bytes) (cv : CertVerify) (cvBytes : Bytes) (finVerify : Bytes) :
    Except Reject PhaState := do
  if crContext = [] then throw (.alert AD.illegalParameter)
  let (cr, rest) ← match popRequest crContext st.requests with
    | some x => pure x
    | none => throw (.alert AD.illegalParameter)
  let ctx0 : Transcript := st.firstHs ++ cr.bytes ++ certMsg
  let ctx1 : Transcript ←
    match chain with
    | pk :: _ => do
      let sid ← match cv.scheme with
        | some x => pure x
        | none => throw (.raise "TypeError")
      if ¬ (sid ∈ cr.sigAlgs) then throw (.alert AD.illegalParameter)
      let avail ← sigHashesToList dflt false chain 4
      if ¬ (sid ∈ avail) then throw (.alert AD.illegalParameter)
      -- `getattr(SignatureScheme, SignatureScheme.toRepr(...))`
      if (schemeRepr sid.1 sid.2).isNone then throw (.raise "TypeError")
      let sc ← calcVerifyBytes C 4 ctx0 (some sid) st.prf tagClient false
      let ok ← phaCall C pk sid cv.signature sc
      if ¬ ok then throw (.alert AD.decryptError)
      pure (ctx0 ++ cvBytes)
    | [] =>
      if st.certRequired then throw (.alert AD.certificateRequired)
      pure ctx0
  let vd := finished13 C st.prf st.clAppSecret ctx1
  if finVerify ≠ vd then throw (.alert AD.decryptError)
  pure { st with requests := rest, clientCertChain := chain }

/-! ### SRP -/

/-- square-and-multiply (`powMod` of tlslite is Python's three-argument `pow`); fuel = e + 1 -/
def powModAux (n : Nat) : Nat → Nat → Nat → Nat → Nat
  | 0, _, _, acc => acc
  | f + 1, b, e, acc =>
    if e = 0 then acc
    else powModAux n f (b * b % n) (e / 2) (if e % 2 = 1 then acc * b % n else acc)

def powMod (b e n : Nat) : Nat := powModAux n (e + 1) (b % n) e (1 % n)

/-- server: `processClientKeyExchange` -/
def srpServerPremaster (N v b A u : Nat) : Except Reject Nat :=
  if A % N = 0 then .error (.alert AD.illegalParameter)
  else .ok (powMod ((A * powMod v u N) % N) b N)

/-- server: `B = (g^b + k v) % N` -/
def srpServerB (N g k v b : Nat) : Nat := (powMod g b N + k * v) % N

/-- client: `processServerKeyExchange` after the group checks; Python's `%` on a negative
    left operand is the non-negative remainder (`Int.emod`). -/
def srpClientPremaster (N g k x a B u : Nat) : Except Reject Nat :=
  if B % N = 0 then .error (.alert AD.illegalParameter)
  else
    let v := powMod g x N
    .ok (powMod (((B : Int) - (k * v : Nat)) % (N : Int)).toNat (a + u * x) N)

def srpClientA (N g a : Nat) : Nat := powMod g a N

/-! ### PSK binder (`HandshakeHelpers.verify_binder` and the selection loop) -/

/-- `_calc_binder(prf, psk, handshake_hash, external)` -/
def calcBinder (C : Crypto) (prf : HashName) (psk : Bytes) (truncated : Transcript) (ext : Bool) : Bytes :=
  C.hmac prf (C.finKey prf (C.binderKey prf psk ext)) (digest C prf truncated)

structure PskConfig where
  identity : Bytes
  secret : Bytes
  hash : HashName
  deriving Repr

/-- The loop over `psks.identities` in `_serverTLS13Handshake` restricted to external PSKs
    (`settings.pskConfigs`): the first identity that is configured for the negotiated PRF is
    selected and its binder verified; a bad binder aborts with illegal_parameter, it does not try
    the next identity.  `lastExtIsPsk` is `isinstance(client_hello.extensions[-1], PreSharedKeyExtension)`.
    Returns the selected index and PSK, or none (certificate handshake). -/
def pskSelect (C : Crypto) (configs : List PskConfig) (prf : HashName) (truncated : Transcript)
    (lastExtIsPsk : Bool) : List (Bytes × Bytes) → Nat → Except Reject (Option (Nat × PskConfig))
  | [], _ => .ok none
  | (ident, binder) :: rest, i =>
    match configs.find? (fun c => c.identity = ident) with
    | none => pskSelect C configs prf truncated lastExtIsPsk rest (i + 1)
    | some cfg =>
      if cfg.hash ≠ prf then pskSelect C configs prf truncated lastExtIsPsk rest (i + 1)
      else if lastExtIsPsk = false then .error (.alert AD.illegalParameter)
      else if calcBinder C prf cfg.secret truncated true = binder then .ok (some (i, cfg))
      else .error (.alert AD.illegalParameter)

/-! ### handshake level: order of the checks and of the write to `session` -/

structure Session where
  serverCertChain : Chain := []
  clientCertChain : Chain := []
  srpUsername : Option Bytes := none
  pskIdentity : Option Bytes := none      -- tlslite has no field for it: "the handshake ran on this PSK"
  resumable : Bool := false
  deriving Repr, Inhabited

/-- what a handshake call leaves behind -/
structure Outcome where
  session : Option Session      -- `conn.session`
  completed : Bool              -- the handshake generator returned normally
  reject : Option Reject
  closed : Bool
  deriving Repr

def Outcome.fail (sess : Option Session) (r : Reject) : Outcome :=
  { session := sess.map (fun s => { s with resumable := false }), completed := false,
    reject := some r, closed := true }

def Outcome.done (sess : Session) : Outcome :=
  { session := some { sess with resumable := true }, completed := true, reject := none, closed := false }

/-- TLS ≤ 1.2 client, certificate suites: Certificate / ServerKeyExchange checks, then the
    Finished exchange, then `session.create`. -/
def hsClient12 (C : Crypto) (s : Settings) (ver : Nat) (fam : SuiteSig) (chain : Chain)
    (ske : Option SKE) (cr sr : Bytes) (master : Bytes) (t : Transcript) (serverFin : Bytes)
    (clientChainSent : Chain) : Outcome :=
  match verifySKE C s ver fam chain ske cr sr with
  | .error e => .fail none e
  | .ok ch =>
    if serverFin ≠ finished12 C ver master lblServerFinished t then
      .fail none (.alert AD.decryptError)
    else .done { serverCertChain := ch, clientCertChain := clientChainSent }

/-- TLS ≤ 1.2 server, certificate suites with `reqCert`: CertificateVerify check, then
    `session.create` (BEFORE the client's Finished is checked), then Finished. -/
def hsServer12 (C : Crypto) (s : Settings) (ver : Nat) (ownChain : Chain) (clientChain : Chain)
    (tCV : Transcript) (cv : CertVerify) (master : Bytes) (tFin : Transcript) (clientFin : Bytes) :
    Outcome :=
  match verifyCV12 C s ver clientChain tCV cv with
  | .error e => .fail none e
  | .ok ch =>
    let sess : Session := { serverCertChain := ownChain, clientCertChain := ch }
    if clientFin ≠ finished12 C ver master lblClientFinished tFin then
      .fail (some sess) (.alert AD.decryptError)
    else .done sess

/-- TLS ≤ 1.2 server, SRP suites: premaster from A, `session.create` with the user name, Finished. -/
def hsServerSRP (C : Crypto) (ver : Nat) (user : Bytes) (N v b A u : Nat)
    (masterOf : Nat → Bytes) (tFin : Transcript) (clientFin : Bytes) : Outcome :=
  match srpServerPremaster N v b A u with
  | .error e => .fail none e
  | .ok S =>
    let sess : Session := { srpUsername := some user }
    if clientFin ≠ finished12 C ver (masterOf S) lblClientFinished tFin then
      .fail (some sess) (.alert AD.decryptError)
    else .done sess

/-- TLS 1.3 client, certificate path: CertificateVerify, Finished, then `session.create`. -/
def hsClient13 (C : Crypto) (s : Settings) (chSigAlgs : List SchemeId) (chain : Chain)
    (certBytes : Bytes) (dcs : List DelegatedCred) (tCV : Transcript) (prf : HashName)
    (cv : CertVerify) (srHsSecret : Bytes) (tFin : Transcript) (serverFin : Bytes) : Outcome :=
  match verifyCV13Client C s chSigAlgs chain certBytes dcs tCV prf cv with
  | .error e => .fail none e
  | .ok ch =>
    if serverFin ≠ finished13 C prf srHsSecret tFin then .fail none (.alert AD.decryptError)
    else .done { serverCertChain := ch }

/-- TLS 1.3 server: PSK selection (binder), or certificate path with optional client
    authentication; Finished; then `session.create`. -/
def hsServer13 (C : Crypto) (s : Settings) (ownChain : Chain) (configs : List PskConfig)
    (prf : HashName) (truncatedCH : Transcript) (lastExtIsPsk : Bool) (offeredPsks : List (Bytes × Bytes))
    (reqCert : Bool) (offered : List SchemeId) (clientChain : Chain) (tCV : Transcript)
    (ownScheme : Option SchemeId) (cv : CertVerify) (clHsSecret : Bytes) (tFin : Transcript)
    (clientFin : Bytes) : Outcome :=
  match pskSelect C configs prf truncatedCH lastExtIsPsk offeredPsks 0 with
  | .error e => .fail none e
  | .ok sel =>
    let cvRes : Except Reject Chain :=
      match sel with
      | some _ => .ok []
      | none => if reqCert then verifyCV13Server C s offered clientChain tCV prf ownScheme cv else .ok []
    match cvRes with
    | .error e => .fail none e
    | .ok ch =>
      if clientFin ≠ finished13 C prf clHsSecret tFin then .fail none (.alert AD.decryptError)
      else .done { serverCertChain := ownChain, clientCertChain := ch,
                   pskIdentity := sel.map (fun p => p.2.identity) }

/-! ### TLS 1.3 session tickets as PSK identities (the part of the PSK loop that `pskSelect` omits) -/

/-- what `_tryDecrypt` returns for an identity that decrypts under one of `settings.ticketKeys` -/
structure Ticket where
  psk : Bytes                 -- `calc_res_binder_psk(identity, ticket.master_secret, …)`
  hash : HashName             -- PRF hash of the ticket's cipher suite
  version : Nat               -- `ticket.protocol_version` (minor)
  creation : Nat              -- `ticket.creation_time`
  clientChain : Chain         -- `ticket.client_cert_chain`
  deriving Repr

structure PskChoice where
  index : Nat
  identity : Bytes
  external : Bool
  resumedChain : Chain        -- `resumed_client_cert_chain`
  deriving Repr

/-- The whole loop over `psks.identities`: external PSKs first (`settings.pskConfigs`), otherwise the
    identity is tried as an encrypted ticket (`dec` = `_tryDecrypt`).  A ticket of another protocol
    version, an expired one (`creation + ticketLifetime < now`) or one for the other PRF hash is
    skipped; the first remaining candidate is selected, the client chain of the ticket is taken
    over, and its binder verified (resumption binder: `external = False`); a bad binder aborts. -/
def pskSelectT (C : Crypto) (configs : List PskConfig) (dec : Bytes → Option Ticket) (lifetime now ver : Nat)
    (prf : HashName) (truncated : Transcript) (lastExtIsPsk : Bool) :
    List (Bytes × Bytes) → Nat → Except Reject (Option PskChoice)
  | [], _ => .ok none
  | (ident, binder) :: rest, i =>
    match configs.find? (fun c => c.identity = ident) with
    | some cfg =>
      if cfg.hash ≠ prf then pskSelectT C configs dec lifetime now ver prf truncated lastExtIsPsk rest (i + 1)
      else if lastExtIsPsk = false then .error (.alert AD.illegalParameter)
      else if calcBinder C prf cfg.secret truncated true = binder then
        .ok (some { index := i, identity := ident, external := true, resumedChain := [] })
      else .error (.alert AD.illegalParameter)
    | none =>
      match dec ident with
      | none => pskSelectT C configs dec lifetime now ver prf truncated lastExtIsPsk rest (i + 1)
      | some tk =>
        if ver ≠ tk.version then pskSelectT C configs dec lifetime now ver prf truncated lastExtIsPsk rest (i + 1)
        else if tk.creation + lifetime < now then
          pskSelectT C configs dec lifetime now ver prf truncated lastExtIsPsk rest (i + 1)
        else if tk.hash ≠ prf then pskSelectT C configs dec lifetime now ver prf truncated lastExtIsPsk rest (i + 1)
        else if lastExtIsPsk = false then .error (.alert AD.illegalParameter)
        else if calcBinder C prf tk.psk truncated false = binder then
          .ok (some { index := i, identity := ident, external := false, resumedChain := tk.clientChain })
        else .error (.alert AD.illegalParameter)

/-- TLS 1.3 server with external PSKs and tickets: as `hsServer13`, and at the end
    `if not client_cert_chain and resumed_client_cert_chain: client_cert_chain = resumed…`. -/
def hsServer13T (C : Crypto) (s : Settings) (ownChain : Chain) (configs : List PskConfig)
    (dec : Bytes → Option Ticket) (lifetime now : Nat) (prf : HashName) (truncatedCH : Transcript)
    (lastExtIsPsk : Bool) (offeredPsks : List (Bytes × Bytes)) (reqCert : Bool) (offered : List SchemeId)
    (clientChain : Chain) (tCV : Transcript) (ownScheme : Option SchemeId) (cv : CertVerify)
    (clHsSecret : Bytes) (tFin : Transcript) (clientFin : Bytes) : Outcome :=
  match pskSelectT C configs dec lifetime now 4 prf truncatedCH lastExtIsPsk offeredPsks 0 with
  | .error e => .fail none e
  | .ok sel =>
    let cvRes : Except Reject Chain :=
      match sel with
      | some _ => .ok []
      | none => if reqCert then verifyCV13Server C s offered clientChain tCV prf ownScheme cv else .ok []
    match cvRes with
    | .error e => .fail none e
    | .ok ch =>
      if clientFin ≠ finished13 C prf clHsSecret tFin then .fail none (.alert AD.decryptError)
      else
        let resumed : Chain := match sel with | some c => c.resumedChain | none => []
        .done { serverCertChain := ownChain, clientCertChain := if ch = [] then resumed else ch,
                pskIdentity := sel.map (fun c => c.identity) }

/-! ### `_handshakeWrapperAsync` with a Checker -/

/-- `Checker(x509Fingerprint=fp)`: `chain.getFingerprint()` is the fingerprint of the END-ENTITY
    certificate `x509List[0]` — the one whose key the peer proved possession of; the other
    certificates of the chain are not consulted.  `certFp` abstracts `X509.getFingerprint`. -/
def checkerOk (certFp : Cert → Bytes) (fp : Bytes) (isClient : Bool) (sess : Session) : Bool :=
  let chain := if isClient then sess.serverCertChain else sess.clientCertChain
  match chain with
  | [] => false                       -- TLSNoAuthenticationError
  | c :: _ => certFp c = fp           -- TLSFingerprintError otherwise

/-- the handshake ran (`o`); then the checker: a mismatch sends a fatal close_notify, re-raises,
    and the bare `except:` shuts the connection down (`resumable = False`). -/
def wrapper (fingerprint : Cert → Bytes) (checker : Option Bytes) (isClient : Bool) (o : Outcome) :
    Outcome :=
  if o.completed = false then o
  else match checker, o.session with
    | some fp, some sess =>
      if checkerOk fingerprint fp isClient sess then o
      else { session := some { sess with resumable := false }, completed := false,
             reject := some (.raise "TLSAuthenticationError"), closed := true }
    | _, _ => o

/-! ### the `resumed` flag and the Checker's skip-on-resumed policy -/

/-- how the peer was authenticated in this connection -/
inductive AuthMode
  | cert          -- certificate handshake (any version)
  | extPsk        -- TLS 1.3 external PSK from `settings.pskConfigs` (psk_ke or psk_dhe_ke)
  | ticket13      -- TLS 1.3 PSK that is a session ticket (resumption)
  | sessionId12   -- TLS ≤ 1.2 session-ID resumption
  | ticket12      -- TLS ≤ 1.2 session-ticket resumption
  | srp | anon
  deriving DecidableEq, Repr

/-- `connection.resumed` as `_handshakeDone` sets it.  TLS 1.3 server: `resuming = not external`;
    TLS 1.3 client: `resuming` only when the selected identity is NOT one of `settings.pskConfigs`;
    TLS ≤ 1.2: the session-ID / ticket paths. -/
def resumedOf : AuthMode → Bool
  | .ticket13 | .sessionId12 | .ticket12 => true
  | .cert | .extPsk | .srp | .anon => false

/-- TLS 1.3 server: `resuming` from the PSK choice -/
def resuming13 (sel : Option PskChoice) : Bool :=
  match sel with
  | some c => !c.external
  | none => false

/-- `Checker.__call__`: `if not self.checkResumedSession and connection.resumed: return` -/
def checkerSkips (checkResumed resumed : Bool) : Bool := !checkResumed && resumed

/-- `_handshakeWrapperAsync` with `Checker(x509Fingerprint=fp, checkResumedSession=cr)` -/
def wrapperR (certFp : Cert → Bytes) (checker : Option (Bytes × Bool)) (isClient resumed : Bool)
    (o : Outcome) : Outcome :=
  match checker with
  | some (fp, cr) => if checkerSkips cr resumed then o else wrapper certFp (some fp) isClient o
  | none => o

end Tls.Auth
