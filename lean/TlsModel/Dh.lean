import TlsModel.Rsa
/-
  Key agreement glue of tlslite/keyexchange.py.

  * `FFDHKeyExchange` (finite-field DH) mirrored statement by statement.
  * `ECDHKeyExchange.calc_shared_key` as decision logic: the curve arithmetic (python-ecdsa point
    decoding / multiplication, the X25519/X448 functions) enters as function parameters.
  Shares are Python ints in TLS ≤ 1.2 and byte strings in TLS 1.3 (`Share`).
-/
namespace Tls.Dh
open Tls Tls.Rsa

inductive Err where
  | illegalParameter    -- TLSIllegalParameterException
  | decodeError         -- TLSDecodeError
  | valueError          -- ValueError
  | indexError          -- IndexError
  deriving DecidableEq, Repr

def Err.name : Err → String
  | .illegalParameter => "TLSIllegalParameterException"
  | .decodeError => "TLSDecodeError"
  | .valueError => "ValueError"
  | .indexError => "IndexError"

/-- a key share: `int` (ServerKeyExchange / ClientKeyExchange numbers) or bytes (TLS 1.3 key_share) -/
inductive Share where
  | int (y : Nat)
  | bytes (b : Bytes)
  deriving DecidableEq, Repr

structure FFDH where
  generator : Nat
  prime : Nat
  /-- `self.version >= (3, 4)` -/
  tls13 : Bool
  deriving Repr

/-- `FFDHKeyExchange.__init__(group, version, generator, prime)`; `group = 0` is "no group".
    The table is `RFC7919_GROUPS` as generated from the source (ids 256…260); any other non-zero
    group id is reported as IndexError (Python's negative-index wrap-around for ids below 256 is
    not modelled). -/
def FFDH.new (group : Nat) (tls13 : Bool) (generator prime : Nat) : Except Err FFDH :=
  if prime ≠ 0 ∧ group ≠ 0 then .error .valueError
  else
    let gp : Except Err (Nat × Nat) :=
      if group ≠ 0 then
        match Gen.Pkcs1.ffdheGroups.lookup group with
        | some (g, p) => .ok (g, p)
        | none => .error .indexError
      else .ok (generator, prime)
    match gp with
    | .error e => .error e
    | .ok (g, p) =>
      if ¬ (1 < g ∧ g < p) then .error .illegalParameter
      else .ok { generator := g, prime := p, tls13 := tls13 }

/-- `numberToByteArray(n)` without a length: minimal big-endian, one zero byte for 0 -/
def minimalBytes (n : Nat) : Bytes := if n = 0 then [0] else beEncode (numBytes n) n

/-- `calc_public_value(private)` -/
def FFDH.calcPublic (k : FFDH) (priv : Nat) : Except Err Share :=
  let y := powMod k.generator priv k.prime
  if y = 1 ∨ y = k.prime - 1 then .error .illegalParameter
  else if ¬ k.tls13 then .ok (.int y)
  else .ok (.bytes (beEncode (numBytes k.prime) y))

/-- `_normalise_peer_share` -/
def FFDH.normalise (k : FFDH) : Share → Except Err Nat
  | .int y => .ok y
  | .bytes b => if numBytes k.prime ≠ b.length then .error .illegalParameter else .ok (beDecode b)

/-- `calc_shared_key(private, peer_share)` -/
def FFDH.calcShared (k : FFDH) (priv : Nat) (peer : Share) : Except Err Bytes :=
  match k.normalise peer with
  | .error e => .error e
  | .ok y =>
    if ¬ (2 ≤ y ∧ y < k.prime - 1) then .error .illegalParameter
    else
      let s := powMod y priv k.prime
      if s = 1 ∨ s = k.prime - 1 then .error .illegalParameter
      else if ¬ k.tls13 then .ok (minimalBytes s)
      else .ok (beEncode (numBytes k.prime) s)

/-! ### ECDHKeyExchange.calc_shared_key -/

/-- `_non_zero_check`: OR of all bytes -/
def nonZeroCheck (v : Bytes) : Except Err Unit :=
  if v.foldl (fun s (i : UInt8) => s ||| i.toNat) 0 = 0 then .error .illegalParameter else .ok ()

/-- the X25519 / X448 branch: `size` and `fn` are what `_get_fun_gen_size` returns -/
def xShared (size : Nat) (fn : Bytes → Bytes → Bytes) (priv peer : Bytes) : Except Err Bytes :=
  if peer.length ≠ size then .error .illegalParameter
  else
    let s := fn priv peer
    match nonZeroCheck s with
    | .error e => .error e
    | .ok () => .ok s

/-- outcome of python-ecdsa's `AbstractPoint.from_bytes(curve, data, valid_encodings)` -/
inductive PointDecode where
  | point (x y : Nat)
  | malformed          -- MalformedPointError (an AssertionError): off curve, bad length, bad prefix
  | noFormats          -- DecodeError
  deriving DecidableEq, Repr

/-- the NIST / brainpool branch with an integer private value: decode (on-curve check inside),
    multiply, encode `x` on the curve's byte size -/
def nistShared (decode : Bytes → PointDecode) (mulX : Nat → Nat → Nat → Nat) (byteSize : Nat)
    (priv : Nat) (peer : Bytes) : Except Err Bytes :=
  match decode peer with
  | .malformed => .error .illegalParameter
  | .noFormats => .error .decodeError
  | .point x y => .ok (beEncode byteSize (mulX x y priv))

end Tls.Dh
