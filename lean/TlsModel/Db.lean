import TlsModel.Cache
/-
  C18 — model of `tlslite/basedb.py` (class BaseDB, as used through VerifierDB), statement by
  statement, and the specification it is proved against (Props/C18.lean).

  User names are naturals; `resv name` stands for `BaseDB._is_reserved(name)`
  (`name.startswith("--Reserved--")`), an arbitrary classification of names.  Stored values are
  handles (`_setItem` / `_getItem` encode and decode a value; `_checkItem` is a parameter).
  `self.db` is `none` for an on-disk database that has not been created/opened, otherwise the
  mapping (association list, functional update as in TlsModel/Cache.lean).  `create()` on disk
  writes the internal record `--Reserved--type`.  Not modelled: `open()` (needs the file system),
  `sync()`, the 256-character limit of `_setItem`.
-/
namespace Tls.Db
open Tls.Cache (alookup aerase ainsert)

abbrev Name := Nat
abbrev Val := Nat

structure DB where
  onDisk : Bool                       -- `self.filename` is set
  db : Option (List (Name × Val))     -- `self.db`
  deriving Repr

/-- `BaseDB(filename, type)` -/
def DB.new (onDisk : Bool) : DB := { onDisk := onDisk, db := if onDisk then none else some [] }

inductive Op
  | create
  | get (k : Name)
  | set (k : Name) (v : Val)
  | del (k : Name)
  | contains (k : Name)
  | keys
  | check (k : Name) (param : Nat)
  deriving DecidableEq, Repr

inductive Out
  | done
  | val (v : Val)
  | bool (b : Bool)
  | names (l : List Name)
  | keyError
  | assertionError        -- "DB not open"
  deriving DecidableEq, Repr

structure Env where
  resv : Name → Bool            -- `_is_reserved`
  typeKey : Name                -- "--Reserved--type"
  typeVal : Val                 -- `self.type`
  checkItem : Val → Name → Nat → Bool

/-- `__getitem__` -/
def DB.getitem (E : Env) (d : DB) (k : Name) : Out :=
  match d.db with
  | none => .assertionError                       -- if self.db == None: raise AssertionError
  | some m =>
    if E.resv k then .keyError                    -- if self._is_reserved(username): raise KeyError
    else match alookup k m with                   -- valueStr = self.db[username]   (under the lock)
      | none => .keyError
      | some v => .val v                          -- return self._getItem(username, valueStr)

def DB.step (E : Env) (d : DB) : Op → DB × Out
  | .create => ({ d with db := some (if d.onDisk then [(E.typeKey, E.typeVal)] else []) }, .done)
  | .get k => (d, d.getitem E k)
  | .set k v =>
    match d.db with
    | none => (d, .assertionError)
    | some m => ({ d with db := some (ainsert k v m) }, .done)
  | .del k =>
    match d.db with
    | none => (d, .assertionError)
    | some m =>
      match alookup k m with
      | none => (d, .keyError)                    -- del(self.db[username])
      | some _ => ({ d with db := some (aerase k m) }, .done)
  | .contains k =>
    match d.db with
    | none => (d, .assertionError)
    | some m => if E.resv k then (d, .bool false) else (d, .bool (alookup k m).isSome)
  | .keys =>
    match d.db with
    | none => (d, .assertionError)
    | some m => (d, .names ((m.map (·.1)).filter (fun u => !E.resv u)))
  | .check k param =>
    match d.getitem E k with                      -- value = self.__getitem__(username)
    | .val v => (d, .bool (E.checkItem v k param))
    | o => (d, o)

def runFrom (E : Env) (d : DB) : List Op → DB × List Out
  | [] => (d, [])
  | op :: ops =>
    let r := d.step E op
    let r2 := runFrom E r.1 ops
    (r2.1, r.2 :: r2.2)

/-! ### specification: the user entries only; internal records do not exist -/

structure Spec where
  opened : Bool
  users : List (Name × Val)

def Spec.new (onDisk : Bool) : Spec := { opened := !onDisk, users := [] }

/-- an operation on an open database -/
def Spec.stepOpen (E : Env) (s : Spec) : Op → Spec × Out
  | .create => ({ opened := true, users := [] }, .done)
  | .get k =>
    if E.resv k then (s, .keyError)               -- a reserved name is never an entry
    else match alookup k s.users with
      | none => (s, .keyError)
      | some v => (s, .val v)
  | .set k v => ({ s with users := ainsert k v s.users }, .done)
  | .del k =>
    match alookup k s.users with
    | none => (s, .keyError)
    | some _ => ({ s with users := aerase k s.users }, .done)
  | .contains k => (s, .bool (!E.resv k && (alookup k s.users).isSome))
  | .keys => (s, .names (s.users.map (·.1)))
  | .check k param =>
    if E.resv k then (s, .keyError)
    else match alookup k s.users with
      | none => (s, .keyError)
      | some v => (s, .bool (E.checkItem v k param))

def Spec.step (E : Env) (s : Spec) (op : Op) : Spec × Out :=
  if op = .create then ({ opened := true, users := [] }, .done)
  else if s.opened = false then (s, .assertionError)
  else s.stepOpen E op

def specFrom (E : Env) (s : Spec) : List Op → Spec × List Out
  | [] => (s, [])
  | op :: ops =>
    let r := s.step E op
    let r2 := specFrom E r.1 ops
    (r2.1, r.2 :: r2.2)

/-- callers store and delete user names only (what VerifierDB users do; a store under a
    reserved name would overwrite an internal record) -/
def userWrite (E : Env) : Op → Bool
  | .set k _ => !E.resv k
  | .del k => !E.resv k
  | _ => true

end Tls.Db
