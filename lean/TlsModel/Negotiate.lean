import TlsModel.Basic
import TlsModel.Gen.Negotiate
/-
  C03 — model of parameter negotiation in tlslite/tlsconnection.py.

  Mirrors, statement by statement, the decisions (not the bytes) of
    _clientSendClientHello        -> `clientOffer`
    _serverGetClientHello,
    _server_select_certificate,
    _pickServerKeyExchangeSig,
    _handshakeServerAsyncHelper,
    _serverTLS13Handshake,
    *KeyExchange.makeServerKeyExchange   -> `serverSelect`
    _clientGetServerHello, _clientTLS13Handshake, _clientKeyExchange,
    _check_certchain_with_settings, *KeyExchange.processServerKeyExchange -> `clientAccept`
    the server's checks on the client's certificate -> `serverFinish`
  and CipherSuite._filterSuites / filterForVersion / filter_for_certificate / filter_for_prfs over
  the generated tables (TlsModel/Gen/Negotiate.lean).

  Versions are minor numbers ((3, n) ↦ n).  Signature schemes are `hash * 256 + sig`.
  A `Settings` value stands for the *validated* copy (`settings.validate()`), which is what the
  handshake code works with.  Core Lean only.
-/
namespace Tls.Neg
open Tls.Gen.Neg

/-! ## data -/

structure Settings where
  minVersion : Nat
  maxVersion : Nat
  versions : List Nat
  cipherNames : List String
  macNames : List String
  keyExchangeNames : List String
  eccCurves : List String
  dhGroups : List String
  keyShares : List String
  defaultCurve : String
  rsaSigHashes : List String
  rsaSchemes : List String
  ecdsaSigHashes : List String
  dsaSigHashes : List String
  moreSigSchemes : List String
  minKeySize : Nat
  maxKeySize : Nat
  useEtM : Bool
  useEMS : Bool
  requireEMS : Bool
  /-- `record_size_limit`, 0 = None -/
  recordSizeLimit : Nat
  /-- size in bits of the prime of `dhParams`, 0 = None -/
  dhParamBits : Nat
  /-- (identity, hash) of `pskConfigs`; hash "" for 2-tuples -/
  pskConfigs : List (String × String)
  pskModes : List String
  deriving Repr, DecidableEq

/-- a certificate + key: `x509List[0].certAlg`, key size in bits, curve (TLS group name, "" if none) -/
structure Cred where
  certAlg : String
  keyBits : Nat
  curve : String
  deriving Repr, DecidableEq

inductive ClientFlavour | cert | srp | anon
  deriving Repr, DecidableEq

structure ClientCfg where
  flavour : ClientFlavour
  /-- client certificate (certParams) -/
  cred : Option Cred
  alpn : List String
  serverName : String
  deriving Repr, DecidableEq

structure ServerCfg where
  /-- a verifierDB was passed -/
  hasDB : Bool
  /-- size in bits of N of the verifier entry of the user the client names; 0 = no such user -/
  srpBits : Nat
  cred : Option Cred
  anon : Bool
  reqCert : Bool
  alpn : List String
  sni : String
  deriving Repr, DecidableEq

inductive Side | client | server
  deriving Repr, DecidableEq

inductive Outcome (α : Type) where
  | ok : α → Outcome α
  /-- `_sendError(description)`: the side raises TLSLocalAlert, the peer TLSRemoteAlert -/
  | alert : Side → String → Outcome α
  /-- an exception that escapes without an alert being sent -/
  | abort : Side → String → Outcome α
  deriving Repr, DecidableEq

namespace Outcome
@[inline] def bind {α β} : Outcome α → (α → Outcome β) → Outcome β
  | ok a, f => f a
  | alert s d, _ => alert s d
  | abort s d, _ => abort s d
instance : Monad Outcome where
  pure := ok
  bind := bind
end Outcome

/-- `if c: _sendError(d)` on side `s` -/
def failIf (c : Bool) (s : Side) (d : String) : Outcome Unit :=
  if c then .alert s d else .ok ()

/-! ## table helpers -/

def lookupS {α} (t : List (String × α)) (k : String) : Option α :=
  (t.find? (·.1 == k)).map (·.2)

def groupId (n : String) : Option Nat := lookupS groupIds n
def groupIdsOf (ns : List String) : List Nat := ns.filterMap groupId
def sigSchemeId (n : String) : Option Nat := lookupS sigSchemes n
def hashId (n : String) : Option Nat := lookupS hashIds n

/-- `getFirstMatching(values, matches)` -/
def firstMatching {α} [BEq α] (values ms : List α) : Option α :=
  values.find? (ms.contains ·)

def sigRsa : Nat := 1
def sigDsa : Nat := 2
def sigEcdsa : Nat := 3

/-- `sig_scheme.lower()` on the names `validate()` admits in `more_sig_schemes` (kernel-reducible) -/
def lowerName (n : String) : String :=
  if n == "Ed25519" then "ed25519" else if n == "Ed448" then "ed448" else n

/-- `'brainpool' in sig_scheme` on the names `validate()` admits in `more_sig_schemes` -/
def hasBrainpool (n : String) : Bool :=
  n == "ecdsa_brainpoolP256r1tls13_sha256" || n == "ecdsa_brainpoolP384r1tls13_sha384" ||
  n == "ecdsa_brainpoolP512r1tls13_sha512"

/-- every name of the settings is one the tables know (what `validate()` establishes) -/
def Settings.namesKnown (s : Settings) : Bool :=
  (s.eccCurves ++ s.dhGroups ++ s.keyShares ++ [s.defaultCurve]).all (fun n => (groupId n).isSome) &&
  (s.rsaSigHashes ++ s.ecdsaSigHashes ++ s.dsaSigHashes).all (fun n => (hashId n).isSome) &&
  s.moreSigSchemes.all (fun n => (sigSchemeId n).isSome || (sigSchemeId (lowerName n)).isSome) &&
  s.rsaSchemes.all (fun n => n == "pss" || n == "pkcs1")

/-! ## CipherSuite filters -/

/-- one accumulator of `_filterSuites` (macSuites / cipherSuites / keyExchangeSuites) -/
def rowsFor (tbl : List (String × Nat × List Nat)) (names : List String) (v : Nat) : List Nat :=
  tbl.flatMap fun r => if names.contains r.1 && decide (r.2.1 ≤ v) then r.2.2 else []

/-- `CipherSuite._filterSuites(suites, settings, version)` -/
def filterSuites (suites : List Nat) (st : Settings) (v : Nat) : List Nat :=
  let macS := rowsFor macTable st.macNames v
  let ciphS := rowsFor cipherTable st.cipherNames v
  let kexS := rowsFor kexTable ("tls13" :: st.keyExchangeNames) v
  suites.filter fun s => macS.contains s && ciphS.contains s && kexS.contains s

/-- `CipherSuite.filterForVersion(suites, v, v)` -/
def filterForVersion (suites : List Nat) (v : Nat) : List Nat :=
  let inc := (if v ≤ 3 then ssl3Suites else []) ++ (if v == 3 then tls12Suites else []) ++
             (if v > 3 then tls13Suites else [])
  suites.filter (inc.contains ·)

/-- `CipherSuite.filter_for_certificate(suites, cert_chain)` -/
def filterForCertificate (suites : List Nat) (cred : Option Cred) : List Nat :=
  let inc : List Nat :=
    match cred with
    | none => tls13Suites ++ srpSuites ++ anonSuites ++ ecdhAnonSuites
    | some c =>
      -- (the SRP suites without server authentication do not use the certificate)
      let a := tls13Suites ++ srpSuites ++ (if c.certAlg == "rsa" || c.certAlg == "rsa-pss" then certAllSuites else [])
      -- symmetric_difference_update(certSuites)
      let a := if c.certAlg == "rsa-pss" then
                 a.filter (fun s => !certSuites.contains s) ++ certSuites.filter (fun s => !a.contains s)
               else a
      let a := a ++ (if c.certAlg == "ecdsa" || c.certAlg == "Ed25519" || c.certAlg == "Ed448"
                     then ecdheEcdsaSuites else [])
      a ++ (if c.certAlg == "dsa" then dheDsaSuites else [])
  suites.filter (inc.contains ·)

/-- `CipherSuite.filter_for_prfs(suites, prfs)` (None ↦ sha256 is done by the caller) -/
def filterForPrfs (suites : List Nat) (prfs : List String) : List Nat :=
  let inc := (if prfs.contains "sha256" then sha256PrfSuites else []) ++
             (if prfs.contains "sha384" then sha384PrfSuites else [])
  suites.filter (inc.contains ·)

def prfName (suite : Nat) : String := if sha384PrfSuites.contains suite then "sha384" else "sha256"

/-! ## signature algorithm lists -/

/-- `curve_name_to_hash_name` on TLS group names; none = raises -/
def curveHash (curve : String) : Option String :=
  if curve == "secp256r1" || curve == "brainpoolP256r1" then some "sha256"
  else if curve == "secp384r1" || curve == "brainpoolP384r1" then some "sha384"
  else if curve == "secp521r1" || curve == "brainpoolP512r1" then some "sha512"
  else none

def isBrainpool (curve : String) : Bool :=
  curve == "brainpoolP256r1" || curve == "brainpoolP384r1" || curve == "brainpoolP512r1"

/-- `TLSConnection._sigHashesToList(settings, privateKey, certList, version)`;
    `privBits` = size of `privateKey.n` when a private key is passed -/
def sigHashesToList (st : Settings) (privBits : Option Nat) (cert : Option Cred) (v : Nat) : List Nat :=
  let certType := cert.map (·.certAlg)
  let isEd (t : String) := t == "Ed25519" || t == "Ed448" || t == "mldsa44" || t == "mldsa65" || t == "mldsa87"
  let more : List Nat :=
    if certType.isNone || certType.any isEd then
      st.moreSigSchemes.filterMap fun s =>
        if v < 4 && (s == "mldsa44" || s == "mldsa65" || s == "mldsa87") then none
        else if v < 3 then none
        else if certType.isSome && certType != some s then none
        else if v < 4 && hasBrainpool s then none
        else match sigSchemeId s with
          | some i => some i
          | none => sigSchemeId (lowerName s)
    else []
  let ecdsa : List Nat :=
    if certType.isNone || certType == some "ecdsa" then
      match cert with
      | some c =>
        if v > 3 && isBrainpool c.curve then
          (if c.curve == "brainpoolP256r1" then sigSchemeId "ecdsa_brainpoolP256r1tls13_sha256"
           else if c.curve == "brainpoolP384r1" then sigSchemeId "ecdsa_brainpoolP384r1tls13_sha384"
           else sigSchemeId "ecdsa_brainpoolP512r1tls13_sha512").toList
        else
          st.ecdsaSigHashes.filterMap fun h =>
            if v > 3 && (h == "sha1" || h == "sha224") then none
            else if v > 3 && curveHash c.curve != some h then none
            else (hashId h).map (· * 256 + sigEcdsa)
      | none =>
        st.ecdsaSigHashes.filterMap fun h =>
          if v > 3 && (h == "sha1" || h == "sha224") then none
          else (hashId h).map (· * 256 + sigEcdsa)
    else []
  let dsa : List Nat :=
    if certType.isNone || certType == some "dsa" then
      st.dsaSigHashes.filterMap fun h => if v > 3 then none else (hashId h).map (· * 256 + sigDsa)
    else []
  let rsa : List Nat :=
    if certType.isNone || certType == some "rsa" || certType == some "rsa-pss" then
      st.rsaSchemes.flatMap fun sch =>
        if v > 3 && sch == "pkcs1" then []
        else st.rsaSigHashes.flatMap fun h =>
          if certType == some "rsa-pss" && sch == "pkcs1" then []
          else if sch == "pss" && h == "sha512" && privBits.any (· < 2048) then []
          else
            -- try: getattr rsae ; getattr pss ; except AttributeError: pkcs1 -> (hash, rsa)
            let fallback : List Nat := if sch == "pkcs1" then ((hashId h).map (· * 256 + sigRsa)).toList else []
            let first : Option (List Nat) :=
              if certType != some "rsa-pss" then
                match sigSchemeId ("rsa_" ++ sch ++ "_rsae_" ++ h) with
                | some i => some [i]
                | none => none
              else some []
            match first with
            | none => fallback
            | some l1 =>
              if certType != some "rsa" then
                match sigSchemeId ("rsa_" ++ sch ++ "_pss_" ++ h) with
                | some i => l1 ++ [i]
                | none => l1 ++ fallback
              else l1
    else []
  more ++ ecdsa ++ dsa ++ rsa

/-! ## ClientHello -/

structure Offer where
  clientVersion : Nat
  suites : List Nat
  etm : Bool
  ems : Bool
  sigAlgs : Option (List Nat)
  alpn : List String
  supportedVersions : Option (List Nat)
  keyShares : List Nat
  pskModes : List String
  groups : Option (List Nat)
  recordSizeLimit : Nat
  serverName : String
  /-- identities of the pre_shared_key extension with the hash their binder uses -/
  pskIds : List (String × String)
  deriving Repr, DecidableEq

/-- `_curveNamesToList(settings, version)` -/
def curveNamesToList (st : Settings) (v : Nat) : List Nat :=
  let ret := groupIdsOf st.eccCurves
  if (st.maxVersion < 4 && !st.versions.contains 4) || v < 4 then ret.filter (!allKEM.contains ·) else ret

def groupNamesToList (st : Settings) : List Nat := groupIdsOf st.dhGroups

/-- the cipher suite list of the ClientHello by credential kind (without SCSVs) -/
def clientSuites (cs : Settings) (fl : ClientFlavour) : List Nat :=
  let v := cs.maxVersion
  match fl with
  | .srp => filterSuites srpAllSuites cs v
  | .cert => filterSuites tls13Suites cs v ++ filterSuites ecdheEcdsaSuites cs v ++
             filterSuites ecdheCertSuites cs v ++ filterSuites dheCertSuites cs v ++
             filterSuites certSuites cs v ++ filterSuites dheDsaSuites cs v
  | .anon => filterSuites ecdhAnonSuites cs v ++ filterSuites anonSuites cs v

/-- the signature_algorithms extension of the ClientHello -/
def clientSigAlgs (cs : Settings) : Option (List Nat) :=
  if cs.maxVersion ≥ 3 then
    let l13 := if cs.maxVersion ≥ 4 && cs.minVersion ≤ 4 then sigHashesToList cs none none 4 else []
    let l12 := if cs.maxVersion ≥ 3 && cs.minVersion ≤ 3 then sigHashesToList cs none none 3 else []
    some (l13 ++ l12.filter (!l13.contains ·))
  else none

/-- `_clientSendClientHello` -/
def clientOffer (cs : Settings) (cc : ClientCfg) : Offer :=
  let suites := clientSuites cs cc.flavour
  let tls13 := cs.versions.any (· > 3)
  let shares := if tls13 then groupIdsOf cs.keyShares else []
  -- when TLS 1.3 is advertised the configured curves and FFDHE groups are always listed
  let groups := (if suites.any (ecdhAllSuites.contains ·) || tls13 then curveNamesToList cs 4 else []) ++
                (if suites.any (dhAllSuites.contains ·) || tls13 then groupNamesToList cs else [])
  let groups := if !groups.isEmpty && !shares.isEmpty
                then shares ++ groups.filter (!shares.contains ·) else groups
  { clientVersion := min cs.maxVersion 3
    suites := suites
    etm := cs.useEtM
    ems := cs.useEMS
    sigAlgs := clientSigAlgs cs
    alpn := cc.alpn
    supportedVersions := if tls13 then some cs.versions else none
    keyShares := shares
    pskModes := if tls13 then cs.pskModes else []
    groups := if groups.isEmpty then none else some groups
    recordSizeLimit := cs.recordSizeLimit
    serverName := cc.serverName
    pskIds := if cs.maxVersion ≥ 4 then
                (cs.pskConfigs.filter (·.1 != "")).map fun p => (p.1, if p.2 == "" then "sha256" else p.2)
              else [] }

/-! ## server -/

/-- what the server puts on the wire / decides -/
structure Selection where
  version : Nat
  suite : Nat
  /-- encrypt_then_mac echoed -/
  etm : Bool
  /-- extended_master_secret echoed (TLS 1.3: always in effect) -/
  ems : Bool
  /-- selected ALPN protocol ("" = none) -/
  alpn : String
  /-- record_size_limit value echoed (0 = extension absent) -/
  rslEcho : Nat
  /-- ECDHE named curve of the ServerKeyExchange / TLS 1.3 key share group; 0 = none -/
  group : Nat
  /-- size in bits of the prime of a TLS ≤ 1.2 DHE ServerKeyExchange / SRP group; 0 = none -/
  dhBits : Nat
  /-- signature scheme of ServerKeyExchange (TLS 1.2) or CertificateVerify (TLS 1.3); 0 = none -/
  sigScheme : Nat
  /-- a Certificate message is sent -/
  sendsCert : Bool
  /-- a CertificateRequest is sent, with these signature algorithms -/
  certReq : Option (List Nat)
  /-- index of the selected PSK identity -/
  psk : Option Nat
  hrr : Bool
  /-- limits the server installs -/
  sSend : Nat
  sRecv : Nat
  /-- last 8 bytes of ServerHello.random carry a downgrade sentinel: 0 none, 1 = TLS 1.1, 2 = TLS 1.2 -/
  sentinel : Nat
  deriving Repr, DecidableEq

def maxRec : Nat := 16384

/-- the `real_version` the server computes first -/
def offerRealVersion (o : Offer) : Nat :=
  match o.supportedVersions with
  | some vs => if o.clientVersion ≥ 3 then vs.foldl (fun acc v => if v ≤ 4 && v > acc then v else acc) o.clientVersion
               else o.clientVersion
  | none => o.clientVersion

/-- sanity checks of `_serverGetClientHello` on the TLS 1.3 extensions that an offer built by
    `clientOffer` can fail -/
def serverSanity13 (o : Offer) : Outcome Unit :=
  match o.supportedVersions with
  | some vs =>
    if vs.contains 4 then
      let pskKe := !o.pskIds.isEmpty && !o.pskModes.contains "psk_dhe_ke"
      if !pskKe then
        match o.groups with
        | none => Outcome.alert .server "missing_extension"
        | some gs => do
          failIf (gs.any (forbidden13.contains ·) && !vs.contains 3) .server "illegal_parameter"
          failIf (o.keyShares.any (!gs.contains ·)) .server "illegal_parameter"
          failIf (o.keyShares != gs.filter (o.keyShares.contains ·)) .server "illegal_parameter"
          -- key_exchange = cert needs signature_algorithms, psk_dhe_ke needs the PSK extension
          failIf (!(o.sigAlgs.isSome && o.pskIds.isEmpty) && o.pskIds.isEmpty) .server "missing_extension"
      else pure ()
    else pure ()
  | none => pure ()

/-- "negotiate the protocol version for the connection" -/
def pickVersion (ss : Settings) (o : Offer) : Outcome Nat :=
  match o.supportedVersions with
  | some vs =>
    -- only the versions inside of the configured range are acceptable
    match firstMatching (ss.versions.filter fun i => ss.minVersion ≤ i && i ≤ ss.maxVersion) vs with
    | some hv => pure hv
    | none => Outcome.alert .server "protocol_version"
  | none =>
    if o.clientVersion > ss.maxVersion then pure (min ss.maxVersion 3) else pure (min o.clientVersion 3)

def serverVersion (ss : Settings) (o : Offer) : Outcome Nat := do
  failIf (offerRealVersion o < ss.minVersion) .server "protocol_version"
  serverSanity13 o
  pickVersion ss o

/-- `ecGroupIntersect`, `ffGroupIntersect` -/
def groupIntersect (ss : Settings) (o : Offer) (v : Nat) : Bool × Bool :=
  match o.groups with
  | none => (true, true)
  | some cg =>
    let ec := (firstMatching cg (curveNamesToList ss v)).isSome
    let ff := (firstMatching cg (groupNamesToList ss)).isSome
    (ec, if ff then true else !(cg.any fun g => 256 ≤ g && g < 512))

/-- the server's candidate list before certificate filtering -/
def serverSuites (ss : Settings) (sc : ServerCfg) (o : Offer) (v : Nat) : Outcome (List Nat) :=
  let (ec, ff) := groupIntersect ss o v
  let l : Option (List Nat) :=
    if sc.hasDB then
      some ((if sc.cred.isSome then filterSuites srpCertSuites ss v else []) ++ filterSuites srpSuites ss v)
    else if sc.cred.isSome then
      some ((if ec || ff then filterSuites tls13Suites ss v else []) ++
            (if ec then filterSuites ecdheEcdsaSuites ss v ++ filterSuites ecdheCertSuites ss v else []) ++
            (if ff then filterSuites dheCertSuites ss v ++ filterSuites dheDsaSuites ss v else []) ++
            filterSuites certSuites ss v)
    else if sc.anon then
      some (filterSuites anonSuites ss v ++ filterSuites ecdhAnonSuites ss v)
    else if !ss.pskConfigs.isEmpty then some (filterSuites tls13Suites ss v)
    else none
  match l with
  | some l => .ok (filterForVersion l v)
  | none => .abort .server "AssertionError"

/-- `_pickServerKeyExchangeSig(settings, clientHello, cert, key, version, False)`:
    some 0 = "no scheme needed" (None / "sha1" defaults) -/
def pickSig (ss : Settings) (o : Offer) (cred : Option Cred) (v : Nat) : Option Nat :=
  -- before TLS 1.2 the ServerKeyExchange signature has a fixed form: signature_algorithms does not apply
  if v < 3 then some 0 else
  match o.sigAlgs with
  | none => some 0
  | some algs => firstMatching (sigHashesToList ss none cred v) algs

/-- "if we have matching PSKs, prefer those": restrict to the PRF hashes of the matching PSK configurations -/
def pskPrfs (ss : Settings) (o : Offer) (v : Nat) : List String :=
  -- pre_shared_key is a TLS 1.3 extension: it is looked at only when TLS 1.3 is negotiated
  if v > 3 && !ss.pskConfigs.isEmpty && !o.pskIds.isEmpty then
    (ss.pskConfigs.filter fun p => o.pskIds.any (·.1 == p.1)).map fun p => if p.2 == "" then "sha256" else p.2
  else []

def prfFiltered (ss : Settings) (o : Offer) (v : Nat) (cred : Option Cred) (ciphers : List Nat) : List Nat :=
  if (pskPrfs ss o v).isEmpty then ciphers
  else
    -- when no PSK fits a cipher offered by the client, fall back to the certificate (RFC 8446, 4.2.11)
    if cred.isNone || (filterForPrfs ciphers (pskPrfs ss o v)).any (o.suites.contains ·)
    then filterForPrfs ciphers (pskPrfs ss o v) else ciphers

/-- ECDSA certificate: curve compatibility with the client's groups -/
def checkServerCurve (sc : ServerCfg) (o : Offer) (v : Nat) : Outcome Unit :=
  match sc.cred with
  | some c =>
    if c.certAlg == "ecdsa" && !(o.groups.getD []).isEmpty && !(o.sigAlgs.getD []).isEmpty then do
      failIf (v ≤ 3 && !((groupId c.curve).any ((o.groups.getD []).contains ·))) .server "handshake_failure"
      failIf (v ≥ 4 && (curveHash c.curve).isNone) .server "illegal_parameter"
    else pure ()
  | none => pure ()

/-- `filter_for_certificate`, and nothing for an EdDSA key below TLS 1.2 (it cannot sign the
    ServerKeyExchange of those versions) -/
def certUsable (suites : List Nat) (cred : Option Cred) (v : Nat) : List Nat :=
  if v < 3 && cred.any (fun c => c.certAlg == "Ed25519" || c.certAlg == "Ed448") then []
  else filterForCertificate suites cred

/-- `_server_select_certificate` with a single (cert, key) pair: suite and signature scheme -/
def selectCertificate (ss : Settings) (sc : ServerCfg) (o : Offer) (suites : List Nat) (v : Nat) :
    Outcome (Nat × Nat) :=
  match (prfFiltered ss o v sc.cred (certUsable suites sc.cred v)).find? (o.suites.contains ·) with
  | none =>
    if (o.groups.getD []).any (fun g => 256 ≤ g && g < 512) && o.suites.any (dhAllSuites.contains ·)
    then Outcome.alert .server "insufficient_security"
    else Outcome.alert .server "handshake_failure"
  | some cipher =>
    match pickSig ss o sc.cred v with
    | none => Outcome.alert .server "handshake_failure"
    | some sig => do
      checkServerCurve sc o v
      pure (cipher, sig)

/-- TLS 1.3 groups the server accepts (its key shares, curves and FFDHE groups; RFC 5639 brainpool code
    points are not TLS 1.3 groups) -/
def acceptable13 (ss : Settings) : List Nat :=
  groupIdsOf ((ss.keyShares ++ ss.eccCurves ++ ss.dhGroups).filter (!isBrainpool ·))

/-- the key shares the server works with and whether a HelloRetryRequest was needed; none = no group -/
def hrrShares (ss : Settings) (o : Offer) : Option (List Nat × Bool) :=
  match (acceptable13 ss).find? (o.keyShares.contains ·) with
  | some _ => some (o.keyShares, false)
  | none =>
    match (acceptable13 ss).find? ((o.groups.getD []).contains ·) with
    | some g => some ([g], true)
    | none => none

/-- TLS 1.3 group choice: HelloRetryRequest decision of `_serverGetClientHello`, then the loop at the
    start of `_serverTLS13Handshake`; returns (group, hrr) -/
def tls13Group (ss : Settings) (o : Offer) : Outcome (Nat × Bool) :=
  match hrrShares ss o with
  | none => Outcome.alert .server "handshake_failure"
  | some sh =>
    match (groupIdsOf (ss.keyShares ++ ss.eccCurves ++ ss.dhGroups)).find? (sh.1.contains ·) with
    | some g => pure (g, sh.2)
    | none => Outcome.alert .server "internal_error"

def ffBitsOf (g : Nat) : Nat := ((ffBits.find? (·.1 == g)).map (·.2)).getD 0

/-- index of the first client PSK identity the server has a configuration for whose hash is the
    PRF hash of the selected suite -/
def pskIndex (ss : Settings) (o : Offer) (suite : Nat) : Option Nat :=
  let pskOk := !o.pskIds.isEmpty && (o.pskModes.contains "psk_dhe_ke" || o.pskModes.contains "psk_ke") &&
               !ss.pskConfigs.isEmpty
  if pskOk then
    (List.range o.pskIds.length).find? fun i =>
      match o.pskIds[i]? with
      | some (ident, _) =>
        match ss.pskConfigs.find? (·.1 == ident) with
        | some cfg => (if cfg.2 == "" then "sha256" else cfg.2) == prfName suite
        | none => false
      | none => false
  else none

/-- TLS 1.3 part of the server's first flight (`_serverTLS13Handshake` up to its Finished) -/
def serverSelect13 (ss : Settings) (sc : ServerCfg) (o : Offer) (v suite sig : Nat) : Outcome Selection := do
  let rslOn := o.recordSizeLimit != 0 && ss.recordSizeLimit != 0
  let gh ← tls13Group ss o
  let idx := pskIndex ss o suite
  -- verify_binder: the binder was computed by the client with the hash of *its* configuration
  let binderBad := match idx with
    | some i => (match o.pskIds[i]? with
                 | some (_, h) => h != prfName suite
                 | none => false)
    | none => false
  failIf binderBad .server "illegal_parameter"
  let useShare : Option Bool :=
    if (idx.isSome && o.pskModes.contains "psk_dhe_ke" && ss.pskModes.contains "psk_dhe_ke") ||
       (idx.isNone && sc.cred.isSome) then some true
    else if idx.isSome && o.pskModes.contains "psk_ke" && ss.pskModes.contains "psk_ke" then some false
    else none
  match useShare with
  | none => Outcome.alert .server "handshake_failure"
  | some share =>
    let matched := o.alpn.filter (sc.alpn.contains ·)
    pure { version := v, suite := suite, etm := false, ems := true
           alpn := matched.headD ""
           rslEcho := if rslOn then min (maxRec + 1) ss.recordSizeLimit else 0
           group := if share then gh.1 else 0
           dhBits := 0
           sigScheme := if idx.isNone then sig else 0
           sendsCert := idx.isNone
           certReq := if idx.isNone && sc.reqCert
                      then some (sigHashesToList { ss with dsaSigHashes := [] } none none v) else none
           psk := idx, hrr := gh.2
           sSend := if rslOn then min maxRec (o.recordSizeLimit - 1) else maxRec
           sRecv := if rslOn then min maxRec (ss.recordSizeLimit - 1) else maxRec
           sentinel := 0 }

def isAnonSuite (suite : Nat) : Bool := anonSuites.contains suite || ecdhAnonSuites.contains suite
def isCertKxSuite (suite : Nat) : Bool :=
  certSuites.contains suite || dheCertSuites.contains suite || dheDsaSuites.contains suite ||
  ecdheCertSuites.contains suite || ecdheEcdsaSuites.contains suite

/-- size of the DH prime / SRP modulus the server sends (`ADHKeyExchange.makeServerKeyExchange`,
    `SRPKeyExchange.makeServerKeyExchange`) -/
def dhSelect (ss : Settings) (sc : ServerCfg) (o : Offer) (suite : Nat) : Outcome Nat :=
  let own := if ss.dhParamBits != 0 then ss.dhParamBits else defaultDhBits
  if dhAllSuites.contains suite then
    match o.groups with
    | some cg =>
      if !ss.dhGroups.isEmpty then
        match firstMatching cg (groupNamesToList ss) with
        | some g => .ok (ffBitsOf g)
        | none =>
          if cg.any (fun g => 256 ≤ g && g < 512) then .alert .server "internal_error"
          else .ok own
      else .ok own
    | none => .ok own
  else if srpAllSuites.contains suite then
    (if sc.srpBits == 0 then .alert .server "unknown_psk_identity" else .ok sc.srpBits)
  else .ok 0

/-- named curve of the ECDHE ServerKeyExchange (`AECDHKeyExchange.makeServerKeyExchange`) -/
def ecSelect (ss : Settings) (o : Offer) (v suite : Nat) : Outcome Nat :=
  if ecdhAllSuites.contains suite then
    let cc := match o.groups with
              | some cg => cg
              | none => (groupId ss.defaultCurve).toList
    match firstMatching cc (curveNamesToList ss v) with
    | some g => .ok g
    | none => .alert .server "insufficient_security"
  else .ok 0

/-- TLS ≤ 1.2 part of the server's first flight (`_handshakeServerAsyncHelper`) -/
def serverSelect12 (ss : Settings) (sc : ServerCfg) (o : Offer) (v suite sig : Nat) : Outcome Selection := do
  let rslOn := o.recordSizeLimit != 0 && ss.recordSizeLimit != 0
  let etm := ss.useEtM && o.etm && !streamSuites.contains suite && !aeadSuites.contains suite
  -- the extended master secret is not defined for SSLv3
  failIf (ss.useEMS && !(o.ems && v > 0) && ss.requireEMS) .server "insufficient_security"
  let ems := ss.useEMS && o.ems && v > 0
  let alpnOn := !o.alpn.isEmpty && !sc.alpn.isEmpty
  let sel := o.alpn.find? (sc.alpn.contains ·)
  failIf (alpnOn && sel.isNone) .server "no_application_protocol"
  let sentinel := if v == 3 && ss.maxVersion > 3 then 2 else if v < 3 && ss.maxVersion ≥ 3 then 1 else 0
  let isSrp := srpAllSuites.contains suite
  let dhBits ← dhSelect ss sc o suite
  let group ← ecSelect ss o v suite
  let signed := (isCertKxSuite suite && !certSuites.contains suite) || srpCertSuites.contains suite
  -- signServerKeyExchange below TLS 1.2: `privateKey.sign(hashBytes)` with an EdDSA key raises
  -- TypeError, with an rsa-pss key the self-check fails (TLSInternalError)
  let certAlg := (sc.cred.map (·.certAlg)).getD ""
  if signed && v < 3 && (certAlg == "Ed25519" || certAlg == "Ed448") then Outcome.abort .server "TypeError" else
  if signed && v < 3 && certAlg == "rsa-pss" then Outcome.alert .server "internal_error" else
  let sendsCert := certAllSuites.contains suite || ecdheEcdsaSuites.contains suite || dheDsaSuites.contains suite
  if !(isSrp || isCertKxSuite suite || isAnonSuite suite) then Outcome.abort .server "AssertionError" else
  pure { version := v, suite := suite, etm := etm, ems := ems
         alpn := if alpnOn then sel.getD "" else ""
         rslEcho := if rslOn then min maxRec ss.recordSizeLimit else 0
         group := group, dhBits := dhBits
         sigScheme := if signed && v == 3 then sig else 0
         sendsCert := sendsCert
         certReq := if isCertKxSuite suite && sc.reqCert then some (sigHashesToList ss none none v) else none
         psk := none, hrr := false
         sSend := if rslOn then min maxRec o.recordSizeLimit else maxRec
         sRecv := if rslOn then min maxRec ss.recordSizeLimit else maxRec
         sentinel := sentinel }

/-- `_serverGetClientHello` … first flight of the server -/
def serverSelect (ss : Settings) (sc : ServerCfg) (o : Offer) : Outcome Selection := do
  let v ← serverVersion ss o
  -- `sni != name`: the server sends a warning-level unrecognized_name alert and carries on; the
  -- client treats every alert it reads as fatal
  failIf (o.serverName != "" && sc.sni != "" && sc.sni != o.serverName) .server "unrecognized_name"
  -- record_size_limit of the client
  failIf (o.recordSizeLimit != 0 && o.recordSizeLimit < 64) .server "illegal_parameter"
  let suites ← serverSuites ss sc o v
  let ssg ← selectCertificate ss sc o suites v
  if v > 3 then serverSelect13 ss sc o v ssg.1 ssg.2 else serverSelect12 ss sc o v ssg.1 ssg.2

/-! ## client -/

/-- everything the two ends hold after a completed handshake -/
structure Params where
  version : Nat
  suite : Nat
  group : Nat
  dhBits : Nat
  sigScheme : Nat
  etm : Bool
  ems : Bool
  alpn : String
  serverName : String
  cSend : Nat
  cRecv : Nat
  sSend : Nat
  sRecv : Nat
  /-- the server's certificate was sent and accepted -/
  serverCert : Option Cred
  /-- the client's certificate was sent and accepted -/
  clientCert : Option Cred
  /-- signature scheme of the client's CertificateVerify (TLS ≥ 1.2); 0 = none -/
  clientSig : Nat
  psk : Option Nat
  hrr : Bool
  deriving Repr, DecidableEq

/-- `_check_certchain_with_settings(cert_chain, settings)` run by `side` at version `v` -/
def checkCertChain (st : Settings) (side : Side) (c : Cred) (v : Nat) : Outcome Unit :=
  if c.certAlg == "ecdsa" then do
    failIf (v ≤ 3 && !st.eccCurves.contains c.curve) side "handshake_failure"
    failIf (v ≥ 4 && (curveHash c.curve).isNone) side "illegal_parameter"
    failIf (v ≥ 4 && !(curveHash c.curve).any st.ecdsaSigHashes.contains) side "illegal_parameter"
  else if c.certAlg == "Ed25519" || c.certAlg == "Ed448" then do
    failIf (v < 3) side "illegal_parameter"
    failIf (!st.moreSigSchemes.contains c.certAlg) side "handshake_failure"
  else do
    failIf (c.keyBits < st.minKeySize) side "handshake_failure"
    failIf (c.keyBits > st.maxKeySize) side "handshake_failure"

/-- signature scheme of the client's CertificateVerify; none = the code raises -/
def clientCertVerifySig (cs : Settings) (c : Cred) (certReq : List Nat) (v : Nat) : Option Nat :=
  if v ≥ 4 then firstMatching (sigHashesToList cs (some c.keyBits) (some c) 4) certReq
  else if v == 3 then
    let valid := sigHashesToList cs (some c.keyBits) (some c) 3
    match firstMatching valid certReq with
    | some s => some s
    | none => valid.head?
  else some 0

/-- checks of `_clientGetServerHello` on version and cipher suite -/
def clientCheckHello (cs : Settings) (o : Offer) (sel : Selection) : Outcome Unit := do
  let v := sel.version
  failIf (v < cs.minVersion) .client "protocol_version"
  failIf (v > cs.maxVersion && !cs.versions.contains v) .client "protocol_version"
  failIf (!(filterForVersion o.suites v).contains sel.suite) .client "illegal_parameter"

/-- the certificate chain the client expects and checks for this selection -/
def serverCertOf (sc : ServerCfg) (sel : Selection) : Option Cred := if sel.sendsCert then sc.cred else none

/-- `_clientGetKeyFromChain` + `verifyServerKeyExchange` -/
def clientCheckServerCert (cs : Settings) (sc : ServerCfg) (o : Offer) (sel : Selection) : Outcome Unit :=
  match serverCertOf sc sel with
  | some c => do
    checkCertChain cs .client c sel.version
    -- the TLS 1.2 signature algorithm must be one we accept for this chain
    failIf (sel.version == 3 && sel.sigScheme != 0 &&
            !(sigHashesToList cs none (some c) 3).contains sel.sigScheme) .client "illegal_parameter"
    -- TLS 1.3: the CertificateVerify scheme must be one we advertised and usable with the chain's key
    failIf (sel.version > 3 &&
            (!(o.sigAlgs.getD []).contains sel.sigScheme ||
             !(sigHashesToList cs none (some c) 4).contains sel.sigScheme)) .client "illegal_parameter"
  | none => pure ()

/-- scheme of the client's TLS 1.3 CertificateVerify -/
def clientSig13 (cs : Settings) (useCert : Option Cred) (sel : Selection) : Outcome Nat :=
  match useCert, sel.certReq with
  | some c, some algs =>
    if algs.isEmpty then Outcome.alert .client "missing_extension" else
    match clientCertVerifySig cs c algs sel.version with
    | some s => .ok s
    | none => .alert .client "handshake_failure"
  | _, _ => .ok 0

/-- before sending its Certificate (TLS ≤ 1.2) the client makes sure its key can sign the CertificateVerify -/
def clientCheckOwnCert (cs : Settings) (useCert : Option Cred) (sel : Selection) : Outcome Unit :=
  match useCert with
  | some c => do
    failIf (sel.version < 3 && (c.certAlg == "Ed25519" || c.certAlg == "Ed448")) .client "handshake_failure"
    failIf (sel.version == 3 && (sigHashesToList cs (some c.keyBits) (some c) 3).isEmpty) .client "handshake_failure"
  | none => pure ()

/-- scheme of the client's TLS ≤ 1.2 CertificateVerify -/
def clientSig12 (cs : Settings) (useCert : Option Cred) (sel : Selection) : Outcome Nat :=
  match useCert, sel.certReq with
  | some c, some algs =>
    -- makeCertificateVerify below TLS 1.2 calls `privateKey.sign` on an EdDSA key
    if sel.version < 3 && (c.certAlg == "Ed25519" || c.certAlg == "Ed448") then .abort .client "TypeError" else
    match clientCertVerifySig cs c algs sel.version with
    | some s => .ok s
    | none => .abort .client "IndexError"
  | _, _ => .ok 0

/-- the size limits apply to the server's Diffie-Hellman parameters too (`_clientKeyExchange`) -/
def clientCheckDhSize (cs : Settings) (sel : Selection) : Outcome Unit :=
  if dhAllSuites.contains sel.suite then do
    failIf (sel.dhBits < cs.minKeySize) .client "insufficient_security"
    failIf (sel.dhBits > cs.maxKeySize) .client "handshake_failure"
  else pure ()

/-- the client's reaction to a TLS 1.2 CertificateRequest without any RSA algorithm -/
def clientCheckCertReq (sel : Selection) : Outcome Unit :=
  match sel.certReq with
  | some algs => failIf (sel.version == 3 && !(algs.any fun a => a % 256 == sigRsa)) .client "handshake_failure"
  | none => pure ()

/-- `_clientTLS13Handshake` -/
def clientAccept13 (cs : Settings) (cc : ClientCfg) (sc : ServerCfg) (o : Offer) (sel : Selection) :
    Outcome Params := do
  let v := sel.version
  -- (requireExtendedMasterSecret is enforced below TLS 1.3 only: the extension is not used there)
  -- after a HelloRetryRequest the group must be one we advertised
  failIf (sel.group != 0 && sel.hrr && !(o.groups.getD []).contains sel.group) .client "illegal_parameter"
  failIf (sel.rslEcho != 0 && cs.recordSizeLimit == 0) .client "illegal_parameter"
  failIf (sel.rslEcho != 0 && !(64 ≤ sel.rslEcho && sel.rslEcho ≤ maxRec + 1)) .client "illegal_parameter"
  let cSend := if sel.rslEcho != 0 then sel.rslEcho - 1 else maxRec
  let cRecv := if sel.rslEcho != 0 then min maxRec (cs.recordSizeLimit - 1) else maxRec
  clientCheckServerCert cs sc o sel
  -- client certificate
  let useCert : Option Cred := if sel.certReq.isSome then cc.cred else none
  let cSig ← clientSig13 cs useCert sel
  -- the ALPN reply in EncryptedExtensions: we must have sent ALPN and the name must be one of ours
  failIf (sel.alpn != "" && o.alpn.isEmpty) .client "unsupported_extension"
  failIf (sel.alpn != "" && !o.alpn.contains sel.alpn) .client "illegal_parameter"
  pure { version := v, suite := sel.suite, group := sel.group, dhBits := 0, sigScheme := sel.sigScheme
         etm := false, ems := true, alpn := sel.alpn, serverName := o.serverName
         cSend := cSend, cRecv := cRecv, sSend := sel.sSend, sRecv := sel.sRecv
         serverCert := serverCertOf sc sel, clientCert := useCert, clientSig := cSig
         psk := sel.psk, hrr := sel.hrr }

/-- `processServerKeyExchange` of the key exchange the suite uses -/
def clientCheckKex (cs : Settings) (sel : Selection) : Outcome Unit :=
  if dhAllSuites.contains sel.suite then
    failIf (sel.dhBits < 1024) .client "insufficient_security"
  else if ecdhAllSuites.contains sel.suite then
    failIf (!(curveNamesToList cs 4).contains sel.group) .client "illegal_parameter"
  else if srpAllSuites.contains sel.suite then do
    failIf (!srpGroupBits.contains sel.dhBits) .client "insufficient_security"
    failIf (sel.dhBits < cs.minKeySize) .client "insufficient_security"
    failIf (sel.dhBits > cs.maxKeySize) .client "insufficient_security"
  else pure ()

/-- TLS ≤ 1.2: rest of `_clientGetServerHello`, `_clientKeyExchange`, `_clientFinished` -/
def clientAccept12 (cs : Settings) (cc : ClientCfg) (sc : ServerCfg) (o : Offer) (sel : Selection) :
    Outcome Params := do
  let v := sel.version
  failIf (!sel.ems && cs.requireEMS) .client "insufficient_security"
  failIf (sel.alpn != "" && o.alpn.isEmpty) .client "unsupported_extension"
  failIf (sel.alpn != "" && !o.alpn.contains sel.alpn) .client "illegal_parameter"
  failIf (sel.rslEcho != 0 && !(64 ≤ sel.rslEcho && sel.rslEcho ≤ maxRec)) .client "illegal_parameter"
  -- downgrade protection
  failIf (cs.maxVersion > 3 && v ≤ 3 && sel.sentinel != 0) .client "illegal_parameter"
  failIf (cs.maxVersion == 3 && v < 3 && sel.sentinel == 1) .client "illegal_parameter"
  clientCheckServerCert cs sc o sel
  clientCheckDhSize cs sel
  clientCheckCertReq sel
  let useCert : Option Cred := if sel.certReq.isSome then cc.cred else none
  clientCheckOwnCert cs useCert sel
  clientCheckKex cs sel
  let cSig ← clientSig12 cs useCert sel
  pure { version := v, suite := sel.suite, group := sel.group, dhBits := sel.dhBits
         sigScheme := sel.sigScheme
         etm := sel.etm, ems := sel.ems, alpn := sel.alpn, serverName := o.serverName
         cSend := if sel.rslEcho != 0 then sel.rslEcho else maxRec
         cRecv := if sel.rslEcho != 0 then min maxRec cs.recordSizeLimit else maxRec
         sSend := sel.sSend, sRecv := sel.sRecv
         serverCert := serverCertOf sc sel, clientCert := useCert, clientSig := cSig
         psk := none, hrr := false }

/-- `_clientGetServerHello` … `_clientFinished` / `_clientTLS13Handshake` -/
def clientAccept (cs : Settings) (cc : ClientCfg) (sc : ServerCfg) (o : Offer) (sel : Selection) :
    Outcome Params := do
  clientCheckHello cs o sel
  if sel.version > 3 then clientAccept13 cs cc sc o sel else clientAccept12 cs cc sc o sel

/-- the server's checks on the client's Certificate / CertificateVerify -/
def serverFinish (ss : Settings) (sel : Selection) (p : Params) : Outcome Params :=
  match p.clientCert with
  | none => pure p
  | some c =>
    if p.version > 3 then do
      -- the scheme must be one we asked for in CertificateRequest and usable with the client's key
      failIf (!(sigHashesToList ss none (some c) 4).contains p.clientSig ||
              !(sel.certReq.getD []).contains p.clientSig) .server "illegal_parameter"
      checkCertChain ss .server c p.version
      pure p
    else do
      failIf (p.version == 3 && !(sigHashesToList ss none (some c) 3).contains p.clientSig) .server "illegal_parameter"
      checkCertChain ss .server c p.version
      pure p

/-- the whole negotiation -/
def negotiate (cs ss : Settings) (cc : ClientCfg) (sc : ServerCfg) : Outcome Params := do
  let o := clientOffer cs cc
  let sel ← serverSelect ss sc o
  let p ← clientAccept cs cc sc o sel
  serverFinish ss sel p

/-- the settings `_handshakeClientAsyncHelper` goes on with: `validate()` and, for the SRP and anonymous
    flavours (no such suites in TLS 1.3), maxVersion capped at TLS 1.2 and (3,4) removed from `versions`.
    (minVersion above TLS 1.2 with these flavours is a ValueError before anything is sent: a caller error.) -/
def effectiveClient (cs : Settings) (fl : ClientFlavour) : Settings :=
  if fl != .cert && cs.maxVersion > 3 then
    { cs with maxVersion := 3, versions := cs.versions.filter (· < 4) }
  else cs

/-- negotiation as started by the handshake functions of the given flavour -/
def negotiateFor (cs ss : Settings) (cc : ClientCfg) (sc : ServerCfg) : Outcome Params :=
  negotiate (effectiveClient cs cc.flavour) ss cc sc

/-! ## the two endpoints' views of a completed handshake -/

/-- the transcript both ends have seen (every message is covered by the Finished MACs) -/
structure Transcript where
  offer : Offer
  selection : Selection
  clientRandom : Bytes
  serverRandom : Bytes
  /-- the handshake messages, as hashed -/
  messages : Bytes
  /-- the server's configured chain (sent iff `selection.sendsCert`) -/
  serverChain : List Bytes
  /-- the client's configured chain ([] = none; sent iff a CertificateRequest was received) -/
  clientChain : List Bytes
  deriving DecidableEq

/-- key schedule primitives as parameters -/
structure KeySched where
  /-- master secret / TLS 1.3 master secret from (version, suite, ems, premaster, randoms, messages) -/
  master : Nat → Nat → Bool → Bytes → Bytes → Bytes → Bytes → Bytes
  /-- TLS 1.3 traffic/exporter/resumption secrets: label → suite → master → messages → secret -/
  derive : String → Nat → Bytes → Bytes → Bytes
  /-- exporter: version, suite, secret, randoms, label, length -/
  exportKm : Nat → Nat → Bytes → Bytes → Bytes → Bytes → Nat → Bytes

structure SessionView where
  version : Nat
  suite : Nat
  masterSecret : Bytes
  clAppSecret : Bytes
  srAppSecret : Bytes
  exporterSecret : Bytes
  resumptionSecret : Bytes
  etm : Bool
  ems : Bool
  alpn : String
  serverName : String
  /-- largest record I send / accept -/
  sendLimit : Nat
  recvLimit : Nat
  serverChain : List Bytes
  clientChain : List Bytes
  exporter : Bytes → Nat → Bytes

def secretsOf (K : KeySched) (t : Transcript) (premaster : Bytes) (ems : Bool) :
    Bytes × Bytes × Bytes × Bytes × Bytes :=
  let v := t.selection.version
  let m := K.master v t.selection.suite ems premaster t.clientRandom t.serverRandom t.messages
  if v > 3 then
    (m, K.derive "c ap traffic" t.selection.suite m t.messages, K.derive "s ap traffic" t.selection.suite m t.messages,
     K.derive "exp master" t.selection.suite m t.messages, K.derive "res master" t.selection.suite m t.messages)
  else (m, [], [], [], [])

/-- what the client stores (`_handshakeClientAsyncHelper`, `_clientTLS13Handshake`) -/
def clientView (K : KeySched) (cs : Settings) (t : Transcript) (premaster : Bytes) : SessionView :=
  let sel := t.selection
  let v := sel.version
  let ems := if v > 3 then true else sel.ems
  let s := secretsOf K t premaster ems
  { version := v, suite := sel.suite
    masterSecret := s.1, clAppSecret := s.2.1, srAppSecret := s.2.2.1
    exporterSecret := s.2.2.2.1, resumptionSecret := s.2.2.2.2
    etm := if v > 3 then false else sel.etm
    ems := ems
    alpn := sel.alpn
    serverName := t.offer.serverName
    sendLimit := if sel.rslEcho != 0 then (if v > 3 then sel.rslEcho - 1 else sel.rslEcho) else maxRec
    recvLimit := if sel.rslEcho != 0 then
                   (if v > 3 then min maxRec (cs.recordSizeLimit - 1) else min maxRec cs.recordSizeLimit)
                 else maxRec
    -- the chain received in the server's Certificate message
    serverChain := if sel.sendsCert then t.serverChain else []
    -- the own chain is part of the session only if a CertificateRequest came
    clientChain := if sel.certReq.isSome then t.clientChain else []
    exporter := fun label n =>
      K.exportKm v sel.suite (if v > 3 then s.2.2.2.1 else s.1) t.clientRandom t.serverRandom label n }

/-- what the server stores (`_handshakeServerAsyncHelper`, `_serverTLS13Handshake`) -/
def serverView (K : KeySched) (ss : Settings) (t : Transcript) (premaster : Bytes) : SessionView :=
  let sel := t.selection
  let v := sel.version
  let ems := if v > 3 then true else (ss.useEMS && t.offer.ems && v > 0)
  let s := secretsOf K t premaster ems
  let rslOn := t.offer.recordSizeLimit != 0 && ss.recordSizeLimit != 0
  { version := v, suite := sel.suite
    masterSecret := s.1, clAppSecret := s.2.1, srAppSecret := s.2.2.1
    exporterSecret := s.2.2.2.1, resumptionSecret := s.2.2.2.2
    etm := if v > 3 then false
           else ss.useEtM && t.offer.etm && !streamSuites.contains sel.suite && !aeadSuites.contains sel.suite
    ems := ems
    alpn := sel.alpn
    serverName := t.offer.serverName
    sendLimit := if rslOn then
                   (if v > 3 then min maxRec (t.offer.recordSizeLimit - 1) else min maxRec t.offer.recordSizeLimit)
                 else maxRec
    recvLimit := if rslOn then
                   (if v > 3 then min maxRec (ss.recordSizeLimit - 1) else min maxRec ss.recordSizeLimit)
                 else maxRec
    -- TLS 1.3: none for PSK handshakes; TLS ≤ 1.2: for the suites that send a Certificate
    serverChain := if v > 3 then (if sel.psk.isSome then [] else t.serverChain)
                   else if certAllSuites.contains sel.suite || ecdheEcdsaSuites.contains sel.suite ||
                           dheDsaSuites.contains sel.suite
                        then t.serverChain else []
    clientChain := if sel.certReq.isSome then t.clientChain else []
    exporter := fun label n =>
      K.exportKm v sel.suite (if v > 3 then s.2.2.2.1 else s.1) t.clientRandom t.serverRandom label n }

end Tls.Neg
