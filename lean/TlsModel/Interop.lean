import TlsModel.Basic
/-
  C07 — interoperability expectation for a pair of TLS endpoints.

  NOTHING here models OpenSSL (or tlslite's handshake code).  The module carries
    * capability records: what an endpoint is CONFIGURED to offer / accept
      (protocol versions, cipher suites, named groups, signature schemes);
      for tlslite-ng the record is computed by the harness from HandshakeSettings fields,
      for OpenSSL from the SSLContext configuration (hand-written description of this
      OpenSSL 3.0 build, validated at run time against the ClientHello it really emits and
      by OpenSSL<->OpenSSL control handshakes);
    * the server's credentials (key type);
    * `expectedOutcome`: the independently computed expectation for the pair, written from the
      RFCs' negotiation rules (RFC 5246 7.4.1, RFC 8446 4.1/4.2, RFC 8422 5.1, RFC 7919 4,
      RFC 7301 3.2): the highest common version, and for it the set of admissible suites that
      are usable with the server key, each with its set of usable groups; or the statement that
      the configurations share no common parameters.
  The harness diffs this expectation against what a live tlslite <-> OpenSSL pair really does.
  Identifiers are the IANA code points.
-/
namespace Tls.Interop

/-! ## suite table (IANA TLS Cipher Suites registry; only suites both libraries can negotiate) -/

inductive Kx | rsa | dhe | ecdhe | dhAnon | ecdhAnon | tls13
  deriving DecidableEq, Repr

inductive Auth | rsa | ecdsa | dss | anon | any
  deriving DecidableEq, Repr

structure SuiteInfo where
  kx : Kx
  auth : Auth
  /-- AEAD cipher or SHA-2 MAC: defined for TLS 1.2 only (RFC 5246 / 5288 / 5289 / 6655 / 7251 / 7905) -/
  tls12Only : Bool
  deriving DecidableEq, Repr

def suiteTable : List (Nat × SuiteInfo) := [
  (0x002F, ⟨.rsa, .rsa, false⟩), (0x0035, ⟨.rsa, .rsa, false⟩),
  (0x0032, ⟨.dhe, .dss, false⟩), (0x0038, ⟨.dhe, .dss, false⟩),
  (0x0033, ⟨.dhe, .rsa, false⟩), (0x0039, ⟨.dhe, .rsa, false⟩),
  (0x0034, ⟨.dhAnon, .anon, false⟩), (0x003A, ⟨.dhAnon, .anon, false⟩),
  (0x003C, ⟨.rsa, .rsa, true⟩), (0x003D, ⟨.rsa, .rsa, true⟩),
  (0x0067, ⟨.dhe, .rsa, true⟩), (0x006B, ⟨.dhe, .rsa, true⟩),
  (0x006C, ⟨.dhAnon, .anon, true⟩), (0x006D, ⟨.dhAnon, .anon, true⟩),
  (0x009C, ⟨.rsa, .rsa, true⟩), (0x009D, ⟨.rsa, .rsa, true⟩),
  (0x009E, ⟨.dhe, .rsa, true⟩), (0x009F, ⟨.dhe, .rsa, true⟩),
  (0x00A2, ⟨.dhe, .dss, true⟩), (0x00A3, ⟨.dhe, .dss, true⟩),
  (0x00A6, ⟨.dhAnon, .anon, true⟩), (0x00A7, ⟨.dhAnon, .anon, true⟩),
  (0x1301, ⟨.tls13, .any, false⟩), (0x1302, ⟨.tls13, .any, false⟩), (0x1303, ⟨.tls13, .any, false⟩),
  (0xC009, ⟨.ecdhe, .ecdsa, false⟩), (0xC00A, ⟨.ecdhe, .ecdsa, false⟩),
  (0xC013, ⟨.ecdhe, .rsa, false⟩), (0xC014, ⟨.ecdhe, .rsa, false⟩),
  (0xC018, ⟨.ecdhAnon, .anon, false⟩), (0xC019, ⟨.ecdhAnon, .anon, false⟩),
  (0xC023, ⟨.ecdhe, .ecdsa, true⟩), (0xC024, ⟨.ecdhe, .ecdsa, true⟩),
  (0xC027, ⟨.ecdhe, .rsa, true⟩), (0xC028, ⟨.ecdhe, .rsa, true⟩),
  (0xC02B, ⟨.ecdhe, .ecdsa, true⟩), (0xC02C, ⟨.ecdhe, .ecdsa, true⟩),
  (0xC02F, ⟨.ecdhe, .rsa, true⟩), (0xC030, ⟨.ecdhe, .rsa, true⟩),
  (0xC09C, ⟨.rsa, .rsa, true⟩), (0xC09D, ⟨.rsa, .rsa, true⟩),
  (0xC09E, ⟨.dhe, .rsa, true⟩), (0xC09F, ⟨.dhe, .rsa, true⟩),
  (0xC0A0, ⟨.rsa, .rsa, true⟩), (0xC0A1, ⟨.rsa, .rsa, true⟩),
  (0xC0A2, ⟨.dhe, .rsa, true⟩), (0xC0A3, ⟨.dhe, .rsa, true⟩),
  (0xC0AC, ⟨.ecdhe, .ecdsa, true⟩), (0xC0AD, ⟨.ecdhe, .ecdsa, true⟩),
  (0xC0AE, ⟨.ecdhe, .ecdsa, true⟩), (0xC0AF, ⟨.ecdhe, .ecdsa, true⟩),
  (0xCCA8, ⟨.ecdhe, .rsa, true⟩), (0xCCA9, ⟨.ecdhe, .ecdsa, true⟩), (0xCCAA, ⟨.dhe, .rsa, true⟩)]

/-- unknown code point = `none` (never a default) -/
def suiteInfo (id : Nat) : Option SuiteInfo :=
  (suiteTable.find? (fun p => p.1 == id)).map (·.2)

/-! ## versions, groups, signature schemes -/

def tls10 : Nat := 0x0301
def tls11 : Nat := 0x0302
def tls12 : Nat := 0x0303
def tls13 : Nat := 0x0304

/-- a suite is defined for a protocol version -/
def versionOk (si : SuiteInfo) (v : Nat) : Bool :=
  if si.kx = Kx.tls13 then v == tls13
  else if si.tls12Only then v == tls12
  else decide (0x0300 ≤ v) && decide (v ≤ tls12)

/-- elliptic-curve groups usable for ECDHE in TLS <= 1.2 (RFC 8422 + RFC 7027 brainpool) -/
def isEcGroup (g : Nat) : Bool := [23, 24, 25, 26, 27, 28, 29, 30].contains g
/-- RFC 7919 finite-field groups -/
def isFfGroup (g : Nat) : Bool := decide (256 ≤ g) && decide (g ≤ 260)
/-- groups TLS 1.3 permits (RFC 8446 4.2.7; brainpool code points 31..33 of RFC 8734) -/
def isTls13Group (g : Nat) : Bool := [23, 24, 25, 29, 30, 31, 32, 33].contains g || isFfGroup g

inductive KeyType
  | rsa | rsaPss | ecdsa (curve : Nat) | ed25519 | ed448 | dsa | none
  deriving DecidableEq, Repr

/-- TLS 1.2 (RFC 5246 7.4.1.4.1, RFC 8422 5.1.3, RFC 8446 4.2.3 backport): scheme fits the key -/
def sigFits12 (k : KeyType) (s : Nat) : Bool :=
  match k with
  | .rsa => [0x0201, 0x0301, 0x0401, 0x0501, 0x0601, 0x0804, 0x0805, 0x0806].contains s
  | .rsaPss => [0x0809, 0x080A, 0x080B].contains s
  | .ecdsa _ => [0x0203, 0x0303, 0x0403, 0x0503, 0x0603].contains s
  | .ed25519 => s == 0x0807
  | .ed448 => s == 0x0808
  | .dsa => [0x0202, 0x0302, 0x0402, 0x0502, 0x0602].contains s
  | .none => false

/-- TLS 1.3 (RFC 8446 4.2.3): no PKCS#1 v1.5, no DSA, ECDSA schemes are bound to their curve -/
def sigFits13 (k : KeyType) (s : Nat) : Bool :=
  match k with
  | .rsa => [0x0804, 0x0805, 0x0806].contains s
  | .rsaPss => [0x0809, 0x080A, 0x080B].contains s
  | .ecdsa c => (c == 23 && s == 0x0403) || (c == 24 && s == 0x0503) || (c == 25 && s == 0x0603)
  | .ed25519 => s == 0x0807
  | .ed448 => s == 0x0808
  | .dsa => false
  | .none => false

/-! ## capability records -/

structure Caps where
  versions : List Nat
  suites : List Nat
  /-- supported_groups semantics: (EC)DHE groups negotiable through the extension -/
  groups : List Nat
  sigs : List Nat
  /-- RFC 7919 groups whose parameters the endpoint, acting as a TLS <= 1.2 server, uses for DHE
      regardless of supported_groups (OpenSSL 3.0: `SSL_CTX_set_tmp_dh`; it does not implement the
      RFC 7919 negotiation for TLS <= 1.2).  Empty for an endpoint that negotiates (tlslite-ng). -/
  dhLegacy : List Nat := []
  deriving DecidableEq, Repr

/-- the server-side groups that count for a finite-field DHE suite in TLS <= 1.2 -/
def serverDhGroups (s : Caps) : List Nat := s.groups ++ s.dhLegacy

def common (a b : List Nat) : List Nat := a.filter (fun x => b.contains x)

def listMax : List Nat → Option Nat
  | [] => none
  | x :: xs => match listMax xs with
    | none => some x
    | some m => some (if m ≤ x then x else m)

/-- RFC 5246 appendix E.1 / RFC 8446 4.2.1: the highest version both sides support -/
def negotiatedVersion (c s : Caps) : Option Nat := listMax (common c.versions s.versions)

/-- the server key can authenticate this suite in this version (client `c` matters for the
    RFC 8422 5.1 rule that an ECDSA certificate's curve must be one the client listed) -/
def keyOk (si : SuiteInfo) (v : Nat) (c : Caps) (k : KeyType) : Bool :=
  match si.auth with
  | .rsa => k == .rsa || (k == .rsaPss && si.kx != Kx.rsa && v == tls12)
  | .ecdsa => match k with
    | .ecdsa g => c.groups.contains g
    | .ed25519 => v == tls12
    | .ed448 => v == tls12
    | _ => false
  | .dss => k == .dsa
  | .anon => true
  | .any => k != .dsa && k != .none

/-- the groups usable for this suite's key exchange; `none` = the key exchange needs no
    negotiated group (static RSA; DHE in TLS <= 1.2 when the client lists no RFC 7919 group and
    the server therefore picks its own parameters) -/
def suiteGroups (si : SuiteInfo) (c s : Caps) : Option (List Nat) :=
  match si.kx with
  | .rsa => none
  | .ecdhe | .ecdhAnon => some ((common c.groups s.groups).filter isEcGroup)
  | .dhe | .dhAnon =>
    if (c.groups.filter isFfGroup).isEmpty then
      (if ((serverDhGroups s).filter isFfGroup).isEmpty then some [] else none)
    else some ((common c.groups (serverDhGroups s)).filter isFfGroup)
  | .tls13 => some ((common c.groups s.groups).filter isTls13Group)

def groupOk (si : SuiteInfo) (c s : Caps) : Bool :=
  match suiteGroups si c s with
  | none => true
  | some gs => !gs.isEmpty

/-- a signature scheme both sides list fits the key (only where the version negotiates one) -/
def sigOk (si : SuiteInfo) (v : Nat) (c s : Caps) (k : KeyType) : Bool :=
  if si.auth = Auth.anon then true
  else if si.kx = Kx.rsa then true
  else if v == tls13 then (common c.sigs s.sigs).any (sigFits13 k)
  else if v == tls12 then (common c.sigs s.sigs).any (sigFits12 k)
  else -- TLS 1.0 / 1.1: fixed MD5+SHA-1 / SHA-1; PSS and EdDSA keys cannot sign
    (k == .rsa || k == .dsa || (match k with | .ecdsa _ => true | _ => false))

def suiteUsable (v : Nat) (c s : Caps) (k : KeyType) (id : Nat) : Bool :=
  match suiteInfo id with
  | none => false
  | some si => versionOk si v && keyOk si v c k && groupOk si c s && sigOk si v c s k

/-- common suites that are defined for the version -/
def admissibleSuites (v : Nat) (c s : Caps) : List Nat :=
  (common c.suites s.suites).filter (fun id =>
    match suiteInfo id with
    | none => false
    | some si => versionOk si v)

def usableSuites (v : Nat) (c s : Caps) (k : KeyType) : List Nat :=
  (common c.suites s.suites).filter (suiteUsable v c s k)

inductive FailReason | noCommonVersion | noCommonSuite | noUsableSuite
  deriving DecidableEq, Repr

inductive Outcome
  /-- version, and for every acceptable suite the acceptable groups ([] = no negotiated group) -/
  | success (version : Nat) (params : List (Nat × List Nat))
  | failure (reason : FailReason)
  deriving DecidableEq, Repr

def groupsOf (c s : Caps) (id : Nat) : List Nat :=
  match suiteInfo id with
  | none => []
  | some si => (suiteGroups si c s).getD []

def expectedOutcome (c s : Caps) (k : KeyType) : Outcome :=
  match negotiatedVersion c s with
  | none => .failure .noCommonVersion
  | some v =>
    if (admissibleSuites v c s).isEmpty then .failure .noCommonSuite
    else
      let us := usableSuites v c s k
      if us.isEmpty then .failure .noUsableSuite
      else .success v (us.map fun id => (id, groupsOf c s id))

/-- client authentication: an ECDSA client certificate is usable in TLS <= 1.2 only if its curve is
    a group both sides list (RFC 8422 5.1 for the client's own list; servers - tlslite and OpenSSL
    alike - also refuse curves they did not configure).  TLS 1.3 binds the curve through the
    signature scheme instead. -/
def clientCertOk (v : Nat) (c s : Caps) (k : KeyType) : Bool :=
  match k with
  | .ecdsa g => if v ≤ tls12 then c.groups.contains g && s.groups.contains g else true
  | _ => true

/-- client authentication, CertificateVerify (RFC 5246 7.4.8, RFC 8446 4.4.3): in TLS >= 1.2 the client
    must sign with a scheme the server listed in its CertificateRequest (`s.sigs`), that the client
    itself supports (`c.sigs`) and that fits its key; TLS 1.0/1.1 use the fixed legacy hashes. -/
def clientSigOk (v : Nat) (c s : Caps) (k : KeyType) : Bool :=
  if v == tls13 then (common c.sigs s.sigs).any (sigFits13 k)
  else if v == tls12 then (common c.sigs s.sigs).any (sigFits12 k)
  else (k == .rsa || k == .dsa || (match k with | .ecdsa _ => true | _ => false))

/-! ## ALPN (RFC 7301 3.2): the server selects a protocol the client offered -/

def expectedAlpn (clientProtos serverProtos : List String) : List String :=
  clientProtos.filter (fun p => serverProtos.contains p)

/-! ## resumption: a second connection may be abbreviated only with a mechanism both support,
    in the version and with the suite of the original session (RFC 5246 7.4.1.2/7.4.1.3,
    RFC 5077 3.1, RFC 8446 4.2.11: same hash for the PSK) -/

inductive Mech | sessionId | ticket | psk
  deriving DecidableEq, Repr

def mechVersionOk (m : Mech) (v : Nat) : Bool :=
  match m with
  | .sessionId => decide (v ≤ tls12)
  | .ticket => decide (v ≤ tls12)
  | .psk => v == tls13

/-- hash of a TLS 1.3 suite (PSK binder hash) -/
def tls13Hash (id : Nat) : Nat := if id == 0x1302 then 384 else 256

/-- resumption of a session (version `v0`, suite `s0`) is expected on a second connection whose
    expectation is `out` iff the mechanism is supported by both and fits the version, the second
    negotiation lands on the same version and the original suite is still acceptable
    (TLS 1.3: a suite with the same hash) -/
def resumeExpected (m : Mech) (clientMechs serverMechs : List Mech) (v0 s0 : Nat) (out : Outcome) : Bool :=
  clientMechs.contains m && serverMechs.contains m && mechVersionOk m v0 &&
  match out with
  | .failure _ => false
  | .success v ps =>
    v == v0 &&
    (if v == tls13 then ps.any (fun p => tls13Hash p.1 == tls13Hash s0)
     else ps.any (fun p => p.1 == s0))

/-! ## textual encoding for the driver -/

def natsOut (l : List Nat) : String :=
  if l.isEmpty then "-" else ",".intercalate (l.map toString)

def Outcome.render : Outcome → String
  | .success v ps =>
    "ok " ++ toString v ++ " " ++ ";".intercalate (ps.map fun p => toString p.1 ++ ":" ++ natsOut p.2)
  | .failure .noCommonVersion => "fail noCommonVersion"
  | .failure .noCommonSuite => "fail noCommonSuite"
  | .failure .noUsableSuite => "fail noUsableSuite"

end Tls.Interop
