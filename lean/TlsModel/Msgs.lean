import TlsModel.Fmt
import TlsModel.ExtCls
import TlsModel.Gen.ExtTable
/-
  The wire formats of tlslite/messages.py, tlslite/extensions.py (and the
  DelegatedCredential structure of tlslite/x509.py), one `Fmt` each, written from the
  presentation-language definitions of RFC 5246 / 8446 / 6066 / 7301 / 8449 / 5077 / 6520 /
  7685 / 5746 / 5054 / 9345 and the TACK / NPN drafts.

  Conventions
  * A handshake message format describes what `Msg.parse(p)` reads, i.e. the 3-byte length
    and the body (`hs body = lenPref 3 body`); `write()` additionally puts the handshake
    type byte in front (`HandshakeMsg.postWrite`).
  * An extension format describes `extension_data`, what `Ext.parse(Parser(ext_data))`
    reads and what `Ext.extData` returns.  `extEntry tbl` is a whole extension
    (type, length, data) with the data format selected through the dispatch table `tbl`.
  * X.509 / OCSP / SPKI bodies are opaque byte strings.
  * `post` is the additional acceptance condition the parser of that message applies to
    the decoded value (e.g. `session_id` at most 32 bytes); `exact` says whether the parser is
    handed exactly the bytes of the structure and therefore must reject anything left over.
-/
namespace Tls.Msgs
open Tls Tls.Fmt
open Tls.Fmt.Fmt (unit uint bytes rest pair lenPref many optTail tagged caseOf fail)

/-- right-nested sequence; its value is the right-nested pair of the field values -/
def seq : List Fmt → Fmt
  | [] => unit
  | [f] => f
  | f :: fs => pair f (seq fs)

def hs (body : Fmt) : Fmt := lenPref 3 body

/-! ## extension_data formats -/

def tackFmt : Fmt := seq [bytes 64, uint 1, uint 1, uint 4, bytes 32, bytes 64]

def keyShareEntry : Fmt := pair (uint 2) (varBytes 2)
def pskIdentity : Fmt := pair (varBytes 2) (uint 4)
def sigAlgList : Fmt := optTail (list 2 (pair (uint 1) (uint 1)))

/-- DelegatedCredential (RFC 9345): valid_time, dc_cert_verify_algorithm, SPKI<3>,
    algorithm, signature<2> -/
def delegatedCredentialFmt : Fmt :=
  seq [uint 4, uint 1, uint 1, varBytes 3, uint 1, uint 1, varBytes 2]

def extBody : ExtCls → Fmt
  | .sni => optTail (list 2 (pair (uint 1) (varBytes 2)))
  | .statusRequest => optTail (seq [uint 1, list 2 (varBytes 2), varBytes 2])
  | .clientCertType => optTail (list 1 (uint 1))
  | .supportedGroups => optTail (list 2 (uint 2))
  | .ecPointFormats => optTail (list 1 (uint 1))
  | .srp => varBytes 1
  | .signatureAlgorithms => sigAlgList
  | .heartbeat => uint 1
  | .alpn => list 2 (varBytes 1)
  | .padding => rest
  | .compressCertificate => optTail (list 1 (uint 2))
  | .recordSizeLimit => optTail (uint 2)
  | .delegatedCredential => sigAlgList
  | .sessionTicket => rest
  | .preSharedKey => optTail (pair (list 2 pskIdentity) (list 2 (varBytes 1)))
  | .supportedVersions => optTail (list 1 (pair (uint 1) (uint 1)))
  | .cookie => optTail (varBytes 2)
  | .pskKeyExchangeModes => optTail (list 1 (uint 1))
  | .signatureAlgorithmsCert => sigAlgList
  | .clientKeyShare => optTail (list 2 keyShareEntry)
  | .npn => many (varBytes 1)
  | .renegotiationInfo => optTail (varBytes 1)
  | .serverCertType => uint 1
  | .srvPreSharedKey => optTail (uint 2)
  | .srvSupportedVersions => pair (uint 1) (uint 1)
  | .serverKeyShare => optTail keyShareEntry
  | .tack => pair (list 2 tackFmt) (uint 1)
  | .certificateStatus => tagged 1 (caseOf 1 (varBytes 3) fail)
  | .delegatedCredentialCert => delegatedCredentialFmt
  | .hrrKeyShare => uint 2
  | .unknown => fail

/-- the body of one extension (after the 2-byte type, which is the current tag): the first
    table row with that type decides; a type without a row is kept as opaque bytes -/
def extDispatch (tbl : List (Nat × ExtCls)) : Fmt :=
  tbl.foldr (fun kc g => caseOf kc.1 (lenPref 2 (extBody kc.2)) g) (varBytes 2)

/-- one extension: type, length, data (`TLSExtension.parse` / `.write`) -/
def extEntry (tbl : List (Nat × ExtCls)) : Fmt := tagged 2 (extDispatch tbl)

/-- the context flags of `TLSExtension(server=, cert=, hrr=)`; the dictionaries are consulted
    in the order certificate, server, hrr, universal (extensions.py:231-236) -/
inductive ExtCtx where
  | plain       -- ClientHello, CertificateRequest, EncryptedExtensions, NewSessionTicket
  | server      -- ServerHello
  | hrr         -- HelloRetryRequest
  | cert        -- CertificateEntry
  deriving DecidableEq, Repr

def extTable : ExtCtx → List (Nat × ExtCls)
  | .plain => Gen.ExtTable.universal
  | .server => Gen.ExtTable.server ++ Gen.ExtTable.universal
  | .hrr => Gen.ExtTable.hrr ++ Gen.ExtTable.universal
  | .cert => Gen.ExtTable.certificate ++ Gen.ExtTable.universal

def ext (c : ExtCtx) : Fmt := extEntry (extTable c)

/-- `extensions<0..2^16-1>` -/
def extBlock (c : ExtCtx) : Fmt := list 2 (ext c)

/-! ## record layer, alert, CCS, heartbeat -/

def recordHeader3 : Fmt := seq [uint 1, uint 1, uint 1, uint 2]
def alert : Fmt := seq [uint 1, uint 1]
def changeCipherSpec : Fmt := uint 1
def heartbeat : Fmt := seq [uint 1, varBytes 2, rest]
def applicationData : Fmt := rest

/-! ## handshake messages -/

def helloRequest : Fmt := hs unit
def serverHelloDone : Fmt := hs unit

def clientHello : Fmt :=
  hs (seq [uint 1, uint 1, bytes 32, varBytes 1, list 2 (uint 2), list 1 (uint 1),
           optTail (extBlock .plain)])

def serverHelloWith (c : ExtCtx) : Fmt :=
  hs (seq [uint 1, uint 1, bytes 32, varBytes 1, uint 2, uint 1, optTail (extBlock c)])

def serverHello : Fmt := serverHelloWith .server
def helloRetryRequest : Fmt := serverHelloWith .hrr

def certificateEntry : Fmt := pair (varBytes 3) (extBlock .cert)

def certificate12 : Fmt := hs (list 3 (varBytes 3))
def certificate13 : Fmt := hs (pair (varBytes 1) (list 3 certificateEntry))

def certificateRequest10 : Fmt := hs (pair (list 1 (uint 1)) (list 2 (varBytes 2)))
def certificateRequest12 : Fmt :=
  hs (seq [list 1 (uint 1), list 2 (pair (uint 1) (uint 1)), list 2 (varBytes 2)])
def certificateRequest13 : Fmt := hs (pair (varBytes 1) (extBlock .plain))

def sigPart (tls12 : Bool) : List Fmt :=
  if tls12 then [uint 1, uint 1, varBytes 2] else [varBytes 2]

def skeDhParams : List Fmt := [varBytes 2, varBytes 2, varBytes 2]
def skeEcdhParams : List Fmt := [uint 1, uint 2, varBytes 1]
def skeSrpParams : List Fmt := [varBytes 2, varBytes 2, varBytes 1, varBytes 2]

def skeDhAnon : Fmt := hs (seq skeDhParams)
def skeDhe (tls12 : Bool) : Fmt := hs (seq (skeDhParams ++ sigPart tls12))
def skeEcdhAnon : Fmt := hs (seq skeEcdhParams)
def skeEcdhe (tls12 : Bool) : Fmt := hs (seq (skeEcdhParams ++ sigPart tls12))
def skeSrp : Fmt := hs (seq skeSrpParams)
def skeSrpCert (tls12 : Bool) : Fmt := hs (seq (skeSrpParams ++ sigPart tls12))

def ckeRsa : Fmt := hs (varBytes 2)
/-- SSLv3: `getFixBytes(getRemainingLength())` takes the rest of the *buffer*, then
    `stopLengthCheck` compares with the declared length: accepted only when the message is the
    whole buffer (`exact` in the table) -/
def ckeRsaSsl3 : Fmt := hs rest
def ckeDh : Fmt := hs (varBytes 2)
def ckeEcdh : Fmt := hs (varBytes 1)
def ckeSrp : Fmt := hs (varBytes 2)

def certificateVerify (tls12 : Bool) : Fmt := hs (seq (sigPart tls12))

def finished (n : Nat) : Fmt := hs (bytes n)

def nextProtocol : Fmt := hs (pair (varBytes 1) (varBytes 1))
def encryptedExtensions : Fmt := hs (extBlock .plain)
def newSessionTicket13 : Fmt :=
  hs (seq [uint 4, uint 4, varBytes 1, varBytes 2, extBlock .plain])
def newSessionTicket10 : Fmt := hs (pair (uint 4) (varBytes 2))
def certificateStatus : Fmt := hs (pair (uint 1) (varBytes 3))
def keyUpdate : Fmt := hs (uint 1)
def compressedCertificate : Fmt := hs (seq [uint 2, uint 3, varBytes 3])

/-! ## SessionTicketPayload (the server's own ticket plaintext) -/

def ticketBase : List Fmt := [varBytes 2, uint 1, uint 1, uint 2, varBytes 1, uint 8]
def ticketCerts : Fmt := list 3 certificateEntry
def sessionTicketPayload : Fmt :=
  tagged 2 (caseOf 0 (seq ticketBase)
           (caseOf 1 (seq (ticketBase ++ [ticketCerts]))
           (caseOf 2 (seq (ticketBase ++ [ticketCerts, uint 1, uint 1, varBytes 2]))
            fail)))

/-- Which layout `SessionTicketPayload.create` must pick for the fields it is given: the v2 tail
    carries encrypt_then_mac, extended_master_secret and server_name, the v1 tail the client
    certificate chain; a layout without the tail a field needs would drop that field. -/
def ticketVersion (hasChain etm ems hasName : Bool) : Nat :=
  if etm || ems || hasName then 2 else if hasChain then 1 else 0

/-! ## acceptance conditions beyond the framing -/

def bytesLen : Val → Option Nat
  | .bytes b => some b.length
  | _ => none

def nth : Nat → Val → Option Val
  | 0, .pair a _ => some a
  | n + 1, .pair _ b => nth n b
  | _, _ => none

/-- `ClientHello.parse`: `if len(self.session_id) > 32: raise DecodeError` -/
def postClientHello (v : Val) : Bool :=
  match nth 3 v >>= bytesLen with
  | some n => n ≤ 32
  | none => false

/-- `Certificate._parse_tls12`: `if not certBytes: raise DecodeError` -/
def postCertificate12 (v : Val) : Bool :=
  allMany (fun c => match c with | .bytes (_ :: _) => true | _ => false) v

def nonEmptyBytes : Val → Bool
  | .bytes (_ :: _) => true
  | _ => false

/-- `CompressedCertificate.parse`: `if len(compressed_msg) == 0: raise DecodeError` -/
def postCompressed (v : Val) : Bool :=
  match v with
  | .pair _ (.pair _ c) => nonEmptyBytes c
  | _ => false

/-- `ServerKeyExchange.parse`: `assert self.curve_type == 3` (only named curves) -/
def postSkeEcdh (v : Val) : Bool :=
  match v with
  | .pair (.nat 3) _ => true
  | _ => false

def tagOf : Val → Option Nat
  | .pair (.nat t) _ => some t
  | _ => none

def tagsOf : Val → List (Option Nat)
  | .cons h t => tagOf h :: tagsOf t
  | _ => []

def distinct : List (Option Nat) → Bool
  | [] => true
  | x :: xs => !xs.contains x && distinct xs

def isTagged : Fmt → Bool
  | .tagged _ _ => true
  | _ => false

def allItems (p : Val → Bool) : Val → Bool
  | .cons h t => p h && allItems p t
  | _ => true

/-- `_reject_duplicate_extensions` (messages.py, called by the six parsers that read an extension
    block): no extension type may occur twice in one block.  Walks the value along its format
    and checks every repetition of tagged items. -/
def noDupTags : Fmt → Nat → Val → Bool
  | .pair f g, t, .pair v w => noDupTags f t v && noDupTags g t w
  | .lenPref _ f, t, v => noDupTags f t v
  | .many f, t, v => (!isTagged f || distinct (tagsOf v)) && allItems (noDupTags f t) v
  | .optTail f, t, .some v => noDupTags f t v
  | .tagged _ f, _, .pair (.nat x) v => noDupTags f x v
  | .caseOf k f g, t, v => if t = k then noDupTags f t v else noDupTags g t v
  | _, _, _ => true

structure Msg where
  fmt : Fmt
  /-- the parser is handed exactly this structure: anything left over is an error -/
  exact : Bool := false
  post : Val → Bool := fun _ => true

/-- what the real `parse` accepts: framing by `fmt`, then `post` and no repeated extension type; `exact` formats must use
    the whole input.  Returns the value and the number of bytes left unread. -/
def Msg.decode (m : Msg) (b : Bytes) : Except Err (Val × Bytes) :=
  match Fmt.decode m.fmt 0 b with
  | .error e => .error e
  | .ok (v, r) =>
    if m.exact && !r.isEmpty then .error .trailing
    else if m.post v && noDupTags m.fmt 0 v then .ok (v, r) else .error .rejected

def Msg.encode (m : Msg) (v : Val) : Option Bytes := Fmt.encode m.fmt 0 v

def extCls? : String → Option ExtCls
  | "sni" => some .sni | "statusRequest" => some .statusRequest
  | "clientCertType" => some .clientCertType | "supportedGroups" => some .supportedGroups
  | "ecPointFormats" => some .ecPointFormats | "srp" => some .srp
  | "signatureAlgorithms" => some .signatureAlgorithms | "heartbeat" => some .heartbeat
  | "alpn" => some .alpn | "padding" => some .padding
  | "compressCertificate" => some .compressCertificate | "recordSizeLimit" => some .recordSizeLimit
  | "delegatedCredential" => some .delegatedCredential | "sessionTicket" => some .sessionTicket
  | "preSharedKey" => some .preSharedKey | "supportedVersions" => some .supportedVersions
  | "cookie" => some .cookie | "pskKeyExchangeModes" => some .pskKeyExchangeModes
  | "signatureAlgorithmsCert" => some .signatureAlgorithmsCert
  | "clientKeyShare" => some .clientKeyShare | "npn" => some .npn
  | "renegotiationInfo" => some .renegotiationInfo | "serverCertType" => some .serverCertType
  | "srvPreSharedKey" => some .srvPreSharedKey | "srvSupportedVersions" => some .srvSupportedVersions
  | "serverKeyShare" => some .serverKeyShare | "tack" => some .tack
  | "certificateStatus" => some .certificateStatus
  | "delegatedCredentialCert" => some .delegatedCredentialCert | "hrrKeyShare" => some .hrrKeyShare
  | _ => none

def allExtCls : List ExtCls :=
  [.sni, .statusRequest, .clientCertType, .supportedGroups, .ecPointFormats, .srp,
   .signatureAlgorithms, .heartbeat, .alpn, .padding, .compressCertificate, .recordSizeLimit,
   .delegatedCredential, .sessionTicket, .preSharedKey, .supportedVersions, .cookie,
   .pskKeyExchangeModes, .signatureAlgorithmsCert, .clientKeyShare, .npn, .renegotiationInfo,
   .serverCertType, .srvPreSharedKey, .srvSupportedVersions, .serverKeyShare, .tack,
   .certificateStatus, .delegatedCredentialCert, .hrrKeyShare]

def isFail : Fmt → Bool
  | .fail => true
  | _ => false

def extCtx? : String → Option ExtCtx
  | "plain" => some .plain | "server" => some .server | "hrr" => some .hrr | "cert" => some .cert
  | _ => none

/-- every named format of the model (the names are the driver's and the harness's) -/
def table : List (String × Msg) := [
  ("recordHeader3", { fmt := recordHeader3 }),
  ("alert", { fmt := alert }),
  ("changeCipherSpec", { fmt := changeCipherSpec, exact := true }),
  ("heartbeat", { fmt := heartbeat, exact := true }),
  ("applicationData", { fmt := applicationData, exact := true }),
  ("helloRequest", { fmt := helloRequest }),
  ("serverHelloDone", { fmt := serverHelloDone }),
  ("clientHello", { fmt := clientHello, post := postClientHello }),
  ("serverHello", { fmt := serverHello }),
  ("helloRetryRequest", { fmt := helloRetryRequest }),
  ("certificate12", { fmt := certificate12, post := postCertificate12 }),
  ("certificate13", { fmt := certificate13 }),
  ("certificateRequest10", { fmt := certificateRequest10 }),
  ("certificateRequest12", { fmt := certificateRequest12 }),
  ("certificateRequest13", { fmt := certificateRequest13 }),
  ("skeDhAnon", { fmt := skeDhAnon }),
  ("skeDhe10", { fmt := skeDhe false }),
  ("skeDhe12", { fmt := skeDhe true }),
  ("skeEcdhAnon", { fmt := skeEcdhAnon, post := postSkeEcdh }),
  ("skeEcdhe10", { fmt := skeEcdhe false, post := postSkeEcdh }),
  ("skeEcdhe12", { fmt := skeEcdhe true, post := postSkeEcdh }),
  ("skeSrp", { fmt := skeSrp }),
  ("skeSrpCert10", { fmt := skeSrpCert false }),
  ("skeSrpCert12", { fmt := skeSrpCert true }),
  ("ckeRsa", { fmt := ckeRsa }),
  ("ckeRsaSsl3", { fmt := ckeRsaSsl3, exact := true }),
  ("ckeDh", { fmt := ckeDh, post := nonEmptyBytes }),
  ("ckeEcdh", { fmt := ckeEcdh }),
  ("ckeSrp", { fmt := ckeSrp }),
  ("certificateVerify10", { fmt := certificateVerify false }),
  ("certificateVerify12", { fmt := certificateVerify true }),
  ("finished12", { fmt := finished 12 }),
  ("finished36", { fmt := finished 36 }),
  ("finished32", { fmt := finished 32 }),
  ("finished48", { fmt := finished 48 }),
  ("nextProtocol", { fmt := nextProtocol }),
  ("encryptedExtensions", { fmt := encryptedExtensions }),
  ("newSessionTicket13", { fmt := newSessionTicket13 }),
  ("newSessionTicket10", { fmt := newSessionTicket10 }),
  ("certificateStatus", { fmt := certificateStatus }),
  ("keyUpdate", { fmt := keyUpdate }),
  ("compressedCertificate", { fmt := compressedCertificate, post := postCompressed }),
  ("sessionTicketPayload", { fmt := sessionTicketPayload, exact := true }),
  ("ssl2Finished", { fmt := rest, exact := true }),
  ("certificateEntry", { fmt := certificateEntry }),
  ("keyShareEntry", { fmt := keyShareEntry }),
  ("pskIdentity", { fmt := pskIdentity }),
  ("tack", { fmt := tackFmt }),
  ("delegatedCredentialStruct", { fmt := delegatedCredentialFmt })
]

/-- `ServerHello.parse` selects the HelloRetryRequest dictionaries when the random it has just
    read equals `TLS_1_3_HRR` (bytes 5..36 of what it is given: length(3) version(2) random) -/
def serverHelloFor (b : Bytes) : Fmt :=
  if (b.drop 5).take 32 == Gen.ExtTable.hrrRandom then helloRetryRequest else serverHello

def serverHelloForVal (v : Val) : Fmt :=
  match nth 2 v with
  | some (.bytes r) => if r == Gen.ExtTable.hrrRandom then helloRetryRequest else serverHello
  | _ => serverHello

/-- `ext:<ctx>` is one whole extension in that context, `extdata:<cls>` is the
    extension_data of that class, anything else is looked up in `table` -/
def lookup (name : String) : Option Msg :=
  match name.splitOn ":" with
  | ["ext", c] => (extCtx? c).map fun c => { fmt := ext c }
  | ["extdata", c] => (extCls? c).map fun c => { fmt := extBody c, exact := true }
  | _ => (table.find? (·.1 == name)).map (·.2)

end Tls.Msgs
