import TlsModel.Negotiate
/-
  C03 / C19 (second half) — `compatible cs ss cc sc`: the premise of "any two endpoints configured from
  validated settings that share a protocol version and, for it, a cipher suite, group and signature
  scheme usable with the server's credentials complete a handshake", written over SETS (which versions,
  suites, groups, schemes the two settings have in common for the server's key), never over the
  library's choices (no first-match, no preference order).  Certificate handshakes.

  Reading: the version is the highest one both ends enable; everything else is judged for that version;
  "the server is free to pick any common suite / group / scheme": the pair is compatible when there is a
  common suite and EVERY common candidate can be carried through (C19's harness uses the same reading).
  Core Lean only.
-/
namespace Tls.Neg
open Tls.Gen.Neg

/-- facts `validate()` establishes plus the default ORDER of the (undocumented) `versions` list -/
def Settings.wf (s : Settings) : Bool :=
  decide (s.minVersion ≤ s.maxVersion) && decide (s.maxVersion ≤ 4) &&
  -- validate() strips (3,4) from `versions` when maxVersion is lower; with maxVersion (3,4) it is listed
  (decide (4 ≤ s.maxVersion) || s.versions.all (fun w => decide (w < 4))) &&
  (decide (s.maxVersion < 4) || s.versions.contains 4) &&
  -- every TLS version of the range is listed (SSLv3 never is: the default list starts at TLS 1.0)
  [1, 2, 3, 4].all (fun w => !(decide (s.minVersion ≤ w) && decide (w ≤ s.maxVersion)) || s.versions.contains w) &&
  -- decreasing order (server preference = highest first)
  decide (s.versions.Pairwise (· > ·)) &&
  (s.recordSizeLimit == 0 || (decide (64 ≤ s.recordSizeLimit) && decide (s.recordSizeLimit ≤ maxRec + 1)))

/-- w is enabled on both sides and can be expressed in the ClientHello the client sends -/
def versionCommon (cs ss : Settings) (w : Nat) : Bool :=
  decide (cs.minVersion ≤ w) && decide (w ≤ cs.maxVersion) && decide (ss.minVersion ≤ w) && decide (w ≤ ss.maxVersion) &&
  -- a client that offers TLS 1.3 names its versions in supported_versions; the server answers from its list
  (!cs.versions.any (fun x => decide (x > 3)) || (cs.versions.contains w && ss.versions.contains w))

/-- the highest common version -/
def commonVersion (cs ss : Settings) : Option Nat := [4, 3, 2, 1, 0].find? (versionCommon cs ss)

/-- every certificate-family suite the server's name lists admit at version v (no group gating, no order) -/
def certFamily (ss : Settings) (v : Nat) : List Nat :=
  filterSuites tls13Suites ss v ++ filterSuites ecdheEcdsaSuites ss v ++ filterSuites ecdheCertSuites ss v ++
  filterSuites dheCertSuites ss v ++ filterSuites dheDsaSuites ss v ++ filterSuites certSuites ss v

/-- suites both policies admit, defined for v and usable with the server's key -/
def commonSuites (cs ss : Settings) (cred : Cred) (v : Nat) : List Nat :=
  (certUsable (filterForVersion (certFamily ss v) v) (some cred) v).filter (clientSuites cs .cert).contains

/-- the chain is acceptable to `st` at version v (declarative twin of `_check_certchain_with_settings`) -/
def certAccepted (st : Settings) (c : Cred) (v : Nat) : Bool :=
  if c.certAlg == "ecdsa" then
    (decide (v > 3) || st.eccCurves.contains c.curve) &&
    (decide (v < 4) || (curveHash c.curve).any st.ecdsaSigHashes.contains)
  else if c.certAlg == "Ed25519" || c.certAlg == "Ed448" then
    decide (3 ≤ v) && st.moreSigSchemes.contains c.certAlg
  else decide (st.minKeySize ≤ c.keyBits) && decide (c.keyBits ≤ st.maxKeySize)

/-- TLS ≥ 1.2: a signature scheme the server can produce with its key under its settings and the client
    offered exists, and every such scheme is one the client accepts for this chain.  Below TLS 1.2 the
    ServerKeyExchange signature has a fixed form and nothing is negotiated. -/
def sigShared (cs ss : Settings) (cred : Cred) (v : Nat) : Bool :=
  decide (v < 3) ||
  match clientSigAlgs cs with
  | none => true
  | some algs =>
    (sigHashesToList ss none (some cred) v).any algs.contains &&
    (sigHashesToList ss none (some cred) v).all fun a =>
      !algs.contains a || (sigHashesToList cs none (some cred) (if v > 3 then 4 else 3)).contains a

/-- the groups the client lists (supported_groups) -/
def clientGroups (cs : Settings) (cc : ClientCfg) : List Nat := (clientOffer cs cc).groups.getD []

/-- TLS ≤ 1.2 ECDHE: a curve both list exists and every such curve is accepted by the client -/
def ecShared (cs ss : Settings) (cc : ClientCfg) (v : Nat) : Bool :=
  let cg := match (clientOffer cs cc).groups with
            | some g => g
            | none => (groupId ss.defaultCurve).toList
  cg.any (curveNamesToList ss v).contains &&
  cg.all fun g => !(curveNamesToList ss v).contains g || (curveNamesToList cs 4).contains g

/-- size of the prime is acceptable to the client -/
def dhBitsOk (cs : Settings) (bits : Nat) : Bool :=
  decide (1024 ≤ bits) && decide (cs.minKeySize ≤ bits) && decide (bits ≤ cs.maxKeySize)

/-- TLS ≤ 1.2 DHE: every prime the server may send is acceptable to the client -/
def dhShared (cs ss : Settings) (cc : ClientCfg) : Bool :=
  let own := if ss.dhParamBits != 0 then ss.dhParamBits else defaultDhBits
  match (clientOffer cs cc).groups with
  | none => dhBitsOk cs own
  | some cg =>
    if cg.any (groupNamesToList ss).contains then
      -- RFC 7919: the server answers with a group both list; each of them must suit the client
      cg.all fun g => !(groupNamesToList ss).contains g || dhBitsOk cs (ffBitsOf g)
    else
      -- no named group in common: only a client that lists no FFDHE group gets the server's own prime
      !cg.any (fun g => decide (256 ≤ g) && decide (g < 512)) && dhBitsOk cs own

/-- TLS 1.3: a group both list exists (directly as a key share or through HelloRetryRequest) -/
def group13Shared (cs ss : Settings) (cc : ClientCfg) : Bool :=
  let o := clientOffer cs cc
  (acceptable13 ss).any (fun g => o.keyShares.contains g || (o.groups.getD []).contains g) &&
  -- the server's supported_groups intersection (it enables the TLS 1.3 suites at all)
  ((o.groups.getD []).any (curveNamesToList ss 4).contains || (o.groups.getD []).any (groupNamesToList ss).contains ||
   !(o.groups.getD []).any (fun g => decide (256 ≤ g) && decide (g < 512)))

/-- below TLS 1.2 the ServerKeyExchange signature has a fixed form only RSA, DSA and ECDSA keys can make -/
def canSignLegacy (cred : Cred) : Bool :=
  !(cred.certAlg == "Ed25519" || cred.certAlg == "Ed448" || cred.certAlg == "rsa-pss")

/-- suite s can be carried through at version v -/
def suiteWorks (cs ss : Settings) (cc : ClientCfg) (cred : Cred) (v s : Nat) : Bool :=
  if tls13Suites.contains s then group13Shared cs ss cc
  else
    (!ecdhAllSuites.contains s || ecShared cs ss cc v) &&
    (!dhAllSuites.contains s || dhShared cs ss cc) &&
    (certSuites.contains s || decide (3 ≤ v) || canSignLegacy cred)

/-- the scope of the theorem: plain certificate handshake, no client authentication, no external PSK -/
def plainCert (cs : Settings) (cc : ClientCfg) (sc : ServerCfg) : Bool :=
  cc.flavour == .cert && !sc.hasDB && sc.cred.isSome && !sc.reqCert &&
  cs.pskConfigs.isEmpty &&
  -- no expected-name mismatch (the server only warns, the client gives up)
  !(cc.serverName != "" && sc.sni != "" && sc.sni != cc.serverName)

/-- the ClientHello the client builds from its settings passes the server's structural checks of the
    TLS 1.3 extensions (key shares ⊆ supported_groups, same order, no RFC 8446-forbidden group without
    TLS 1.2): follows from `validate()` for duplicate-free `keyShares` -/
def clientHelloSane (cs : Settings) (cc : ClientCfg) : Bool :=
  serverSanity13 (clientOffer cs cc) == .ok ()

/-- extensions whose negotiation can veto the handshake -/
def extensionsOk (cs ss : Settings) (cc : ClientCfg) (sc : ServerCfg) (v : Nat) : Bool :=
  -- extended master secret (TLS 1.0 – 1.2; not defined for SSLv3, not used by TLS 1.3)
  (decide (v > 3) ||
    (!(ss.requireEMS && !(ss.useEMS && cs.useEMS && decide (v > 0))) &&
     !(cs.requireEMS && !(ss.useEMS && cs.useEMS && decide (v > 0))))) &&
  -- ALPN below TLS 1.3: when both ends have a list they need a common protocol
  (decide (v > 3) || cc.alpn.isEmpty || sc.alpn.isEmpty || cc.alpn.any sc.alpn.contains)

/-- the server's ECDSA key lies on a curve the client lists (TLS ≤ 1.2, RFC 8422 5.1.1) -/
def serverCurveListed (cs : Settings) (cc : ClientCfg) (cred : Cred) (v : Nat) : Bool :=
  !(cred.certAlg == "ecdsa" && !(clientGroups cs cc).isEmpty && !((clientSigAlgs cs).getD []).isEmpty) ||
  ((decide (v > 3) || (groupId cred.curve).any (clientGroups cs cc).contains) &&
   (decide (v < 4) || (curveHash cred.curve).isSome))

/-- the premise of the property -/
def compatible (cs ss : Settings) (cc : ClientCfg) (sc : ServerCfg) : Bool :=
  match commonVersion cs ss, sc.cred with
  | some v, some cred =>
    !(commonSuites cs ss cred v).isEmpty &&
    (commonSuites cs ss cred v).all (suiteWorks cs ss cc cred v) &&
    sigShared cs ss cred v &&
    certAccepted cs cred v && serverCurveListed cs cc cred v &&
    extensionsOk cs ss cc sc v
  | _, _ => false

/-- the weaker reading: SOME common suite can be carried through (the server is expected to find it) -/
def compatibleSome (cs ss : Settings) (cc : ClientCfg) (sc : ServerCfg) : Bool :=
  match commonVersion cs ss, sc.cred with
  | some v, some cred =>
    (commonSuites cs ss cred v).any (suiteWorks cs ss cc cred v) &&
    sigShared cs ss cred v &&
    certAccepted cs cred v && serverCurveListed cs cc cred v &&
    extensionsOk cs ss cc sc v
  | _, _ => false

end Tls.Neg
