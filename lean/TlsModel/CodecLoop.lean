import TlsModel.Codec
import TlsModel.Fmt
/-
  The list-parsing idiom of tlslite on a shared `Parser`:

      p.startLengthCheck(ll)
      while not p.atLengthCheck():
          items.append(Item().parse(p))
      p.stopLengthCheck()

  (SNIExtension, ALPNExtension, ClientKeyShareExtension, PreSharedKeyExtension,
  StatusRequestExtension, TACKExtension, CertificateEntry).  The item parser reads from the
  shared buffer and is not confined to the declared region; TlsProofs/CodecLoop.lean shows the
  idiom nevertheless accepts exactly what a sub-parser over the region would.
-/
namespace Tls.Codec
open Tls Tls.Fmt

namespace Parser

/-- run a decoder of the generic codec at the parser's read position
    (a `DecodeError` of the item parser is reported as `readPast`) -/
def liftDecode (d : Bytes → Except Err (Val × Bytes)) (p : Parser) : Except PErr (Val × Parser) :=
  match d p.remaining with
  | .error _ => .error .readPast
  | .ok (v, r) => .ok (v, { p with index := p.bytes.length - r.length })

/-- `while not p.atLengthCheck(): items.append(item(p))`; `fuel` bounds the number of items -/
def lcLoop (item : Parser → Except PErr (Val × Parser)) : Nat → Parser → Except PErr (Val × Parser)
  | 0, p =>
    match p.atLengthCheck with
    | .error e => .error e
    | .ok true => .ok (.nil, p)
    | .ok false => .error .readPast
  | fuel + 1, p =>
    match p.atLengthCheck with
    | .error e => .error e
    | .ok true => .ok (.nil, p)
    | .ok false =>
      match item p with
      | .error e => .error e
      | .ok (v, p1) =>
        match lcLoop item fuel p1 with
        | .error e => .error e
        | .ok (vs, p2) => .ok (.cons v vs, p2)

/-- `p.startLengthCheck(ll); while not p.atLengthCheck(): item(p); p.stopLengthCheck()` -/
def lcList (item : Parser → Except PErr (Val × Parser)) (ll : Nat) (p : Parser) : Except PErr (Val × Parser) :=
  match p.startLengthCheck ll with
  | .error e => .error e
  | .ok p0 =>
    match lcLoop item p0.bytes.length p0 with
    | .error e => .error e
    | .ok (vs, p1) =>
      match p1.stopLengthCheck with
      | .error e => .error e
      | .ok () => .ok (vs, p1)

end Parser
end Tls.Codec
