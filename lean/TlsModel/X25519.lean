import TlsModel.Rsa
/-
  tlslite/utils/x25519.py transliterated: `decodeUCoordinate`, `decodeScalar22519`,
  `decodeScalar448`, `cswap`, `_x25519_generic` (the RFC 7748 Montgomery ladder), `x25519`, `x448`.

  Executable model validated by correspondence with the Python functions and by the RFC 7748
  test vectors.  That the ladder computes scalar multiplication on Curve25519 / Curve448 (hence
  that two parties agree) is NOT proved.
  Python ints that can be negative before `% p` are `Int`; `pow(x, 2, p)` of a possibly negative
  `x` is `(x * x) % p`.
-/
namespace Tls.X25519
open Tls Tls.Rsa

inductive Err where
  | valueError
  | indexError
  deriving DecidableEq, Repr

def Err.name : Err → String
  | .valueError => "ValueError"
  | .indexError => "IndexError"

/-- `bytesToNumber(b, endian="little")` -/
def leDecode (b : Bytes) : Nat := beDecode b.reverse

/-- `numberToByteArray(n, k, endian="little")` (truncating like the big-endian one) -/
def leEncode (k n : Nat) : Bytes := (beEncode k n).reverse

/-- `b[i] = f(b[i])` on a bytearray -/
def modifyAt (b : Bytes) (i : Nat) (f : UInt8 → UInt8) : Except Err Bytes :=
  if i < b.length then .ok (b.set i (f (b.getD i 0))) else .error .indexError

/-- `decodeUCoordinate(u, bits)`: mask the unused top bits of the last byte (`u[-1]`) -/
def decodeUCoordinate (u : Bytes) (bits : Nat) : Except Err Nat :=
  if bits ≠ 255 ∧ bits ≠ 448 then .error .valueError
  else if bits % 8 ≠ 0 then
    if u.length = 0 then .error .indexError
    else
      match modifyAt u (u.length - 1) (fun x => x &&& UInt8.ofNat ((1 <<< (bits % 8)) - 1)) with
      | .error e => .error e
      | .ok u' => .ok (leDecode u')
  else .ok (leDecode u)

/-- `decodeScalar22519(k)`: `k[0] &= 248; k[31] &= 127; k[31] |= 64` -/
def decodeScalar25519 (k : Bytes) : Except Err Nat :=
  match modifyAt k 0 (· &&& 248) with
  | .error e => .error e
  | .ok k1 =>
    match modifyAt k1 31 (· &&& 127) with
    | .error e => .error e
    | .ok k2 =>
      match modifyAt k2 31 (· ||| 64) with
      | .error e => .error e
      | .ok k3 => .ok (leDecode k3)

/-- `decodeScalar448(k)`: `k[0] &= 252; k[55] |= 128` -/
def decodeScalar448 (k : Bytes) : Except Err Nat :=
  match modifyAt k 0 (· &&& 252) with
  | .error e => .error e
  | .ok k1 =>
    match modifyAt k1 55 (· ||| 128) with
    | .error e => .error e
    | .ok k2 => .ok (leDecode k2)

def cswap (swap : Nat) (a b : Int) : Int × Int := if swap ≠ 0 then (b, a) else (a, b)

structure Ladder where
  x2 : Int
  z2 : Int
  x3 : Int
  z3 : Int
  swap : Nat

/-- one iteration of the `for t in range(bits-1, -1, -1)` loop -/
def ladderStep (k : Nat) (x1 : Int) (a24 : Int) (p : Int) (s : Ladder) (t : Nat) : Ladder :=
  let kt := (k >>> t) &&& 1
  let swap := s.swap ^^^ kt
  let (x2, x3) := cswap swap s.x2 s.x3
  let (z2, z3) := cswap swap s.z2 s.z3
  let a := (x2 + z2) % p
  let aa := (a * a) % p
  let b := (x2 - z2) % p
  let bb := (b * b) % p
  let e := (aa - bb) % p
  let c := (x3 + z3) % p
  let d := (x3 - z3) % p
  let da := (d * a) % p
  let cb := (c * b) % p
  let x3' := ((da + cb) * (da + cb)) % p
  let z3' := (x1 * (((da - cb) * (da - cb)) % p)) % p
  let x2' := (aa * bb) % p
  let z2' := (e * (aa + a24 * e)) % p
  { x2 := x2', z2 := z2', x3 := x3', z3 := z3', swap := kt }

/-- `_x25519_generic(k, u, bits, a24, p)` -/
def x25519Generic (k u bits a24 p : Nat) : Bytes :=
  let init : Ladder := { x2 := 1, z2 := 0, x3 := u, z3 := 1, swap := 0 }
  let s := ((List.range bits).reverse).foldl (ladderStep k u a24 p) init
  let (x2, _) := cswap s.swap s.x2 s.x3
  let (z2, _) := cswap s.swap s.z2 s.z3
  let ret := (x2.toNat * powMod z2.toNat (p - 2) p) % p
  leEncode (divceil bits 8) ret

/-- `x25519(k, u)` -/
def x25519 (k u : Bytes) : Except Err Bytes :=
  match decodeScalar25519 k with
  | .error e => .error e
  | .ok kn =>
    match decodeUCoordinate u 255 with
    | .error e => .error e
    | .ok un => .ok (x25519Generic kn un 255 121665 (2 ^ 255 - 19))

/-- `x448(k, u)` -/
def x448 (k u : Bytes) : Except Err Bytes :=
  match decodeScalar448 k with
  | .error e => .error e
  | .ok kn =>
    match decodeUCoordinate u 448 with
    | .error e => .error e
    | .ok un => .ok (x25519Generic kn un 448 39081 (2 ^ 448 - 2 ^ 224 - 1))

end Tls.X25519
