import TlsModel.Fmt
/-
  Aids for the driver and the harness (not part of the verified statements):
  a text syntax for `Val`, and the positions of the length fields of an encoding
  (used by the harness to aim its length-field perturbations).
-/
namespace Tls.Fmt
open Tls

/-! ## text syntax:  u | n<dec> | b<hex> | (v,v) | [v;v;...] | N | S<v> -/

mutual
/-- append the rendering of a value to `acc` (left to right, linear time) -/
partial def Val.renderTo : Val → String → String
  | .unit, acc => acc ++ "u"
  | .nat n, acc => acc ++ "n" ++ toString n
  | .bytes b, acc => hexTo b (acc ++ "b")
  | .pair a b, acc => (b.renderTo ((a.renderTo (acc ++ "(")) ++ ",")) ++ ")"
  | .nil, acc => acc ++ "[]"
  | .cons h t, acc => renderTail t (h.renderTo (acc ++ "["))
  | .none, acc => acc ++ "N"
  | .some v, acc => v.renderTo (acc ++ "S")
partial def renderTail : Val → String → String
  | .nil, acc => acc ++ "]"
  | .cons h t, acc => renderTail t (h.renderTo (acc ++ ";"))
  | v, acc => (v.renderTo (acc ++ "|")) ++ "]"     -- improper list: never produced by `decode`
partial def hexTo : Bytes → String → String
  | [], acc => acc
  | x :: xs, acc => hexTo xs ((acc.push (hexDigit (x.toNat / 16))).push (hexDigit (x.toNat % 16)))
end

def Val.render (v : Val) : String := v.renderTo ""

def isHexChar (c : Char) : Bool :=
  ('0' ≤ c && c ≤ '9') || ('a' ≤ c && c ≤ 'f')

def hexNib (c : Char) : Nat :=
  if '0' ≤ c && c ≤ '9' then c.toNat - 48 else c.toNat - 87

/-- read hex digits (pairs) from the front -/
def readHex : List Char → List UInt8 → List UInt8 × List Char
  | a :: b :: cs, acc =>
    if isHexChar a && isHexChar b then readHex cs (UInt8.ofNat (hexNib a * 16 + hexNib b) :: acc)
    else (acc.reverse, a :: b :: cs)
  | cs, acc => (acc.reverse, cs)

def readNat : List Char → Nat → Bool → Option (Nat × List Char)
  | c :: cs, acc, seen =>
    if c.isDigit then readNat cs (acc * 10 + (c.toNat - 48)) true
    else if seen then some (acc, c :: cs) else none
  | [], acc, seen => if seen then some (acc, []) else none

mutual
partial def parseVal : List Char → Option (Val × List Char)
  | 'u' :: cs => some (.unit, cs)
  | 'N' :: cs => some (.none, cs)
  | 'S' :: cs => do
    let (v, cs) ← parseVal cs
    some (.some v, cs)
  | 'n' :: cs => do
    let (n, cs) ← readNat cs 0 false
    some (.nat n, cs)
  | 'b' :: cs =>
    let (b, cs) := readHex cs []
    some (.bytes b, cs)
  | '(' :: cs => do
    let (a, cs) ← parseVal cs
    match cs with
    | ',' :: cs => do
      let (b, cs) ← parseVal cs
      match cs with
      | ')' :: cs => some (.pair a b, cs)
      | _ => none
    | _ => none
  | '[' :: ']' :: cs => some (.nil, cs)
  | '[' :: cs => do
    let (h, cs) ← parseVal cs
    let (t, cs) ← parseItems cs
    some (.cons h t, cs)
  | _ => none
partial def parseItems : List Char → Option (Val × List Char)
  | ']' :: cs => some (.nil, cs)
  | ';' :: cs => do
    let (h, cs) ← parseVal cs
    let (t, cs) ← parseItems cs
    some (.cons h t, cs)
  | _ => none
end

def Val.ofString? (s : String) : Option Val :=
  match parseVal s.toList with
  | Option.some (v, []) => Option.some v
  | _ => Option.none

/-! ## text rendering of a format (the harness derives its value generators from it):
     U | u<n> | y<n> | R | (f,g) | L<ll>{f} | M{f} | O{f} | T<n>{f} | C<k>{f}{g} | X -/

def Fmt.render : Fmt → String
  | .unit => "U"
  | .uint n => "u" ++ toString n
  | .bytes n => "y" ++ toString n
  | .rest => "R"
  | .pair f g => "(" ++ f.render ++ "," ++ g.render ++ ")"
  | .lenPref ll f => "L" ++ toString ll ++ "{" ++ f.render ++ "}"
  | .many f => "M{" ++ f.render ++ "}"
  | .optTail f => "O{" ++ f.render ++ "}"
  | .tagged n f => "T" ++ toString n ++ "{" ++ f.render ++ "}"
  | .caseOf k f g => "C" ++ toString k ++ "{" ++ f.render ++ "}{" ++ g.render ++ "}"
  | .fail => "X"

/-! ## positions of the length fields -/

def lenFieldsMany (d : Nat → Bytes → Option (List (Nat × Nat) × Nat × Bytes)) :
    Nat → Nat → Bytes → Option (List (Nat × Nat) × Nat)
  | _, _, [] => some ([], 0)
  | 0, _, _ :: _ => none
  | fuel + 1, off, b@(_ :: _) =>
    match d off b with
    | none => none
    | some (l, c, r) =>
      match lenFieldsMany d fuel (off + c) r with
      | none => none
      | some (l', c') => some (l ++ l', c + c')

/-- `(offset, width)` of every length field met while decoding `b` (which starts at absolute
    offset `off`), the number of bytes consumed and the unconsumed rest; `none` when `b` does
    not decode -/
def lenFields : Fmt → Nat → Nat → Bytes → Option (List (Nat × Nat) × Nat × Bytes)
  | .unit, _, _, b => some ([], 0, b)
  | .uint n, _, _, b => if shorter b n then none else some ([], n, b.drop n)
  | .bytes n, _, _, b => if shorter b n then none else some ([], n, b.drop n)
  | .rest, _, _, b => some ([], b.length, [])
  | .pair f g, t, off, b =>
    match lenFields f t off b with
    | none => none
    | some (l1, c1, r) =>
      match lenFields g t (off + c1) r with
      | none => none
      | some (l2, c2, r') => some (l1 ++ l2, c1 + c2, r')
  | .lenPref ll f, t, off, b =>
    if shorter b ll then none
    else
      let len := beDecode (b.take ll)
      let b1 := b.drop ll
      if shorter b1 len then none
      else
        match lenFields f t (off + ll) (b1.take len) with
        | none => none
        | some (l, _, _) => some ((off, ll) :: l, ll + len, b1.drop len)
  | .many f, t, off, b =>
    match lenFieldsMany (lenFields f t) b.length off b with
    | none => none
    | some (l, c) => some (l, c, [])
  | .optTail f, t, off, b =>
    match b with
    | [] => some ([], 0, [])
    | _ :: _ => lenFields f t off b
  | .tagged n f, _, off, b =>
    if shorter b n then none
    else
      match lenFields f (beDecode (b.take n)) (off + n) (b.drop n) with
      | none => none
      | some (l, c, r) => some (l, n + c, r)
  | .caseOf k f g, t, off, b => if t = k then lenFields f t off b else lenFields g t off b
  | .fail, _, _, _ => none

end Tls.Fmt
