import TlsModel.ErrPath
/-
  C08, second part: the checks on the flights that follow the hellos, as decision functions.

  A flight is a list of `Item`s (records as `_getMsg` sees them: ChangeCipherSpec records and
  handshake messages with the abstract features the checks look at).  `get13` / `get12hs` /
  `get12ccs` mirror what `_getMsg` does with the expected types of each call site
  (tlslite/tlsrecordlayer.py); the flight functions mirror, in the order of the code,
    * `_serverTLS13Handshake` after the server's Finished (client Certificate / CertificateVerify /
      Finished),
    * `_clientTLS13Handshake` after ServerHello (EncryptedExtensions, CertificateRequest,
      Certificate with per-entry extensions, CertificateVerify, Finished, then the answers to the
      CertificateRequest and the checks done last),
    * `_clientKeyExchange` + `_clientFinished` / `_getFinished` (TLS <= 1.2 client),
    * `_serverCertKeyExchange` / `_serverAnonKeyExchange` + `_serverFinished` (TLS <= 1.2 server),
    * the HelloRetryRequest decision and the comparison of the second ClientHello in
      `_serverGetClientHello`, and the statements between the record_size_limit check and it.
  Every Python operation that can fail is an `Escape`, never totalised.  Core Lean only.
-/
namespace Tls.Flights
open Tls.ErrPath

/-- one record / message of a flight.  `parse`: 0 = the message parser accepts it, otherwise the
    alert `_getMsg` answers the parser's exception with (50 SyntaxError, 47
    TLSIllegalParameterException, 42 BadCertificateError).  The other fields are message specific,
    see the flight functions. -/
structure Item where
  ctype : Nat := 22
  htype : Nat := 0
  parse : Nat := 0
  ccs : List Nat := []
  b1 : Bool := true
  b2 : Bool := true
  b3 : Bool := true
  b4 : Bool := true
  n1 : Nat := 0
  n2 : Nat := 0
  n3 : Nat := 0
  s1 : String := ""
  e1 : Ext (Option Nat) := .absent
  x1 : Ext (List Nat) := .absent
  deriving Repr

inductive Out
  | alert (d : Nat) (msg : String)
  | blocked                         -- the flight ended, the call waits for input
  | pass
  | escape (e : Escape)
  deriving DecidableEq, Repr

inductive Got
  | msg (i : Item) (rest : List Item)
  | out (o : Out)

/-- continue with the accepted message, or stop with the answer -/
def Got.andThen (g : Got) (k : Item → List Item → Out) : Out :=
  match g with
  | .out o => o
  | .msg i rest => k i rest

/-- `HandshakeType.toStr` -/
def hsName (t : Nat) : String :=
  match t with
  | 0 => "hello_request" | 1 => "client_hello" | 2 => "server_hello" | 4 => "new_session_ticket"
  | 5 => "end_of_early_data" | 6 => "hello_retry_request" | 8 => "encrypted_extensions"
  | 11 => "certificate" | 12 => "server_key_exchange" | 13 => "certificate_request"
  | 14 => "server_hello_done" | 15 => "certificate_verify" | 16 => "client_key_exchange"
  | 20 => "finished" | 22 => "certificate_status" | 24 => "key_update" | 25 => "compressed_certificate"
  | 67 => "next_protocol" | 254 => "message_hash"
  | n => toString n

/-- `to_str_delimiter`: "a, b or c" -/
def expectStr : List Nat → String
  | [] => ""
  | [a] => hsName a
  | [a, b] => hsName a ++ " or " ++ hsName b
  | a :: rest => hsName a ++ ", " ++ expectStr rest

def unexpectedHs (allowed : List Nat) (got : Nat) : Out :=
  .alert 10 ("Expecting " ++ expectStr allowed ++ ", got " ++ hsName got)

def emptyRecord : Out := .alert 10 "Received empty non-application data record"

/-- `_getMsg(ContentType.handshake, allowed)` in TLS 1.3 during the handshake: ChangeCipherSpec
    records are checked and ignored -/
def get13 (allowed : List Nat) : List Item → Got
  | [] => .out .blocked
  | i :: rest =>
    if i.ctype == 20 then
      if i.ccs.isEmpty then .out emptyRecord
      else if i.ccs.length != 1 then .out (.alert 50 "parse")
      else if i.ccs.head? != some 1 then .out (.alert 10 "Invalid CCS message received")
      else get13 allowed rest
    else if i.ctype != 22 then .out (.alert 10 ("received type=" ++ toString i.ctype))
    else if !allowed.contains i.htype then .out (unexpectedHs allowed i.htype)
    else if i.parse != 0 then .out (.alert i.parse "parse")
    else .msg i rest

/-- `_getMsg(ContentType.handshake, allowed)` in TLS <= 1.2 -/
def get12hs (allowed : List Nat) : List Item → Got
  | [] => .out .blocked
  | i :: rest =>
    if i.ctype == 20 && i.ccs.isEmpty then .out emptyRecord
    else if i.ctype != 22 then .out (.alert 10 ("received type=" ++ toString i.ctype))
    else if !allowed.contains i.htype then .out (unexpectedHs allowed i.htype)
    else if i.parse != 0 then .out (.alert i.parse "parse")
    else .msg i rest

/-- `_getMsg(ContentType.change_cipher_spec)` + the caller's `ccs.type != 1` test; the Defragmenter
    cuts a longer record into one-byte messages, the rest stays queued -/
def get12ccs : List Item → Got
  | [] => .out .blocked
  | i :: rest =>
    if i.ctype != 20 then .out (.alert 10 ("received type=" ++ toString i.ctype))
    else
      match i.ccs with
      | [] => .out emptyRecord
      | b :: bs =>
        if b != 1 then .out (.alert 47 "ChangeCipherSpec type incorrect")
        else .msg i (if bs.isEmpty then rest else { i with ccs := bs } :: rest)

/-! ### TLS 1.3, server: the client's second flight

  Certificate (11/25): `b1` the chain is not empty.
  CertificateVerify (15): `b1` the scheme is one we asked for and usable with the key, `b2` the key
  passes the settings, `n1` the alert `_check_certchain_with_settings` sends otherwise, `b3` the
  signature verifies.   Finished (20): `b1` verify_data matches. -/
structure Srv13 where
  reqCert : Bool            -- reqCert and no PSK selected
  compress : Bool           -- compressed_certificate acceptable too

def server13 (c : Srv13) (fl : List Item) : Out :=
  let afterCert (nonEmpty : Bool) (fl : List Item) : Out :=
    let fin (fl : List Item) : Out :=
      (get13 [20] fl).andThen fun f _ => if f.b1 then .pass else .alert 51 "Finished value is not valid"
    if nonEmpty then
      (get13 [15] fl).andThen fun cv rest =>
        if !cv.b1 then .alert 47 "Invalid signature on Certificate Verify"
        else if !cv.b2 then .alert cv.n1 cv.s1
        else if !cv.b3 then .alert 51 "signature verification failed"
        else fin rest
    else fin fl
  if c.reqCert then
    (get13 (if c.compress then [11, 25] else [11]) fl).andThen fun cert rest => afterCert cert.b1 rest
  else afterCert false fl

/-! ### TLS 1.3, client: the server's flight after ServerHello (certificate authentication)

  EncryptedExtensions (8): `e1` record_size_limit, `x1` ALPN (name lengths), `b1` the first ALPN
  name is one we offered, `n1` heartbeat mode (0 = extension absent).
  CertificateRequest (13): `n1` signature_algorithms: 0 absent or empty, 1 nothing usable with our
  key, 2 usable; `n2` compress_certificate: 0 absent, 1 no algorithms, 2 some.
  Certificate: `b1` chain not empty, `n1` number of delegated_credential extensions of the first
  entry.  CertificateVerify: `b1` scheme advertised, `b2` in signature_algorithms and valid for the
  certificate, `b3` ECDSA curve matches the hash, `b4` signature verifies.  Finished: `b1`. -/
structure Cli13 where
  compress : Bool           -- we sent compress_certificate
  rslAdvertised : Bool      -- settings.record_size_limit
  haveCert : Bool           -- clientCertChain and privateKey
  sentAlpn : Bool
  useHeartbeat : Bool
  heartbeatCallback : Bool
  dcSupported : Bool        -- settings.dc_sig_algs

/-- what answering the CertificateRequest can end with -/
def client13CrAnswer (c : Cli13) (cr : Option Item) : Option (Nat × String) :=
  match cr with
  | none => none
  | some r =>
    if r.n2 == 1 then some (50, "Empty algorithm list in compress_certificate extension")
    else if c.haveCert && r.n1 == 0 then some (109, "No Signature Algorithms found")
    else if c.haveCert && r.n1 == 1 then some (40, "No common signature algorithm usable with our certificate")
    else none

def client13Tail (c : Cli13) (ee : Item) (cr : Option Item) : Out :=
  match client13CrAnswer c cr with
  | some (d, m) => .alert d m
  | none =>
    -- checked last: ALPN and heartbeat of EncryptedExtensions
    match ee.x1 with
    | .dup => .escape .dupExtension
    | .present names =>
      if names.length != 1 then .alert 47 "Server responded with invalid ALPN extension"
      else if !c.sentAlpn then .alert 110 "Server sent ALPN extension without one in client hello"
      else
        match names with
        | [] => .escape (.py .indexError "alpnExt.protocol_names[0]")      -- unreachable
        | _ :: _ =>
          if !ee.b1 then .alert 47 "Server selected ALPN protocol we did not advertise"
          else if ee.n1 != 0 && !c.useHeartbeat then
            .alert 110 "Server sent Heartbeat extension without one in client hello"
          else .pass
    | .absent =>
      if ee.n1 != 0 && !c.useHeartbeat then
        .alert 110 "Server sent Heartbeat extension without one in client hello"
      else .pass

/-- `record_size_limit` of EncryptedExtensions -/
def client13Rsl (c : Cli13) (e : Option (Option Nat)) : Option (Nat × String) :=
  match e with
  | none => none
  | some v =>
    if !c.rslAdvertised then
      some (47, "Server sent record_size_limit extension despite us not advertising it")
    else
      match v with
      | none => some (50, "Malformed record_size_limit extension")
      | some n => if !(64 ≤ n && n ≤ 16385) then some (47, "Invalid valid in record_size_limit extension")
                  else none

/-- Certificate, CertificateVerify, Finished, then what is done after them -/
def client13WithCert (c : Cli13) (ee : Item) (cr : Option Item) (fl : List Item) : Out :=
  (get13 (if c.compress then [11, 25] else [11]) fl).andThen fun cert rest =>
  (get13 [15] rest).andThen fun cv rest =>
    if !cv.b1 then .alert 47 "Server selected signature algorithm we didn't advertise"
    else if !cert.b1 then .alert 47 "Other party sent a Certificate message without certificates"
    else if cert.n1 > 1 then
      .alert 47 "The server sent multiple delegated credentials extensions in a single CertificateEntry."
    else if cert.n1 == 1 && !c.dcSupported then
      .alert 10 "The server provided delegated credential, when client does not support it."
    else if cert.n1 == 0 && !cv.b2 then
      .alert 47 "Server selected signature algorithm we didn't advertise or invalid for its certificate"
    else if !cv.b3 then
      .alert 47 "server selected signature method invalid for the certificate it presented (curve mismatch)"
    else if !cv.b4 then .alert 51 "server Certificate Verify signature verification failed"
    else
      (get13 [20] rest).andThen fun f _ =>
        if !f.b1 then .alert 51 "Finished value is not valid"
        else client13Tail c ee cr

def client13 (c : Cli13) (fl : List Item) : Out :=
  (get13 [8] fl).andThen fun ee rest =>
    match getExt ee.e1 with
    | .error x => .escape x
    | .ok e =>
      match client13Rsl c e with
      | some (d, m) => .alert d m
      | none =>
        (get13 (13 :: (if c.compress then [11, 25] else [11])) rest).andThen fun m rest2 =>
          if m.htype == 13 then client13WithCert c ee (some m) rest2
          else client13WithCert c ee none rest     -- it is the Certificate: read it again as such

/-! ### TLS <= 1.2, client: Certificate / ServerKeyExchange / CertificateRequest / ServerHelloDone,
    then the server's ChangeCipherSpec and Finished

  Certificate: `b1` chain not empty.  ServerKeyExchange: `n1` signature: 0 verifies, 1 algorithm
  not acceptable, 2 does not verify; `n2` DH prime: 0 fine, 1 too small, 2 too large; `n3` what
  `processServerKeyExchange` raises: 0 nothing, 71 TLSInsufficientSecurity, 47
  TLSIllegalParameterException (`s1` its text).  CertificateRequest: `b1` (TLS 1.2) some RSA
  signature algorithm is listed.  Finished: `b1`. -/
structure Cli12 where
  certSuite : Bool          -- certAllSuites / ecdheEcdsaSuites / dheDsaSuites
  skeExpected : Bool        -- cipherSuite not in certSuites
  dhSuite : Bool
  v12 : Bool

def client12Finished (fl : List Item) : Out :=
  (get12ccs fl).andThen fun _ rest =>
    (get12hs [20] rest).andThen fun f _ => if f.b1 then .pass else .alert 51 "Finished message is incorrect"

/-- `Server doesn't accept any sigalgs we support` -/
def crNoRsa (c : Cli12) (cr : Option Item) : Bool :=
  c.v12 && (match cr with | some r => !r.b1 | none => false)

/-- after ServerHelloDone: the checks on what was received, then the server's Finished -/
def client12AfterDone (c : Cli12) (cert ske cr : Option Item) (fl : List Item) : Out :=
  let body : Out :=
    match ske with
    | none =>
      if crNoRsa c cr then .alert 40 "Server doesn't accept any sigalgs we support"
      else client12Finished fl
    | some k =>
      if c.dhSuite && k.n2 == 1 then .alert 71 "Server's DH parameters too small"
      else if c.dhSuite && k.n2 == 2 then .alert 40 "Server's DH parameters too large"
      else if crNoRsa c cr then .alert 40 "Server doesn't accept any sigalgs we support"
      else if k.n3 != 0 then .alert k.n3 k.s1
      else client12Finished fl
  if c.certSuite then
    match cert with
    | none => .escape (.py .attributeError "serverCertificate")     -- unreachable: read before
    | some ct =>
      if !ct.b1 then .alert 47 "Other party sent a Certificate message without certificates"
      else
        match ske with
        | some k =>
          if k.n1 == 1 then .alert 47 ""
          else if k.n1 == 2 then .alert 51 ""
          else body
        | none => body
  else body

def client12AfterSke (c : Cli12) (cert ske : Option Item) (fl : List Item) : Out :=
  (get12hs [13, 14] fl).andThen fun m rest =>
    if m.htype == 13 then
      if !c.certSuite then .alert 10 "Certificate Request with incompatible cipher suite"
      else (get12hs [14] rest).andThen fun _ rest2 => client12AfterDone c cert ske (some m) rest2
    else client12AfterDone c cert ske none rest

def client12AfterCert (c : Cli12) (cert : Option Item) (fl : List Item) : Out :=
  if c.skeExpected then
    (get12hs [12] fl).andThen fun k rest => client12AfterSke c cert (some k) rest
  else client12AfterSke c cert none fl

def client12 (c : Cli12) (fl : List Item) : Out :=
  if c.certSuite then
    (get12hs [11] fl).andThen fun ct rest => client12AfterCert c (some ct) rest
  else client12AfterCert c none fl

/-! ### TLS <= 1.2, server: [Certificate] ClientKeyExchange [CertificateVerify] ChangeCipherSpec
    Finished

  Certificate: `b1` chain not empty.  ClientKeyExchange: `n1` what `processClientKeyExchange`
  raises: 0 nothing, 47 TLSIllegalParameterException, 50 TLSDecodeError (`s1` the text); `b1` the
  premaster secret is the peer's (false: the first protected record fails its MAC).
  CertificateVerify: `b1` (TLS 1.2) the algorithm is acceptable, `b2` the signature verifies. -/
structure Srv12 where
  reqCert : Bool
  v12 : Bool

def server12 (c : Srv12) (fl : List Item) : Out :=
  let finish (keyOk : Bool) (fl : List Item) : Out :=
    (get12ccs fl).andThen fun i rest =>
      -- what follows in the same record is still plaintext from the Defragmenter; the next record is
      -- protected with keys from the premaster secret
      match rest with
      | [] => .blocked
      | _ :: _ =>
        if i.ccs.length == 1 && !keyOk then .alert 20 "MAC failure (or padding failure)"
        else
          (get12hs [20] rest).andThen fun f _ =>
            if f.b1 then .pass else .alert 51 "Finished message is incorrect"
  let afterCert (haveChain : Bool) (fl : List Item) : Out :=
    (get12hs [16] fl).andThen fun k rest =>
      if k.n1 != 0 then .alert k.n1 k.s1
      else if haveChain then
        (get12hs [15] rest).andThen fun cv rest2 =>
          if c.v12 && !cv.b1 then .alert 47 "Invalid signature algorithm in Certificate Verify"
          else if !cv.b2 then .alert 51 "Signature failed to verify"
          else finish k.b1 rest2
      else finish k.b1 rest
  if c.reqCert then
    (get12hs [11] fl).andThen fun ct rest => afterCert ct.b1 rest
  else afterCert false fl

/-! ### HelloRetryRequest: the decision and the second ClientHello -/

structure Hrr where
  -- the first ClientHello, after it passed the check sequence of `chChecks`
  keyShare : Option (List Nat)          -- groups of its shares (None: no key_share extension)
  supGroups : Option (List Nat)         -- supported_groups (None: no extension; possible with psk_ke)
  acceptable : List Nat                 -- groups the server accepts, in its order
  -- the second ClientHello
  parse2 : Nat                          -- 0, or the alert its parser's exception is answered with
  keyShare2 : Ext (Option (List Nat))
  cookie : Nat                          -- 0 echoed, 1 missing, 2 different
  pskBoth : Bool                        -- pre_shared_key in both hellos
  pskLast2 : Bool                       -- ... and it is the last extension of the second one
  sameOtherwise : Bool                  -- equal after the permitted adjustments
  deriving Repr

def hrrChecks (h : Hrr) : Out :=
  match h.keyShare with
  | none => .pass                                         -- psk_ke without key_share: no HRR
  | some shares =>
    if h.acceptable.any (shares.contains ·) then .pass    -- a usable share: no HRR
    else
      match h.supGroups with
      | none => .alert 109 "Missing supported_groups extension"
      | some groups =>
        match h.acceptable.find? (groups.contains ·) with
        | none => .alert 40 "No acceptable group advertised by client"
        | some sel =>
          -- HelloRetryRequest sent; the second ClientHello
          if h.parse2 != 0 then .alert h.parse2 "parse"
          else
            match h.keyShare2 with
            | .dup => .escape .dupExtension                -- unreachable: refused by the parser
            | .absent => .alert 109 "Key share missing in Client Hello"
            | .present none => .alert 50 "Empty key_share extension in second Client Hello"
            | .present (some l) =>
              if l.length != 1 then .alert 47 "Multiple key shares in second Client Hello"
              else
                match l with
                | [] => .escape (.py .indexError "ext.client_shares[0]")      -- unreachable
                | g :: _ =>
                  if g != sel then .alert 47 "Client key share does not match Hello Retry Request"
                  else if h.cookie == 2 then .alert 47 "Malformed cookie extension"
                  else if h.cookie == 1 then .alert 109 "Second client hello does not contain cookie extension"
                  else if h.pskBoth && !h.pskLast2 then .alert 47 "PSK extension not last in client hello"
                  else if !h.sameOtherwise then
                    .alert 47 "Old Client Hello does not match the updated Client Hello"
                  else .pass

/-! ### between the record_size_limit check and the certificate selection: resumption -/

structure Resume where
  requested : Bool            -- session_id with a cache, or a non-empty ticket
  found : Bool                -- a valid (resumable) session was found and its cipher is still enabled
  cipherOffered : Bool        -- session.cipherSuite in clientHello.cipher_suites
  srpSame : Bool              -- srp_username consistent
  sniSame : Bool              -- server_name consistent
  etmOk : Bool                -- not (session.encryptThenMAC and no encrypt_then_mac extension)
  emsOld : Bool               -- session.extendedMasterSecret
  emsNew : Bool               -- extended_master_secret extension present
  renegoNonEmpty : Bool       -- renegotiation_info with a non-empty renegotiated_connection
  alpnWanted : Bool           -- server configured ALPN and the client sent the extension
  alpnCommon : Bool
  heartbeat : Nat             -- 0 absent, else the mode
  deriving Repr

/-- `.pass` = a full handshake follows (or the resumed one goes on to the Finished exchange) -/
def resumeChecks (r : Resume) : Out :=
  if !r.requested || !r.found then .pass
  else if !r.cipherOffered then .alert 47 ""
  else if !r.srpSame then .alert 40 ""
  else if !r.sniSame then .alert 40 ""
  else if !r.etmOk then .alert 47 ""
  else if r.emsOld && !r.emsNew then .alert 40 ""
  else if !r.emsOld && r.emsNew then .pass          -- session dropped: full handshake
  else if r.renegoNonEmpty then .alert 40 ""
  else if r.alpnWanted && !r.alpnCommon then
    .alert 120 "No commonly supported application layerprotocol supported"
  else if r.heartbeat != 0 && r.heartbeat != 1 && r.heartbeat != 2 then
    .alert 47 "Client sent invalid Heartbeat extension"
  else .pass

/-! ### early data: undecryptable records are skipped only up to `max_early_data` bytes

  `RecordLayer.recvRecord`: on TLSBadRecordMAC, `if early_data_ok and _early_data_processed +
  len(data) < max_early_data: _early_data_processed += len(data); continue` else re-raise
  (answered with bad_record_mac).  `sizes` are the lengths of the undecryptable records. -/

/-- (records skipped, whether the call ended with bad_record_mac) -/
def earlySkip (maxEarly : Nat) : Nat → List Nat → Nat × Bool
  | _, [] => (0, false)
  | processed, n :: rest =>
    if processed + n < maxEarly then
      let r := earlySkip maxEarly (processed + n) rest
      (r.1 + 1, r.2)
    else (0, true)

/-- bytes skipped by `earlySkip` -/
def earlySkipped (maxEarly : Nat) (processed : Nat) (sizes : List Nat) : Nat :=
  ((sizes.take (earlySkip maxEarly processed sizes).1).foldl (· + ·) 0)

/-! ### the session object of a resumed connection is the cached one

  `sessionCache[id]` hands out the Session object that the failed connection's `_shutdown(False)`
  marks not resumable (`self.session = session` in the resumption branch, `sessionCache[id] =
  self.session` after a full handshake): the cache entry and the connection alias one object. -/

/-- session id -> resumable flag of the (shared) Session object -/
abbrev Cache := List (Nat × Bool)

/-- `SessionCache.__getitem__` + `Session.valid()` -/
def Cache.resumes (c : Cache) (i : Nat) : Bool :=
  match c.find? (·.1 == i) with
  | some (_, r) => r
  | none => false

/-- `_shutdown(resumable)` on a connection whose `session` is the entry `i` -/
def Cache.shutdown (c : Cache) (i : Nat) (resumable : Bool) : Cache :=
  if resumable then c else c.map fun e => if e.1 == i then (e.1, false) else e

/-- a history: connections that use entry `i` (after a full handshake or a resumption) and end with
    `_shutdown(resumable)`; does a later connection offering `i` resume? -/
def Cache.afterHistory (c : Cache) (i : Nat) : List Bool → Cache
  | [] => c
  | r :: rest => Cache.afterHistory (c.shutdown i r) i rest

end Tls.Flights
