/-
  C06 — message-order automaton of tlslite-ng, receive side (core Lean only).

  `stepK`/`step`/`run` mirror the sequence of `_getMsg(expectedTypes, secondaryTypes)` calls made by
    client: `_handshakeClientAsyncHelper` → `_clientGetServerHello`, `_clientResume`,
            `_clientKeyExchange`, `_clientFinished`/`_getFinished`, `_clientTLS13Handshake`
    server: `_handshakeServerAsyncHelper` → `_serverGetClientHello`, `_serverCertKeyExchange`,
            `_serverSRPKeyExchange`, `_serverAnonKeyExchange`, `_serverFinished`/`_getFinished`,
            `_serverTLS13Handshake`
  together with the gate inside `_getMsg` itself (tlsrecordlayer.py): TLS 1.3 ChangeCipherSpec
  tolerance while `_middlebox_compat_mode`, unexpected content type → alert handling /
  renegotiation refusal (`no_renegotiation` warning when `self.session` is set) / heartbeat /
  `unexpected_message`, empty application data, handshake-type check, TLS 1.3 record-boundary
  alignment, and the record layer's key epochs (a record protected under other keys than the
  current read state never gets through).

  `allowed` is a separate grammar written from RFC 5246 §7.3, RFC 8446 §2/§4/§5 (and D.4 for the
  compatibility CCS), RFC 5054, RFC 5077 §3.3, the NPN draft and RFC 6101 (SSLv3 no_certificate);
  it is NOT derived from the automaton.  Props/C06.lean compares the two.
-/
namespace Tls.Order

/-! ## Vocabulary -/

inductive MsgKind
  | hello_request | client_hello | server_hello | hrr
  | certificate | compressed_certificate | server_key_exchange | certificate_request
  | server_hello_done | client_key_exchange | certificate_verify
  | ccs | finished | new_session_ticket | next_protocol
  | encrypted_extensions | end_of_early_data | key_update
  /-- CertificateStatus (status_request): tlslite-ng never negotiates it on the receive side -/
  | certificate_status
  | alert_warning | alert_fatal | close_notify | no_certificate_alert
  | heartbeat | app_data | empty_app_data
  deriving DecidableEq, Repr, Inhabited

namespace MsgKind

def all : List MsgKind :=
  [hello_request, client_hello, server_hello, hrr, certificate, compressed_certificate,
   server_key_exchange, certificate_request, server_hello_done, client_key_exchange,
   certificate_verify, ccs, finished, new_session_ticket, next_protocol, encrypted_extensions,
   end_of_early_data, key_update, certificate_status, alert_warning, alert_fatal, close_notify, no_certificate_alert,
   heartbeat, app_data, empty_app_data]

/-- record content type `alert` -/
def isAlert : MsgKind → Bool
  | alert_warning | alert_fatal | close_notify | no_certificate_alert => true
  | _ => false

/-- record content type `handshake` -/
def isHandshake : MsgKind → Bool
  | ccs | alert_warning | alert_fatal | close_notify | no_certificate_alert
  | heartbeat | app_data | empty_app_data => false
  | _ => true

def name : MsgKind → String
  | hello_request => "hello_request" | client_hello => "client_hello"
  | server_hello => "server_hello" | hrr => "hrr" | certificate => "certificate"
  | compressed_certificate => "compressed_certificate"
  | server_key_exchange => "server_key_exchange" | certificate_request => "certificate_request"
  | server_hello_done => "server_hello_done" | client_key_exchange => "client_key_exchange"
  | certificate_verify => "certificate_verify" | ccs => "ccs" | finished => "finished"
  | new_session_ticket => "new_session_ticket" | next_protocol => "next_protocol"
  | encrypted_extensions => "encrypted_extensions" | end_of_early_data => "end_of_early_data"
  | key_update => "key_update" | certificate_status => "certificate_status" | alert_warning => "alert_warning" | alert_fatal => "alert_fatal"
  | close_notify => "close_notify" | no_certificate_alert => "no_certificate_alert"
  | heartbeat => "heartbeat" | app_data => "app_data" | empty_app_data => "empty_app_data"

def ofName (s : String) : Option MsgKind := all.find? (fun k => k.name == s)

end MsgKind

inductive Role | client | server
  deriving DecidableEq, Repr, Inhabited

/-- version family: SSLv3, TLS 1.0–1.2, TLS 1.3 -/
inductive Ver | ssl3 | tls | tls13
  deriving DecidableEq, Repr, Inhabited

/-- key exchange: RSA key transport, DHE_RSA/DSS, ECDHE_RSA/ECDSA, SRP, SRP with a server
    certificate, anonymous (EC)DH, TLS 1.3 external PSK -/
inductive Kx | rsa | dhe | ecdhe | srp | srpCert | anon | psk
  deriving DecidableEq, Repr, Inhabited

inductive Resume | none | sessionId | ticket
  deriving DecidableEq, Repr, Inhabited

/-- negotiated parameters of one handshake, as seen by the endpoint whose receive side is modelled -/
structure Cfg where
  role : Role
  ver : Ver
  kx : Kx
  /-- the server asks for client authentication (sends CertificateRequest) -/
  reqCert : Bool
  /-- the Certificate message sent by the client carries a non-empty chain -/
  clientCert : Bool
  /-- ≤ 1.2: the ServerHello carries the session_ticket extension (RFC 5077) -/
  tickets : Bool
  /-- NPN negotiated: the client sends NextProtocol -/
  npn : Bool
  /-- TLS 1.3: the ClientHello has no key share for the server's group (HelloRetryRequest) -/
  hrr : Bool
  /-- the server resumes the offered session (session-ID / RFC 5077 ticket / TLS 1.3 ticket PSK) -/
  resume : Resume
  /-- TLS 1.3: compress_certificate negotiated for the certificate this endpoint receives -/
  compCert : Bool
  /-- heartbeat extension negotiated, peer allowed to send -/
  hb : Bool
  /-- TLS 1.3 middlebox compatibility (non-empty legacy session id): affects only what is SENT;
      `_middlebox_compat_mode` (tolerating a received CCS) is on during every handshake -/
  compat : Bool
  /-- TLS 1.3: the client holds a certificate and key: it offers post_handshake_auth
      (`_client_keypair` / `_pha_supported`) and its post-handshake Certificate is not empty -/
  keypair : Bool
  deriving DecidableEq, Repr, Inhabited

namespace Cfg

def isTls13 (c : Cfg) : Bool := c.ver == .tls13
def resumed (c : Cfg) : Bool := c.resume != .none
/-- TLS 1.3: no certificate authentication in this handshake (external PSK or ticket PSK) -/
def pskMode (c : Cfg) : Bool := c.kx == .psk || c.resumed
/-- ≤ 1.2: cipher suite in certAllSuites ∪ ecdheEcdsaSuites ∪ dheDsaSuites (server sends Certificate) -/
def certKx (c : Cfg) : Bool := c.kx == .rsa || c.kx == .dhe || c.kx == .ecdhe || c.kx == .srpCert
/-- ≤ 1.2: cipher suite not in certSuites (server sends ServerKeyExchange) -/
def skeKx (c : Cfg) : Bool := c.kx != .rsa
/-- ≤ 1.2: a CertificateRequest is compatible with the cipher suite (client-side check) -/
def certReqKx (c : Cfg) : Bool := c.kx == .rsa || c.kx == .dhe || c.kx == .ecdhe

/-- combinations that can be negotiated -/
def valid (c : Cfg) : Bool :=
  (if c.isTls13 then
      (c.kx == .dhe || c.kx == .ecdhe || c.kx == .psk) && !c.tickets && !c.npn &&
      c.resume != .sessionId && (c.kx != .psk || c.resume == .none)
    else
      c.kx != .psk && !c.hrr && !c.compCert && !c.compat && !c.keypair) &&
  (c.ver != .ssl3 || (!c.tickets && c.resume != .ticket && !c.hb)) &&
  (!c.clientCert || c.reqCert) &&
  (!c.reqCert || (if c.isTls13 then !c.pskMode else c.certReqKx && !c.resumed))

end Cfg

/-! ## The automaton -/

/-- position in the handshake coroutine = which `_getMsg` call is pending -/
inductive St
  -- client, `_clientGetServerHello`
  | cWaitSH | cWaitSH2
  -- client ≤ 1.2, `_clientKeyExchange`
  | cWaitCert | cWaitSKE | cWaitCRorSHD | cWaitSHD
  -- client TLS 1.3, `_clientTLS13Handshake`
  | c13WaitEE | c13WaitCRorCert | c13WaitCert | c13WaitCV | c13WaitFin
  -- server, `_serverGetClientHello`
  | sWaitCH | sWaitCH2
  -- server ≤ 1.2, `_serverCertKeyExchange` / SRP / anon (`expectCV`: a non-empty client chain was received)
  | sWaitCert | sWaitCKE (expectCV : Bool) | sWaitCV
  -- both roles ≤ 1.2, `_getFinished`
  | gfFirst | gfCCS | gfNP | gfFin
  -- server TLS 1.3, `_serverTLS13Handshake`
  | s13WaitCert | s13WaitCV | s13WaitFin
  -- `_handshakeDone` reached: reads come from `readAsync`
  | done
  -- TLS 1.3 server inside `_handle_srv_pha` (the client's post-handshake authentication flight)
  | phaWaitCV | phaWaitFin
  -- `_decrefAsync` with `closeSocket = False`: close_notify sent, waiting for the peer's alert
  | closing
  -- connection shut down (fatal alert sent, or alert received)
  | dead
  deriving DecidableEq, Repr, Inhabited

def St.name : St → String
  | .cWaitSH => "cWaitSH" | .cWaitSH2 => "cWaitSH2" | .cWaitCert => "cWaitCert"
  | .cWaitSKE => "cWaitSKE" | .cWaitCRorSHD => "cWaitCRorSHD" | .cWaitSHD => "cWaitSHD"
  | .c13WaitEE => "c13WaitEE" | .c13WaitCRorCert => "c13WaitCRorCert"
  | .c13WaitCert => "c13WaitCert" | .c13WaitCV => "c13WaitCV" | .c13WaitFin => "c13WaitFin"
  | .sWaitCH => "sWaitCH" | .sWaitCH2 => "sWaitCH2" | .sWaitCert => "sWaitCert"
  | .sWaitCKE b => if b then "sWaitCKE+cv" else "sWaitCKE" | .sWaitCV => "sWaitCV"
  | .gfFirst => "gfFirst" | .gfCCS => "gfCCS" | .gfNP => "gfNP" | .gfFin => "gfFin"
  | .s13WaitCert => "s13WaitCert" | .s13WaitCV => "s13WaitCV" | .s13WaitFin => "s13WaitFin"
  | .done => "done" | .phaWaitCV => "phaWaitCV" | .phaWaitFin => "phaWaitFin" | .closing => "closing"
  | .dead => "dead"

/-- the handshake is over (`_handshakeDone` was reached) and the connection is not shut down -/
def St.isPost : St → Bool
  | .done | .phaWaitCV | .phaWaitFin | .closing => true
  | _ => false

inductive Alert
  | unexpected_message | illegal_parameter | unsupported_extension
  /-- the record did not pass the record layer under the current read keys (bad_record_mac,
      decryption_failed, record_overflow, or garbage that no longer parses) -/
  | wrong_epoch
  /-- handshake bytes were glued to an unrelated incomplete fragment in the defragmenter: what is
      parsed is garbage (some fatal alert, or an endless wait for the rest of a bogus length) -/
  | garbled
  deriving DecidableEq, Repr, Inhabited

def Alert.name : Alert → String
  | .unexpected_message => "unexpected_message" | .illegal_parameter => "illegal_parameter"
  | .unsupported_extension => "unsupported_extension" | .wrong_epoch => "wrong_epoch"
  | .garbled => "garbled"

/-- what `_getMsg` + the calling flow do with one incoming message -/
inductive Out
  /-- handed out by `_getMsg`; the flow moves to its next `_getMsg`; `bump` = `_changeReadState` -/
  | next (s : St) (bump : Bool)
  /-- handed out by `_getMsg`, then the flow itself sends a fatal alert -/
  | acceptAbort (a : Alert)
  /-- dropped silently, the same `_getMsg` keeps waiting (TLS 1.3 CCS, heartbeat, empty data) -/
  | ignore
  /-- renegotiation attempt: `no_renegotiation` warning sent, message dropped, keep waiting -/
  | warn
  /-- application data handed to the caller (only from `readAsync`) -/
  | deliver
  /-- post-handshake message processed by `readAsync` / the close-wait loop (NewSessionTicket,
      KeyUpdate, CertificateRequest, discarded data); `bump`: KeyUpdate installs new read keys -/
  | post (bump : Bool)
  /-- TLS 1.3 server: the Certificate of a post-handshake authentication flight was handed out and
      its CertificateRequest popped from `_cert_requests`; `_handle_srv_pha` goes on in state `s` -/
  | phaStart (s : St)
  /-- the first part of a fragmented handshake message went into the defragmenter; nothing reaches
      `_getMsg` yet -/
  | buffer (k : MsgKind)
  /-- `_sendError`: fatal alert, connection closed -/
  | abort (a : Alert)
  /-- an alert was received: connection closed, `TLSRemoteAlert` raised, no fatal alert of ours -/
  | peerClosed
  /-- SSLv3 server waiting for the client Certificate: an alert other than no_certificate is handed
      out by `_getMsg`, then the flow closes the connection and raises `TLSRemoteAlert` -/
  | acceptClosed
  deriving DecidableEq, Repr, Inhabited

/-- the outcomes possible while a handshake coroutine is the caller of `_getMsg` -/
inductive HsOut
  | next (s : St) (bump : Bool)
  | acceptAbort (a : Alert)
  | ignore
  | abort (a : Alert)
  | peerClosed
  | acceptClosed
  deriving DecidableEq, Repr, Inhabited

def HsOut.toOut : HsOut → Out
  | .next s b => .next s b
  | .acceptAbort a => .acceptAbort a
  | .ignore => .ignore
  | .abort a => .abort a
  | .peerClosed => .peerClosed
  | .acceptClosed => .acceptClosed

/-- the handshake coroutine's reaction to a message `_getMsg` handed out -/
inductive Flow
  | go (s : St) (bump : Bool)
  | reject (a : Alert)
  deriving DecidableEq, Repr, Inhabited

/-- `self.version > (3, 3)` at this point of the flow (the client learns it from ServerHello/HRR,
    the server sets it after the first ClientHello) -/
def v13Active (c : Cfg) : St → Bool
  | .cWaitSH | .sWaitCH => false
  -- positions that exist only inside the TLS 1.3 flows
  | .cWaitSH2 | .c13WaitEE | .c13WaitCRorCert | .c13WaitCert | .c13WaitCV | .c13WaitFin
  | .sWaitCH2 | .s13WaitCert | .s13WaitCV | .s13WaitFin | .phaWaitCV | .phaWaitFin => true
  | _ => c.isTls13

/-- `self.heartbeat_supported` at this point of a handshake -/
def hbActive (c : Cfg) (s : St) : Bool :=
  c.hb && (match s with
    | .cWaitSH | .sWaitCH => false
    | _ => !(c.isTls13 && c.role == .client))   -- a 1.3 client learns it from EncryptedExtensions, at the end

/-- `_getFinished`: a client that saw the session_ticket extension in the ServerHello
    (`_expect_new_session_ticket`) expects exactly NewSessionTicket first -/
def expectsNST (c : Cfg) : Bool := c.role == .client && c.tickets

/-- `ContentType.handshake in expectedType` of the pending handshake `_getMsg` -/
def expectsHandshake (c : Cfg) : St → Bool
  | .gfFirst => expectsNST c
  | .gfCCS => false
  | _ => true

/-- `ContentType.change_cipher_spec in expectedType` -/
def expectsCCS (c : Cfg) : St → Bool
  | .gfFirst => !expectsNST c
  | .gfCCS => true
  | _ => false

/-- `ContentType.alert in expectedType` (SSLv3 server waiting for the client Certificate) -/
def expectsAlert (c : Cfg) : St → Bool
  | .sWaitCert => c.ver == .ssl3
  | _ => false

/-- state after a ≤ 1.2 ChangeCipherSpec was taken by `_getFinished` -/
def afterCCS (c : Cfg) : St :=
  if c.role == .server && c.npn && !c.resumed then .gfNP else .gfFin

/-- TLS 1.3 server: state after it has sent its flight -/
def s13AfterFlight (c : Cfg) : St :=
  if c.reqCert && !c.pskMode then .s13WaitCert else .s13WaitFin

/-- the flow's reaction to a handshake message whose type IS in `secondaryType` of the pending call
    (`none`: the type is not in `secondaryType`) -/
def flow (c : Cfg) : St → MsgKind → Option Flow
  -- client: ServerHello (`_clientGetServerHello`, then the dispatch in `_handshakeClientAsyncHelper`)
  | .cWaitSH, .server_hello =>
      some (if c.isTls13 then .go .c13WaitEE true
            else if c.resumed then .go .gfFirst false
            else if c.certKx then .go .cWaitCert false
            else .go .cWaitSKE false)
  | .cWaitSH, .hrr =>
      some (if c.isTls13 then (if c.hrr then .go .cWaitSH2 false else .reject .illegal_parameter)
            else .reject .unsupported_extension)
  | .cWaitSH2, .server_hello => some (.go .c13WaitEE true)
  | .cWaitSH2, .hrr => some (.reject .unexpected_message)   -- only one HelloRetryRequest (RFC 8446 §4.1.4)
  -- client ≤ 1.2 (`_clientKeyExchange`)
  | .cWaitCert, .certificate => some (if c.skeKx then .go .cWaitSKE false else .go .cWaitCRorSHD false)
  | .cWaitSKE, .server_key_exchange => some (.go .cWaitCRorSHD false)
  | .cWaitCRorSHD, .certificate_request =>
      some (if c.certReqKx then .go .cWaitSHD false else .reject .unexpected_message)
  | .cWaitCRorSHD, .server_hello_done => some (.go .gfFirst false)
  | .cWaitSHD, .server_hello_done => some (.go .gfFirst false)
  -- `_getFinished`
  | .gfFirst, .new_session_ticket => some (.go .gfCCS false)
  | .gfNP, .next_protocol => some (.go .gfFin false)
  | .gfFin, .finished => some (.go .done false)
  -- client TLS 1.3 (`_clientTLS13Handshake`)
  | .c13WaitEE, .encrypted_extensions =>
      some (if c.pskMode then .go .c13WaitFin false else .go .c13WaitCRorCert false)
  | .c13WaitCRorCert, .certificate_request => some (.go .c13WaitCert false)
  | .c13WaitCRorCert, .certificate => some (.go .c13WaitCV false)
  | .c13WaitCRorCert, .compressed_certificate => if c.compCert then some (.go .c13WaitCV false) else none
  | .c13WaitCert, .certificate => some (.go .c13WaitCV false)
  | .c13WaitCert, .compressed_certificate => if c.compCert then some (.go .c13WaitCV false) else none
  | .c13WaitCV, .certificate_verify => some (.go .c13WaitFin false)
  | .c13WaitFin, .finished => some (.go .done true)
  -- server: ClientHello (`_serverGetClientHello`)
  | .sWaitCH, .client_hello =>
      some (if c.isTls13 then (if c.hrr then .go .sWaitCH2 false else .go (s13AfterFlight c) true)
            else if c.resumed then .go .gfFirst false
            else if c.reqCert then .go .sWaitCert false
            else .go (.sWaitCKE false) false)
  | .sWaitCH2, .client_hello => some (.go (s13AfterFlight c) true)
  -- server ≤ 1.2 (`_serverCertKeyExchange`, `_serverSRPKeyExchange`, `_serverAnonKeyExchange`)
  | .sWaitCert, .certificate => some (.go (.sWaitCKE c.clientCert) false)
  | .sWaitCKE cv, .client_key_exchange => some (if cv then .go .sWaitCV false else .go .gfFirst false)
  | .sWaitCV, .certificate_verify => some (.go .gfFirst false)
  -- server TLS 1.3 (`_serverTLS13Handshake`)
  | .s13WaitCert, .certificate => some (if c.clientCert then .go .s13WaitCV false else .go .s13WaitFin false)
  | .s13WaitCert, .compressed_certificate =>
      if c.compCert then some (if c.clientCert then .go .s13WaitCV false else .go .s13WaitFin false) else none
  | .s13WaitCV, .certificate_verify => some (.go .s13WaitFin false)
  | .s13WaitFin, .finished => some (.go .done true)
  | _, _ => none

/-- `_getMsg` called from a handshake coroutine in state `s`, on a record that passed the record
    layer (alignment is checked afterwards, see `stepK`) -/
def stepHs (c : Cfg) (s : St) (k : MsgKind) : HsOut :=
  -- TLS 1.3 compatibility CCS: dropped while handshake is expected (`_middlebox_compat_mode` is on
  -- until the handshake is over)
  if k == .ccs && v13Active c s && expectsHandshake c s then .ignore
  else if k.isAlert then
    -- an SSLv3 server waiting for the client Certificate also takes alerts: no_certificate goes on
    if expectsAlert c s then (if k == .no_certificate_alert then .next (.sWaitCKE false) false else .acceptClosed)
    else .peerClosed
  else if k == .ccs then
    if expectsCCS c s then .next (afterCCS c) true else .abort .unexpected_message
  else if k == .app_data || k == .empty_app_data then .abort .unexpected_message
  else if k == .heartbeat then
    if hbActive c s then .ignore else .abort .unexpected_message
  else -- a handshake message
    if !expectsHandshake c s then
      -- unexpected content type; the renegotiation branch needs `not self.closed`, which is
      -- false until `_handshakeDone`
      .abort .unexpected_message
    else match flow c s k with
      | none => .abort .unexpected_message
      | some (.go s' b) => .next s' b
      | some (.reject a) => .acceptAbort a

/-- the outcomes possible on an established connection (`readAsync`, `_handle_srv_pha`, the
    close-wait loop): by construction none of them leads back into the handshake -/
inductive PostOut
  | peerClosed | acceptClosed
  | abort (a : Alert)
  | deliver | ignore | warn
  | post (bump : Bool)
  /-- Certificate of an authentication flight taken; `cv`: a CertificateVerify has to follow -/
  | phaStart (cv : Bool)
  /-- CertificateVerify of the flight taken -/
  | phaCV
  /-- Finished of the flight taken: back to `readAsync` -/
  | phaFin
  deriving DecidableEq, Repr, Inhabited

def PostOut.toOut : PostOut → Out
  | .peerClosed => .peerClosed
  | .acceptClosed => .acceptClosed
  | .abort a => .abort a
  | .deliver => .deliver
  | .ignore => .ignore
  | .warn => .warn
  | .post b => .post b
  | .phaStart cv => .phaStart (if cv then .phaWaitCV else .phaWaitFin)
  | .phaCV => .next .phaWaitFin false
  | .phaFin => .next .done false

/-- a renegotiation attempt: HelloRequest to a client, ClientHello to a server -/
def renegAttempt (c : Cfg) (k : MsgKind) : Bool :=
  (c.role == .client && k == .hello_request) || (c.role == .server && k == .client_hello)

/-- `_getMsg` called from `readAsync` on an established connection.
    ≤ 1.2: `expectedType = application_data`.  TLS 1.3: `(application_data, handshake)` and
    `secondaryType` by role: a client with a key pair `(new_session_ticket, key_update,
    certificate_request)`, a server with outstanding CertificateRequests `(key_update, certificate
    [, compressed_certificate])`, another client `(new_session_ticket, key_update)`, another server
    `(key_update,)`.  `outstanding` = `len(self._cert_requests)`. -/
def stepDone (c : Cfg) (outstanding : Nat) (k : MsgKind) : PostOut :=
  if k.isAlert then .peerClosed
  else if k == .ccs then .abort .unexpected_message   -- 1.3: compat mode is off once the handshake is over
  else if k == .app_data then .deliver
  else if k == .empty_app_data then .ignore
  else if k == .heartbeat then (if c.hb then .ignore else .abort .unexpected_message)
  else if c.isTls13 then
    if k == .key_update then .post true                -- `_handle_keyupdate_request`: new read keys
    else if c.role == .client then
      if k == .new_session_ticket then .post false
      else if k == .certificate_request && c.keypair then .post false   -- `_handle_pha`: answers, reads nothing
      else .abort .unexpected_message
    else
      -- `_handle_srv_pha`: CertificateVerify follows iff the chain is not empty
      if outstanding > 0 && (k == .certificate || (k == .compressed_certificate && c.compCert))
      then .phaStart c.keypair
      else .abort .unexpected_message
  else
    -- handshake is an unexpected content type: a renegotiation attempt is refused politely
    -- (`self.session` set and `not self.closed`): no_renegotiation warning, message dropped
    if renegAttempt c k then .warn else .abort .unexpected_message

/-- `_getMsg(ContentType.handshake, certificate_verify | finished)` inside `_handle_srv_pha`
    (TLS 1.3 server, compat mode off): everything else ends the connection -/
def stepPha (c : Cfg) (cv : Bool) (k : MsgKind) : PostOut :=
  if k.isAlert then .peerClosed
  else if k == .heartbeat then (if c.hb then .ignore else .abort .unexpected_message)
  else if cv && k == .certificate_verify then .phaCV
  else if !cv && k == .finished then .phaFin
  else .abort .unexpected_message

/-- the close-wait loop of `_decrefAsync` (`closeSocket = False`): `_getMsg((alert,
    application_data[, handshake]), (new_session_ticket?, key_update))` until an alert arrives;
    data is thrown away, in ≤ 1.2 a renegotiation attempt still gets the polite warning
    (`self.closed` is still False) -/
def stepClosing (c : Cfg) (k : MsgKind) : PostOut :=
  if k.isAlert then .acceptClosed
  else if k == .ccs then .abort .unexpected_message
  else if k == .app_data then .post false
  else if k == .empty_app_data then .ignore
  else if k == .heartbeat then (if c.hb then .ignore else .abort .unexpected_message)
  else if c.isTls13 then
    if k == .key_update then .post true
    else if k == .new_session_ticket && c.role == .client then .post false
    else .abort .unexpected_message
  else
    if renegAttempt c k then .warn else .abort .unexpected_message

/-- `_getMsg` before the alignment check -/
def stepK0 (c : Cfg) (s : St) (outstanding : Nat) (k : MsgKind) : Out :=
  match s with
  | .done => (stepDone c outstanding k).toOut
  | .phaWaitCV => (stepPha c true k).toOut
  | .phaWaitFin => (stepPha c false k).toOut
  | .closing => (stepClosing c k).toOut
  | .dead => .abort .unexpected_message        -- unreachable: `feed` stops at `dead`
  | _ => (stepHs c s k).toOut

/-- handshake types that must end at a record boundary in TLS 1.3 (`_getMsg`, RFC 8446 §5.1) -/
def mustAlign : MsgKind → Bool
  | .client_hello | .end_of_early_data | .server_hello | .hrr | .finished | .key_update => true
  | _ => false

/-- the message passed the content-type and handshake-type gate -/
def Out.accepted : Out → Bool
  | .next _ _ | .acceptAbort _ | .post _ | .phaStart _ => true
  | _ => false

/-- the first hello of a TLS 1.3 handshake: `_getMsg` cannot check its alignment (the version is
    not known yet), the flow does it once the version is set (`_clientGetServerHello` after
    `self.version = real_version`, `_serverGetClientHello` after `self.version = version`) -/
def firstHello (c : Cfg) (s : St) (k : MsgKind) : Bool :=
  c.isTls13 && ((s == .cWaitSH && k == .server_hello) || (s == .sWaitCH && k == .client_hello))

/-- `_getMsg` on a complete message / record that passed the record layer; `plus` = further
    handshake bytes follow in the same record (the defragmenter is not empty after this message) -/
def stepK (c : Cfg) (s : St) (outstanding : Nat) (k : MsgKind) (plus : Bool) : Out :=
  let o := stepK0 c s outstanding k
  if plus && v13Active c s && mustAlign k && o.accepted then .abort .unexpected_message
  else if plus && firstHello c s k then .acceptAbort .unexpected_message
  else o

/-- which part of a handshake message a piece of a record carries -/
inductive Part
  | whole
  /-- the first bytes only: the message stays incomplete in the defragmenter -/
  | head
  /-- the remaining bytes of the message whose head is buffered -/
  | tail
  deriving DecidableEq, Repr, Inhabited

/-- one piece of an incoming record as the record layer and the defragmenter see it: a complete
    message, or the head / the tail of a fragmented handshake message.  A record is a run of pieces
    of one key epoch, each but the last marked `plus`. -/
structure Msg where
  kind : MsgKind
  /-- index of the peer's write state under which the record was protected -/
  epoch : Nat
  /-- further handshake bytes follow inside the same record -/
  plus : Bool := false
  part : Part := .whole
  deriving DecidableEq, Repr, Inhabited

/-- observable state of the endpoint -/
structure Run where
  st : St
  /-- number of read-key changes so far (`_changeReadState`, KeyUpdate) -/
  epoch : Nat := 0
  /-- records unprotected under the current read state so far (its sequence number) -/
  recsInEpoch : Nat := 0
  /-- messages handed out by `_getMsg` -/
  acc : Nat := 0
  /-- application-data records handed to the caller -/
  delivered : Nat := 0
  /-- `no_renegotiation` warnings sent -/
  warns : Nat := 0
  /-- fatal alert sent -/
  alert : Option Alert := none
  /-- connection closed because the peer sent an alert -/
  peerClosed : Bool := false
  /-- `_handshakeDone` was reached -/
  hsDone : Bool := false
  /-- value of `acc` when `_handshakeDone` was reached -/
  accAtDone : Nat := 0
  /-- `self.closed` -/
  closed : Bool := true
  /-- TLS 1.3 server: CertificateRequests sent by `request_post_handshake_auth` and not yet answered -/
  outstanding : Nat := 0
  /-- the defragmenter holds the head of a handshake message of this kind -/
  pending : Option MsgKind := none
  deriving DecidableEq, Repr, Inhabited

/-- the TLS 1.3 compatibility CCS is dropped before anything else is looked at -/
def ccsDropped (c : Cfg) (s : St) (k : MsgKind) : Bool :=
  k == .ccs && v13Active c s && expectsHandshake c s && !s.isPost

/-- the record layer lets the record through under the current read state: same key epoch, or a
    TLS 1.3 ChangeCipherSpec (never protected, RFC 8446 §5), or — TLS 1.3 only — an unprotected
    alert while nothing has been decrypted yet under the current read keys and the handshake is
    not finished (`recvRecord`: `len(data) < 3 and plaintext_alerts_ok and _readState.seqnum == 0`;
    `_handshakeDone` clears `plaintext_alerts_ok`) -/
def epochOk (c : Cfg) (r : Run) (m : Msg) : Bool :=
  m.epoch == r.epoch ||
  (v13Active c r.st && m.kind == .ccs) ||
  (v13Active c r.st && !r.st.isPost && m.kind.isAlert && m.epoch == 0 && r.recsInEpoch == 0)

/-- record layer, defragmenter (`_getNextRecord`) and `_getMsg` on one piece -/
def step (c : Cfg) (r : Run) (m : Msg) : Out :=
  if !epochOk c r m then .abort .wrong_epoch
  else if m.kind.isHandshake then
    -- handshake bytes are appended to the defragmenter buffer; complete messages come out;
    -- bytes glued to / missing an unrelated incomplete fragment parse as garbage
    if m.part == .head then (if r.pending.isNone then .buffer m.kind else .abort .garbled)
    else if m.part == .tail then
      (if r.pending == some m.kind then stepK c r.st r.outstanding m.kind m.plus else .abort .garbled)
    else (if r.pending.isNone then stepK c r.st r.outstanding m.kind m.plus else .abort .garbled)
  else
    -- TLS 1.3: "Interleaved Handshake and non-handshake messages" (after the compatibility CCS was dropped)
    if r.pending.isSome && v13Active c r.st && !ccsDropped c r.st m.kind then .abort .unexpected_message
    -- ≤ 1.2: `_getFinished` takes the ChangeCipherSpec and then refuses to change the read state
    -- while a handshake fragment is buffered ("ChangeCipherSpec inside a fragmented handshake message")
    else if r.pending.isSome && m.kind == .ccs && expectsCCS c r.st then .acceptAbort .unexpected_message
    else stepK c r.st r.outstanding m.kind false

def start (c : Cfg) : Run := { st := if c.role == .client then .cWaitSH else .sWaitCH }

def apply (r : Run) : Out → Run
  | .next s bump =>
      let r' := { r with st := s, acc := r.acc + 1, epoch := if bump then r.epoch + 1 else r.epoch,
                         recsInEpoch := if bump then 0 else r.recsInEpoch }
      if s.isPost && !r.hsDone then { r' with hsDone := true, accAtDone := r'.acc, closed := false } else r'
  | .acceptAbort a => { r with st := .dead, acc := r.acc + 1, alert := some a, closed := true }
  | .ignore => r
  | .warn => { r with warns := r.warns + 1 }
  | .deliver => { r with acc := r.acc + 1, delivered := r.delivered + 1 }
  | .post bump => { r with acc := r.acc + 1, epoch := if bump then r.epoch + 1 else r.epoch,
                           recsInEpoch := if bump then 0 else r.recsInEpoch }
  | .phaStart s => { r with st := s, acc := r.acc + 1, outstanding := r.outstanding - 1 }
  | .buffer k => { r with pending := some k }
  | .abort a => { r with st := .dead, alert := some a, closed := true }
  | .peerClosed => { r with st := .dead, peerClosed := true, closed := true }
  | .acceptClosed => { r with st := .dead, acc := r.acc + 1, peerClosed := true, closed := true }

/-- a record that went through the current read state advances its sequence number (a TLS 1.3
    ChangeCipherSpec or plaintext alert does not touch the read state) -/
def countRecord (c : Cfg) (r : Run) (m : Msg) : Run :=
  if m.epoch == r.epoch && !(v13Active c r.st && m.kind == .ccs) then { r with recsInEpoch := r.recsInEpoch + 1 } else r

/-- a tail piece that completes the buffered message empties the defragmenter -/
def clearPending (r : Run) (m : Msg) : Run :=
  if m.part == .tail && m.kind.isHandshake then { r with pending := none } else r

def feed (c : Cfg) (r : Run) (m : Msg) : Run :=
  if r.st == .dead then r else apply (clearPending (countRecord c r m) m) (step c r m)

def run (c : Cfg) (r : Run) (ms : List Msg) : Run := ms.foldl (feed c) r

/-- `_handshakeStart`: raises `ValueError("Renegotiation disallowed for security reasons")` unless
    the connection is closed -/
def handshakeStart (r : Run) : Except String Run :=
  if !r.closed then .error "Renegotiation disallowed for security reasons"
  else .ok { st := r.st }

/-- what happens to an established connection: a piece of a record arrives, or the local
    application acts -/
inductive Ev
  | msg (m : Msg)
  /-- the server application calls `request_post_handshake_auth` (raises unless TLS 1.3, server
      role and the client offered post_handshake_auth; sends a CertificateRequest) -/
  | requestPha
  /-- the application calls `close()` with `closeSocket = False`: close_notify is sent and
      `_decrefAsync` waits for the peer's alert -/
  | close
  deriving DecidableEq, Repr, Inhabited

def feedEv (c : Cfg) (r : Run) : Ev → Run
  | .msg m => feed c r m
  | .requestPha =>
      if r.st == .done && c.isTls13 && c.role == .server && c.keypair
      then { r with outstanding := r.outstanding + 1 } else r
  | .close => if r.st == .done then { r with st := .closing } else r

def runEv (c : Cfg) (r : Run) (es : List Ev) : Run := es.foldl (feedEv c) r

/-- the handshake part of a trace: `ms` is consumed completely and `_handshakeDone` is reached
    exactly by its last message -/
def hsRun (c : Cfg) : Run → List Msg → Option Run
  | _, [] => none
  | r, m :: ms =>
    if r.st == .dead || r.st.isPost then none
    else
      let r' := feed c r m
      if r'.st == .done then (if ms.isEmpty then some r' else none) else hsRun c r' ms

def accepts (c : Cfg) (ms : List Msg) : Bool := (hsRun c (start c) ms).isSome

/-! ## The grammar (RFC side) -/

inductive Item
  | req (ks : List MsgKind)
  | opt (ks : List MsgKind)
  deriving Repr

/-- sequence with optional items -/
def matchSeq : List Item → List MsgKind → Bool
  | [], ms => ms.isEmpty
  | .req ks :: is, ms =>
      (match ms with
       | [] => false
       | m :: ms' => ks.contains m && matchSeq is ms')
  | .opt ks :: is, ms =>
      matchSeq is ms ||
      (match ms with
       | [] => false
       | m :: ms' => ks.contains m && matchSeq is ms')

def optIf (b : Bool) (ks : List MsgKind) : List Item := if b then [.opt ks] else []
def reqIf (b : Bool) (ks : List MsgKind) : List Item := if b then [.req ks] else []

/-- the sequence of handshake-protocol messages (and ≤ 1.2 ChangeCipherSpec) an endpoint receives in
    one handshake, by role and negotiated parameters -/
def grammar (c : Cfg) : List Item :=
  match c.ver, c.role with
  | .tls13, .client =>
      -- RFC 8446 §2 fig. 1, §4.1.4 (HelloRetryRequest), §2.2 (PSK: no certificate messages)
      optIf c.hrr [.hrr] ++ [.req [.server_hello], .req [.encrypted_extensions]] ++
      (if c.pskMode then [] else
        [.opt [.certificate_request],
         .req (if c.compCert then [.certificate, .compressed_certificate] else [.certificate]),
         .req [.certificate_verify]]) ++
      [.req [.finished]]
  | .tls13, .server =>
      -- RFC 8446 §2: ClientHello [second ClientHello after HRR] [Certificate [CertificateVerify]] Finished
      [.req [.client_hello]] ++ reqIf c.hrr [.client_hello] ++
      (if c.reqCert && !c.pskMode then
        [.req (if c.compCert then [.certificate, .compressed_certificate] else [.certificate])] ++
        reqIf c.clientCert [.certificate_verify]
       else []) ++
      [.req [.finished]]
  | _, .client =>
      if c.resumed then
        -- RFC 5246 §7.3 fig. 2, RFC 5077 §3.1 fig. 2 / §3.3 (ticket renewed iff the extension is in the ServerHello)
        [.req [.server_hello]] ++ reqIf c.tickets [.new_session_ticket] ++ [.req [.ccs], .req [.finished]]
      else
        -- RFC 5246 §7.3 fig. 1, §7.4.2/3/4; RFC 5054 §2.2; RFC 5077 §3.3 (MUST send iff extension)
        [.req [.server_hello]] ++ reqIf c.certKx [.certificate] ++ reqIf c.skeKx [.server_key_exchange] ++
        optIf c.certKx [.certificate_request] ++ [.req [.server_hello_done]] ++
        reqIf c.tickets [.new_session_ticket] ++ [.req [.ccs], .req [.finished]]
  | _, .server =>
      if c.resumed then
        [.req [.client_hello], .req [.ccs]] ++ optIf c.npn [.next_protocol] ++ [.req [.finished]]
      else
        -- client Certificate iff requested, CertificateVerify iff a certificate with signing ability
        -- was sent, NextProtocol iff NPN
        [.req [.client_hello]] ++ reqIf c.reqCert [.certificate] ++
        [.req [.client_key_exchange]] ++ reqIf (c.reqCert && c.clientCert) [.certificate_verify] ++
        [.req [.ccs]] ++ reqIf c.npn [.next_protocol] ++ [.req [.finished]]

/-- SSLv3 only (RFC 6101 §5.6.6, §5.4.2): a client without a suitable certificate answers the
    CertificateRequest with a no_certificate warning alert instead of a Certificate message -/
def grammarNoCert (c : Cfg) : List Item :=
  [.req [.client_hello], .req [.no_certificate_alert], .req [.client_key_exchange], .req [.ccs]] ++
  reqIf c.npn [.next_protocol] ++ [.req [.finished]]

/-- the sequences permitted for this role and these parameters -/
def lang (c : Cfg) (t : List MsgKind) : Bool :=
  matchSeq (grammar c) t ||
  (c.ver == .ssl3 && c.role == .server && c.reqCert && !c.resumed && matchSeq (grammarNoCert c) t)

/-- records that are not part of the handshake sequence and may be interleaved with it:
    heartbeat once negotiated (RFC 6520 §3: discarded during a handshake), and in TLS 1.3 the
    unprotected compatibility ChangeCipherSpec (RFC 8446 §5, D.4) -/
def transparent (c : Cfg) (k : MsgKind) : Bool :=
  (k == .heartbeat && c.hb) || (k == .ccs && c.isTls13)

/-- `t` is a sequence of received messages the negotiated parameters permit for this role.
    Nothing transparent may precede the first hello message (nothing is negotiated before it;
    RFC 8446 §5: a CCS is tolerated only after the first ClientHello was sent or received — the
    client side is read strictly: after the ServerHello / HelloRetryRequest). -/
def allowed (c : Cfg) (t : List MsgKind) : Bool :=
  (match t with
    | [] => false
    | k :: _ => !transparent c k) &&
  lang c (t.filter (fun k => !transparent c k))

/-- the messages of a trace of pieces: a fragmented message counts once, when its tail arrives -/
def kinds (ms : List Msg) : List MsgKind :=
  (ms.filter (fun m => !(m.part == .head && m.kind.isHandshake))).map (·.kind)

/-! ## Post-handshake traffic (RFC side)

  Written from RFC 8446 §4.6 (NewSessionTicket to the client only; post-handshake authentication:
  CertificateRequest only to a client that offered post_handshake_auth, the client's answer
  Certificate [CertificateVerify] Finished "MUST appear consecutively on the wire with no
  intervening messages of other types"; KeyUpdate either way), RFC 5246 §7.4.1.1/§7.2.2 (a
  renegotiation request may be ignored or refused with a no_renegotiation warning), RFC 6520
  (heartbeat once negotiated), and the close_notify exchange (RFC 5246 §7.2.1 / RFC 8446 §6.1:
  after sending close_notify an endpoint discards what still arrives until the peer's alert).
  Not derived from `stepDone`/`stepPha`/`stepClosing`. -/

/-- position in the post-handshake protocol; `n` = CertificateRequests of the server still unanswered -/
inductive PSt
  | idle (n : Nat)
  /-- inside the client's authentication flight -/
  | wantCV (n : Nat)
  | wantFin (n : Nat)
  /-- close_notify sent, waiting for the peer's -/
  | closing (n : Nat)
  /-- an alert arrived: the connection is over, nothing that follows is looked at -/
  | ended
  deriving DecidableEq, Repr, Inhabited

inductive EvKind
  | msg (k : MsgKind)
  | requestPha
  | close
  deriving DecidableEq, Repr, Inhabited

/-- is this event permitted at this point of an established connection, and where does it lead -/
def postSpec (c : Cfg) : PSt → EvKind → Option PSt
  | .ended, _ => some .ended
  -- local actions
  | .idle n, .requestPha =>
      -- a CertificateRequest may only go to a client that offered post_handshake_auth (§4.6.2)
      some (if c.isTls13 && c.role == .server && c.keypair then .idle (n + 1) else .idle n)
  | .idle n, .close => some (.closing n)
  | p, .requestPha => some p
  | p, .close => some p
  -- incoming
  | .idle n, .msg k =>
      if k.isAlert then some .ended
      else if k == .app_data || k == .empty_app_data then some (.idle n)
      else if k == .heartbeat then (if c.hb then some (.idle n) else none)
      else if c.isTls13 then
        if k == .key_update then some (.idle n)
        else if c.role == .client then
          if k == .new_session_ticket then some (.idle n)
          else if k == .certificate_request then (if c.keypair then some (.idle n) else none)
          else none
        else if (k == .certificate || (k == .compressed_certificate && c.compCert)) && n > 0 then
          some (if c.keypair then .wantCV (n - 1) else .wantFin (n - 1))
        else none
      else if renegAttempt c k then some (.idle n)
      else none
  | .wantCV n, .msg k =>
      if k.isAlert then some .ended
      else if k == .heartbeat then (if c.hb then some (.wantCV n) else none)
      else if k == .certificate_verify then some (.wantFin n) else none
  | .wantFin n, .msg k =>
      if k.isAlert then some .ended
      else if k == .heartbeat then (if c.hb then some (.wantFin n) else none)
      else if k == .finished then some (.idle n) else none
  | .closing n, .msg k =>
      if k.isAlert then some .ended
      else if k == .app_data || k == .empty_app_data then some (.closing n)
      else if k == .heartbeat then (if c.hb then some (.closing n) else none)
      else if c.isTls13 then
        if k == .key_update then some (.closing n)
        else if k == .new_session_ticket && c.role == .client then some (.closing n)
        else none
      else if renegAttempt c k then some (.closing n)
      else none

def postRun (c : Cfg) : PSt → List EvKind → Option PSt
  | p, [] => some p
  | p, e :: es => match postSpec c p e with
    | none => none
    | some p' => postRun c p' es

/-- the events of a trace as the grammar sees them: a fragmented message counts once, at its tail -/
def evKinds : List Ev → List EvKind
  | [] => []
  | .msg m :: es => if m.part == .head && m.kind.isHandshake then evKinds es else .msg m.kind :: evKinds es
  | .requestPha :: es => .requestPha :: evKinds es
  | .close :: es => .close :: evKinds es

/-- `es` is a (prefix of a) permitted post-handshake event sequence with `n` requests outstanding -/
def postAllowed (c : Cfg) (n : Nat) (es : List Ev) : Bool := (postRun c (.idle n) (evKinds es)).isSome

/-! ## Encoding for the driver -/

def Role.ofName : String → Option Role
  | "client" => some .client | "server" => some .server | _ => none
def Ver.ofName : String → Option Ver
  | "ssl3" => some .ssl3 | "tls" => some .tls | "tls13" => some .tls13 | _ => none
def Kx.ofName : String → Option Kx
  | "rsa" => some .rsa | "dhe" => some .dhe | "ecdhe" => some .ecdhe | "srp" => some .srp
  | "srpcert" => some .srpCert | "anon" => some .anon | "psk" => some .psk | _ => none
def Resume.ofName : String → Option Resume
  | "none" => some .none | "sessionid" => some .sessionId | "ticket" => some .ticket | _ => none
def boolOfName : String → Option Bool
  | "0" => some false | "1" => some true | _ => none

/-- `role,ver,kx,reqCert,clientCert,tickets,npn,hrr,resume,compCert,hb,compat,keypair` -/
def Cfg.ofString (s : String) : Option Cfg :=
  match s.splitOn "," with
  | [a, b, c, d, e, f, g, h, i, j, k, l, kp] => do
    pure { role := ← Role.ofName a, ver := ← Ver.ofName b, kx := ← Kx.ofName c,
           reqCert := ← boolOfName d, clientCert := ← boolOfName e, tickets := ← boolOfName f,
           npn := ← boolOfName g, hrr := ← boolOfName h, resume := ← Resume.ofName i,
           compCert := ← boolOfName j, hb := ← boolOfName k, compat := ← boolOfName l,
           keypair := ← boolOfName kp }
  | _ => none

/-- `kind`, `kind:epoch`, optionally followed by `+` (more handshake bytes in the record) and
    `<` (head of the message) or `>` (tail): `finished:1+`, `key_update:1<`, `key_update:2>+` -/
def Msg.ofString (s : String) : Option Msg :=
  let cs := s.toList
  let part := if cs.contains '<' then Part.head else if cs.contains '>' then Part.tail else Part.whole
  let plus := cs.contains '+'
  let core := String.ofList (cs.filter (fun ch => ch != '+' && ch != '<' && ch != '>'))
  match core.splitOn ":" with
  | [k] => do pure { kind := ← MsgKind.ofName k, epoch := 0, plus := plus, part := part }
  | [k, e] => do pure { kind := ← MsgKind.ofName k, epoch := ← e.toNat?, plus := plus, part := part }
  | _ => none

/-- `!pha` (request_post_handshake_auth), `!close`, or a piece -/
def Ev.ofString (s : String) : Option Ev :=
  if s == "!pha" then some .requestPha
  else if s == "!close" then some .close
  else (Msg.ofString s).map .msg

end Tls.Order
