/-
  Vocabulary of the generated description of the resumption code (translate/gen_resume.py).
  A guard is a condition over named atoms (closed vocabulary; anything the translator does not
  recognise becomes `Atom.unknown text`, which no theorem about the generated data survives)
  and what the code does when the condition holds.
-/
namespace Tls.Resume

inductive Atom where
  -- `_serverGetClientHello`, resumption block
  | helloSid            -- clientHello.session_id
  | hasCache            -- sessionCache
  | ticketExt           -- ticket_ext
  | ticketNonEmpty      -- ticket_ext.ticket
  | sessionFound        -- session
  | resumable           -- session.resumable
  | suiteAllowed        -- session.cipherSuite in cipherSuites
  | suiteOffered        -- session.cipherSuite in clientHello.cipher_suites
  | helloSrp            -- clientHello.srp_username
  | sessSrp             -- session.srpUsername
  | srpEqual            -- clientHello.srp_username == bytearray(session.srpUsername, 'utf-8')
  | helloSni            -- clientHello.server_name
  | sessSni             -- session.serverName
  | sniEqual            -- clientHello.server_name == bytearray(session.serverName, 'utf-8')
  | sessEtm             -- session.encryptThenMAC
  | helloEtm            -- clientHello.getExtension(ExtensionType.encrypt_then_mac)
  | sessEms             -- session.extendedMasterSecret
  | helloEms            -- clientHello.getExtension(ExtensionType.extended_master_secret)
  -- `_ticket_to_session`, `_tryDecrypt`, TLS 1.3 PSK loop
  | ticketOpened        -- ticket   (what `_tryDecrypt` returned)
  | expired             -- ticket.creation_time + settings.ticketLifetime < time.time()
  | matched             -- match
  | versionEqual        -- self.version == ticket.protocol_version
  | hashEqual           -- psk_hash == prf_name
  | pskExt              -- psks
  | helloDhe            -- PskKeyExchangeMode.psk_dhe_ke in psk_types.modes
  | helloKe             -- PskKeyExchangeMode.psk_ke in psk_types.modes
  | hasPskConfigs       -- settings.pskConfigs
  | hasTicketKeys       -- settings.ticketKeys
  | unknown (text : String)
deriving DecidableEq, Repr

inductive Cond where
  | atom (a : Atom)
  | not (c : Cond)
  | and (a b : Cond)
  | or (a b : Cond)
deriving DecidableEq, Repr

inductive Effect where
  | full                      -- raise KeyError() / session = None : carry on with a full handshake
  | alert (name : String)     -- _sendError(AlertDescription.<name>)
  | assertionError            -- raise AssertionError()
  | skip                      -- continue (next PSK identity)
  | none                      -- return None
  | unknown (text : String)
deriving DecidableEq, Repr

structure Guard where
  cond : Cond
  effect : Effect
deriving DecidableEq, Repr

/-- ordered events of the body of the TLS 1.3 PSK loop -/
inductive PskEvent where
  | assign (target : String)                 -- plain assignment
  | decrypt                                  -- (match, ticket) = self._tryDecrypt(settings, ident)
  | guard (g : Guard)                        -- if …: continue
  | condAssign (c : Cond) (target : String)  -- if c: target = …
  | binder (alert : String)                  -- try: verify_binder(…) except …: _sendError(alert)
  | brk
  | beginIf (c : Cond)                       -- if c:  (events up to the matching endIf are its body)
  | endIf
  | unknown (text : String)
deriving DecidableEq, Repr

end Tls.Resume
