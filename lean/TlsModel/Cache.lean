import TlsModel.Basic
/-
  C18 — model of `tlslite/sessioncache.py` (class SessionCache), statement by statement,
  and the abstract specification it is proved against (Props/C18.lean).

  Representation kept as in the code:
    entriesDict   : association list  sessionID -> session          (`dict`)
    entriesCount  : association list  sessionID -> number of ring entries (`count`)
    entriesList   : circular list of (sessionID, timestamp) or (None, None)  (`ring`)
    firstIndex / lastIndex / maxAge
  `time.time()` is a parameter `now` of each operation (the harness patches the clock).
  A session is a handle (`Sess`); `session.valid()` is a predicate supplied from outside (the
  caller may flip `resumable` at any time).
  Python exceptions are explicit: `Err.keyError` is the KeyError a lookup is allowed to raise;
  every other constructor is an internal error (KeyError inside `_remove`, IndexError,
  TypeError on a `(None, None)` slot, ZeroDivisionError for `% len([])`).
  An operation that raises leaves the partially updated object behind, as in Python.
-/
namespace Tls.Cache

abbrev Id := Nat
abbrev Sess := Nat


inductive Err
  | keyError          -- the documented "not in cache" answer of `__getitem__`
  | removeKeyError    -- KeyError raised inside `_remove` (count or dict entry missing)
  | indexError        -- list index out of range
  | noneSlot          -- a `(None, None)` slot of the circular list was used as an entry
  | zeroDivision      -- `% len(self.entriesList)` with an empty list
  | fuel              -- the purge loop did not terminate within len(entriesList) rounds
  deriving DecidableEq, Repr

/-! ### Python dict as association list (keys unique, functional update) -/

def alookup {α : Type} (k : Id) : List (Id × α) → Option α
  | [] => none
  | (k', v) :: r => if k' = k then some v else alookup k r

def aerase {α : Type} (k : Id) : List (Id × α) → List (Id × α)
  | [] => []
  | (k', v) :: r => if k' = k then aerase k r else (k', v) :: aerase k r

/-- `d[k] = v` -/
def ainsert {α : Type} (k : Id) (v : α) (l : List (Id × α)) : List (Id × α) :=
  (k, v) :: aerase k l

structure Cache where
  dict   : List (Id × Sess)
  count  : List (Id × Int)
  ring   : List (Option (Id × Int))
  first  : Nat
  last   : Nat
  maxAge : Int
  deriving Repr

/-- `SessionCache(maxEntries, maxAge)` -/
def Cache.new (maxEntries : Nat) (maxAge : Int) : Cache :=
  { dict := [], count := [], ring := List.replicate maxEntries none,
    first := 0, last := 0, maxAge := maxAge }

/-- `_remove(sessionID)`:
      self.entriesCount[sessionID] -= 1
      if not self.entriesCount[sessionID]:
          del(self.entriesCount[sessionID]); del(self.entriesDict[sessionID]) -/
def Cache.remove (c : Cache) (id : Id) : Cache × Option Err :=
  match alookup id c.count with
  | none => (c, some .removeKeyError)
  | some n =>
    let c1 := { c with count := ainsert id (n - 1) c.count }
    if n - 1 = 0 then
      let c2 := { c1 with count := aerase id c1.count }
      match alookup id c2.dict with
      | none => (c2, some .removeKeyError)
      | some _ => ({ c2 with dict := aerase id c2.dict }, none)
    else (c1, none)

/-- the `while index != self.lastIndex` loop of `_purge`; `fuel` bounds the rounds.
    Returns the object and the final `index` (or the error). -/
def Cache.purgeLoop (now : Int) : Nat → Cache → Nat → Cache × Except Err Nat
  | fuel, c, index =>
    if index = c.last then (c, .ok index)
    else match fuel with
      | 0 => (c, .error .fuel)
      | fuel + 1 =>
        match c.ring[index]? with
        | none => (c, .error .indexError)
        | some none => (c, .error .noneSlot)
        | some (some (id, t)) =>
          if now - t > c.maxAge then
            match c.remove id with
            | (c1, some e) => (c1, .error e)
            | (c1, none) =>
              if c1.ring.length = 0 then (c1, .error .zeroDivision)
              else purgeLoop now fuel c1 ((index + 1) % c1.ring.length)
          else (c, .ok index)

/-- `_purge()` with `time.time() = now` -/
def Cache.purge (c : Cache) (now : Int) : Cache × Option Err :=
  match c.purgeLoop now c.ring.length c.first with
  | (c1, .error e) => (c1, some e)
  | (c1, .ok index) => ({ c1 with first := index }, none)

/-- `__getitem__(sessionID)` with `time.time() = now` and `session.valid() = valid session` -/
def Cache.getitem (valid : Sess → Bool) (c : Cache) (id : Id) (now : Int) : Cache × Except Err Sess :=
  match c.purge now with
  | (c1, some e) => (c1, .error e)
  | (c1, none) =>
    match alookup id c1.dict with
    | none => (c1, .error .keyError)
    | some s => if valid s then (c1, .ok s) else (c1, .error .keyError)

/-- `__setitem__(sessionID, session)` with `time.time() = now` -/
def Cache.setitem (c : Cache) (id : Id) (s : Sess) (now : Int) : Cache × Option Err :=
  let c1 := { c with dict := ainsert id s c.dict }
  let c2 := { c1 with count := ainsert id ((alookup id c1.count).getD 0 + 1) c1.count }  -- .get(id, 0) + 1
  if c2.ring.length ≤ c2.last then (c2, some .indexError) else
  let c3 := { c2 with ring := c2.ring.set c2.last (some (id, now)) }
  if c3.ring.length = 0 then (c3, some .zeroDivision) else
  let c4 := { c3 with last := (c3.last + 1) % c3.ring.length }
  if c4.last = c4.first then
    match c4.ring[c4.first]? with
    | none => (c4, some .indexError)
    | some none => (c4, some .noneSlot)
    | some (some (id0, _)) =>
      match c4.remove id0 with
      | (c5, some e) => (c5, some e)
      | (c5, none) => ({ c5 with first := (c5.first + 1) % c5.ring.length }, none)
  else (c4, none)

/-- number of live entries of the circular list (from firstIndex up to lastIndex) -/
def Cache.liveLen (c : Cache) : Nat :=
  if c.ring.length = 0 then 0 else (c.last + c.ring.length - c.first) % c.ring.length

/-! ### Histories -/

inductive Op
  | set (id : Id) (t : Int) (s : Sess)   -- cache[id] = s at clock t
  | get (id : Id) (t : Int)              -- cache[id] at clock t
  | inval (s : Sess)                      -- the caller makes session s non-resumable
  deriving DecidableEq, Repr

inductive Out
  | done                 -- store / invalidate finished
  | sess (s : Sess)      -- lookup returned session s
  | keyError             -- lookup raised KeyError
  | internal (e : Err)   -- anything else escaped
  deriving DecidableEq, Repr

structure ImplState where
  cache : Cache
  inval : List Sess

def ImplState.step (st : ImplState) : Op → ImplState × Out
  | .set id t s =>
    match st.cache.setitem id s t with
    | (c, none) => ({ st with cache := c }, .done)
    | (c, some e) => ({ st with cache := c }, .internal e)
  | .get id t =>
    match st.cache.getitem (fun s => !st.inval.contains s) id t with
    | (c, .ok s) => ({ st with cache := c }, .sess s)
    | (c, .error .keyError) => ({ st with cache := c }, .keyError)
    | (c, .error e) => ({ st with cache := c }, .internal e)
  | .inval s => ({ st with inval := s :: st.inval }, .done)

def runImplFrom (st : ImplState) : List Op → ImplState × List Out
  | [] => (st, [])
  | op :: ops =>
    let (st1, o) := st.step op
    let (st2, os) := runImplFrom st1 ops
    (st2, o :: os)

def runImpl (maxEntries : Nat) (maxAge : Int) (ops : List Op) : List Out :=
  (runImplFrom { cache := Cache.new maxEntries maxAge, inval := [] } ops).2

/-! ### Specification: a time-stamped log of stores

  `get id now` returns the session last stored under `id` iff fewer than `maxEntries - 1`
  stores came after it (capacity of the circular list), it is not older than `maxAge`
  (`now - t > maxAge` is "older"), and it is still valid; otherwise KeyError. -/

structure Entry where
  id : Id
  t : Int
  sess : Sess
  deriving DecidableEq, Repr

/-- newest store under `id` in an oldest-first log, with the number of stores after it -/
def lastStore : List Entry → Id → Option (Nat × Entry)
  | [], _ => none
  | e :: es, id =>
    match lastStore es id with
    | some r => some r
    | none => if e.id = id then some (es.length, e) else none

structure SpecState where
  log : List Entry      -- oldest first
  inval : List Sess

def specGet (maxEntries : Nat) (maxAge : Int) (st : SpecState) (id : Id) (now : Int) : Out :=
  match lastStore st.log id with
  | none => .keyError
  | some (after, e) =>
    if after + 1 < maxEntries ∧ ¬ (now - e.t > maxAge) ∧ ¬ (e.sess ∈ st.inval) then .sess e.sess
    else .keyError

def SpecState.step (maxEntries : Nat) (maxAge : Int) (st : SpecState) : Op → SpecState × Out
  | .set id t s => ({ st with log := st.log ++ [⟨id, t, s⟩] }, .done)
  | .get id t => (st, specGet maxEntries maxAge st id t)
  | .inval s => ({ st with inval := s :: st.inval }, .done)

def runSpecFrom (maxEntries : Nat) (maxAge : Int) (st : SpecState) : List Op → SpecState × List Out
  | [] => (st, [])
  | op :: ops =>
    let (st1, o) := st.step maxEntries maxAge op
    let (st2, os) := runSpecFrom maxEntries maxAge st1 ops
    (st2, o :: os)

def runSpec (maxEntries : Nat) (maxAge : Int) (ops : List Op) : List Out :=
  (runSpecFrom maxEntries maxAge { log := [], inval := [] } ops).2

/-- clock readings of a history, in order -/
def opTimes : List Op → List Int
  | [] => []
  | .set _ t _ :: r => t :: opTimes r
  | .get _ t :: r => t :: opTimes r
  | .inval _ :: r => opTimes r

/-- the clock never goes back -/
def ClockMonotone (ops : List Op) : Prop := (opTimes ops).Pairwise (· ≤ ·)

instance (ops : List Op) : Decidable (ClockMonotone ops) := by
  unfold ClockMonotone; exact inferInstance

end Tls.Cache
