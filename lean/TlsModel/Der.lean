import TlsModel.Rsa
/-
  The DER helpers of python-ecdsa (`ecdsa/der.py`, version 0.19) that python_dsakey.py calls:
  `encode_integer`, `encode_length`, `encode_sequence`, `read_length`, `remove_sequence`,
  `remove_integer`.  External library code: transliterated so that the DSA model is complete at
  the byte level; tied to the installed library by correspondence (not to /repo).
  Every `raise UnexpectedDER(...)` is `.error ()`.
-/
namespace Tls.Der
open Tls Tls.Rsa

/-- `binascii.unhexlify` of the even-length hex of `n`: minimal big-endian bytes, one zero byte for 0 -/
def hexBytes (n : Nat) : Bytes := if n = 0 then [0] else beEncode (numBytes n) n

/-- `encode_length(l)` -/
def encodeLength (l : Nat) : Bytes :=
  if l < 0x80 then [UInt8.ofNat l]
  else
    let s := hexBytes l
    UInt8.ofNat (0x80 ||| s.length) :: s

/-- `encode_integer(r)` for `r ≥ 0` -/
def encodeInteger (r : Nat) : Bytes :=
  let s := hexBytes r
  match s with
  | [] => 0x02 :: encodeLength 0
  | b :: _ =>
    if b.toNat ≤ 0x7F then 0x02 :: (encodeLength s.length ++ s)
    else 0x02 :: (encodeLength (s.length + 1) ++ 0x00 :: s)

/-- `encode_sequence(*pieces)` -/
def encodeSequence (pieces : List Bytes) : Bytes :=
  let total := (pieces.map List.length).foldl (· + ·) 0
  0x30 :: (encodeLength total ++ pieces.flatten)

/-- `read_length(string)` → (length, number of bytes read) -/
def readLength (s : Bytes) : Except Unit (Nat × Nat) :=
  match s with
  | [] => .error ()
  | num :: rest =>
    if num.toNat &&& 0x80 = 0 then .ok (num.toNat &&& 0x7F, 1)
    else
      let llen := num.toNat &&& 0x7F
      if llen = 0 then .error ()
      else if llen > s.length - 1 then .error ()
      else
        match rest with
        | [] => .error ()
        | msb :: _ =>
          if msb.toNat = 0 ∨ (llen = 1 ∧ msb.toNat < 0x80) then .error ()
          else .ok (beDecode (rest.take llen), 1 + llen)

/-- `remove_sequence(string)` → (body, rest) -/
def removeSequence (s : Bytes) : Except Unit (Bytes × Bytes) :=
  match s with
  | [] => .error ()
  | t :: rest =>
    if t ≠ 0x30 then .error ()
    else
      match readLength rest with
      | .error () => .error ()
      | .ok (length, ll) =>
        if length > s.length - 1 - ll then .error ()
        else
          let endseq := 1 + ll + length
          .ok ((s.take endseq).drop (1 + ll), s.drop endseq)

/-- `remove_integer(string)` → (value, rest) -/
def removeInteger (s : Bytes) : Except Unit (Nat × Bytes) :=
  match s with
  | [] => .error ()
  | t :: rest =>
    if t ≠ 0x02 then .error ()
    else
      match readLength rest with
      | .error () => .error ()
      | .ok (length, llen) =>
        if length > s.length - 1 - llen then .error ()
        else if length = 0 then .error ()
        else
          let numberbytes := (s.take (1 + llen + length)).drop (1 + llen)
          let rest' := s.drop (1 + llen + length)
          match numberbytes with
          | [] => .error ()
          | msb :: more =>
            if ¬ msb.toNat < 0x80 then .error ()
            else if length > 1 ∧ msb.toNat = 0 ∧ (more.head?.map (fun smsb => decide (smsb.toNat < 0x80))).getD false = true then .error ()
            else .ok (beDecode numberbytes, rest')

end Tls.Der
