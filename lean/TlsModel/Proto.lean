import TlsModel.Basic
/-
  Line protocol: one request per line (`op arg ...`, byte strings in hex, `-` = empty),
  one reply line. Unknown or malformed requests reply `bad-op`; a model never defaults.
-/
namespace Tls

partial def protoLoop (h : IO.FS.Stream) (out : IO.FS.Stream)
    (handle : List String → Option String) : IO Unit := do
  let line ← h.getLine
  if line.isEmpty then
    out.flush
    return ()
  let toks := (line.trimAscii.toString.splitOn " ").filter (· ≠ "")
  match handle toks with
  | some r => out.putStrLn r
  | none => out.putStrLn "bad-op"
  out.flush
  protoLoop h out handle

def protoMain (handle : List String → Option String) : IO Unit := do
  protoLoop (← IO.getStdin) (← IO.getStdout) handle

/-- stateful variant: the handler threads a state through the lines -/
partial def protoLoopS {σ : Type} (h : IO.FS.Stream) (out : IO.FS.Stream)
    (handle : σ → List String → σ × Option String) (s : σ) : IO Unit := do
  let line ← h.getLine
  if line.isEmpty then
    out.flush
    return ()
  let toks := (line.trimAscii.toString.splitOn " ").filter (· ≠ "")
  let (s', r) := handle s toks
  match r with
  | some r => out.putStrLn r
  | none => out.putStrLn "bad-op"
  out.flush
  protoLoopS h out handle s'

def protoMainS {σ : Type} (handle : σ → List String → σ × Option String) (init : σ) : IO Unit := do
  protoLoopS (← IO.getStdin) (← IO.getStdout) handle init

def boolOut (b : Bool) : String := if b then "true" else "false"

end Tls
