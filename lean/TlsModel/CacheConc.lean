import TlsModel.Cache
import TlsModel.Conc
/-
  C18 — the cache as a shared object of the concurrent-program semantics (TlsModel/Conc.lean):
  shared state = the SessionCache model + the wall clock; a call reads the clock inside its
  critical section (`time.time()` is called under the lock in `__setitem__` and `_purge`), so the
  readings are monotone in lock order: each call carries the non-negative distance `dt` the clock
  has moved since the previous reading.
-/
namespace Tls.CacheConc
open Tls.Cache Tls.Conc

inductive COp
  | set (id : Id) (dt : Nat) (s : Sess)
  | get (id : Id) (dt : Nat)
  deriving DecidableEq, Repr

def COp.dt : COp → Nat
  | .set _ dt _ => dt
  | .get _ dt => dt

def COp.toOp (now : Int) : COp → Op
  | .set id _ s => .set id now s
  | .get id _ => .get id now

structure Shared where
  st : ImplState
  clock : Int

/-- sequential model of one call -/
def stepD (o : COp) (x : Shared) : Shared × Out :=
  let now := x.clock + (o.dt : Int)
  let r := x.st.step (o.toOp now)
  ({ st := r.1, clock := now }, r.2)

/-- one completed call in a serial history -/
structure Event where
  thread : Nat
  call : COp
  now : Int
  out : Out

def Event.op (e : Event) : Op := e.call.toOp e.now

def ofThread (t : Nat) (hist : List Event) : List Event := hist.filter (fun e => e.thread == t)

end Tls.CacheConc
