import TlsModel.Basic
/-
  Conn — the connection data plane of tlslite/tlsrecordlayer.py after a handshake
  (shared by C16 and C17), plus the I/O skeleton of a handshake for transport faults.

  Two endpoints, two FIFO channels of typed records.  Traffic keys are abstracted to a
  *generation* number per direction: KeyUpdate derives generation n+1 from n
  (recordlayer.py `_calcTLS1_3KeyUpdate`); a record protected under generation g is
  accepted only by a reader whose read generation is g (the record-layer property C02),
  otherwise the reader answers bad_record_mac.  Messages are atomic (one record each).

  Every operation is a function `Local → Res α × Local` where `Local` is what one endpoint can
  touch: itself, its incoming channel, its outgoing channel.  The order of effects mirrors the
  Python statement order.
-/
namespace Tls.Conn

/-- exception classes, exactly the enum of `harness.lab.exc_class` -/
inductive Exc where
  | localAlert (d : Nat)
  | remoteAlert (d : Nat)
  | abruptClose
  | closedConn
  | socketError
  | internalError      -- TLSInternalError (heartbeat request not permitted by the mode)
  | illegalParam       -- TLSIllegalParameterException (KeyUpdate outside TLS 1.3)
  | valueError         -- ValueError (PHA preconditions)
  | fuel               -- model ran out of fuel (never with the fuel the ops supply)
deriving DecidableEq, Repr, Inhabited

def Exc.str : Exc → String
  | .localAlert d => s!"local_alert:{d}"
  | .remoteAlert d => s!"remote_alert:{d}"
  | .abruptClose => "abrupt_close"
  | .closedConn => "closed_connection"
  | .socketError => "socket_error"
  | .internalError => "tls_error:TLSInternalError"
  | .illegalParam => "python:TLSIllegalParameterException"
  | .valueError => "python:ValueError"
  | .fuel => "model:fuel"

inductive Res (α : Type) where
  | ok (a : α)
  | stall              -- generator waits for input that is not there
  | err (e : Exc)
deriving Repr

/-- typed records -/
inductive Msg where
  | appData (d : Bytes)
  | keyUpdate (v : Nat)                          -- well-formed KeyUpdate with request byte v
  | newSessionTicket
  | certRequest (ctx : Nat) (sigAlgs : Nat)        -- signature_algorithms: 0 usable, 1 empty, 2 none usable with the client's key
  | certificate (ctx : Nat) (chain : Nat)        -- ctx 0 = empty context, chain 0 = empty list
  | certVerify (advertised consistent sigOk : Bool)
  | finished (ok : Bool)
  | hsOther (t : Nat)                            -- another handshake type (0 hello_request, 1 client_hello, ...)
  | hsMalformed (t : Nat)                        -- handshake type t whose body does not parse
  | kuCoalesced (v : Nat)                        -- KeyUpdate followed by more handshake bytes in the same record
  | heartbeat (mt : Nat) (payload : Bytes) (padLen : Nat)
  | heartbeatBad                                 -- Heartbeat().parse raises SyntaxError
  | alert (level desc : Nat)
  | ccs
  | emptyRec                                     -- zero-length record of a non-application type
  | unknownCt                                    -- content type outside ContentType.all
deriving DecidableEq, Repr, Inhabited

/-- record content type -/
def Msg.ct : Msg → Nat
  | .appData _ => 23
  | .keyUpdate _ | .newSessionTicket | .certRequest .. | .certificate .. | .certVerify ..
  | .finished _ | .hsOther _ | .hsMalformed _ | .kuCoalesced _ => 22
  | .heartbeat .. | .heartbeatBad => 24
  | .alert .. => 21
  | .ccs => 20
  | .emptyRec => 22
  | .unknownCt => 99

/-- handshake type byte (only meaningful when `ct = 22`) -/
def Msg.hsType : Msg → Nat
  | .keyUpdate _ => 24
  | .newSessionTicket => 4
  | .certRequest .. => 13
  | .certificate .. => 11
  | .certVerify .. => 15
  | .finished _ => 20
  | .hsOther t => t
  | .hsMalformed t => t
  | .kuCoalesced _ => 24
  | _ => 255

structure Rec where
  gen : Nat
  msg : Msg
deriving DecidableEq, Repr, Inhabited

structure Chan where
  recs : List Rec := []
  eof : Bool := false        -- the writer's socket is closed: reader sees EOF after the records
deriving Repr, Inhabited

structure End where
  isClient : Bool
  ver13 : Bool                       -- negotiated version is (3,4)
  closed : Bool := false
  resumable : Bool := true           -- session.resumable
  readBuf : Bytes := []
  readGen : Nat := 0
  writeGen : Nat := 0
  certReqs : List Nat := []          -- keys of _cert_requests
  nextCtx : Nat := 1
  hasKeypair : Bool := false         -- _client_keypair
  myChain : Nat := 0                 -- the chain in _client_keypair
  phaSupported : Bool := false       -- _pha_supported (server)
  hbSupported : Bool := false
  hbCanSend : Bool := false
  hbCanRecv : Bool := false
  hbCallback : Bool := false
  closeSocket : Bool := true
  ignoreAbruptClose : Bool := false
  certRequired : Bool := false       -- client_cert_required
  phaTamper : Nat := 0               -- faulty client: 1 bad signature, 2 bad Finished, 3 no CertificateVerify,
                                     -- 4 unadvertised algorithm, 5 inconsistent algorithm, 6 empty context, 7 wrong context
  recordSize : Nat := 16384
  beastSplit : Bool := false         -- version <= TLS1.0 and CBC: 1/n-1 split
  tickets : Nat := 0
  chainSet : Bool := false           -- session.clientCertChain assigned post-handshake
  clientChain : Nat := 0
  hbLog : List (Bytes × Nat) := []   -- heartbeat_response_callback invocations (payload, padding length)
  wrote : Bytes := []                -- observer: application bytes handed to the transport by write
  closing : Bool := false            -- observer: closeAsync is waiting for the peer's close_notify
  refCount : Int := 1                -- `_refCount`: 1 after the handshake, +1 per makefile(), -1 per close()
  got : Bytes := []                  -- observer: application bytes returned by read
  txDead : Bool := false             -- transport: every send fails
  rxDead : Nat := 0                  -- transport: 1 EOF / 2 reset once the in-flight records are consumed
deriving Repr, Inhabited

structure Local where
  me : End
  inc : Chan
  out : Chan
deriving Repr, Inhabited

abbrev M (α : Type) := Local → Res α × Local

/-! ### primitives -/

/-- `_shutdown(resumable)` -/
def shutdown (resumable : Bool) (l : Local) : Local :=
  { l with
    me := { l.me with closed := true, resumable := l.me.resumable && resumable }
    out := if l.me.closeSocket then { l.out with eof := true } else l.out }

/-- one record handed to the socket under the current write generation.  (No code path sends
    after `_shutdown`, which also resets the record layer; the model refuses it.) -/
def sendRaw (m : Msg) (l : Local) : Option Local :=
  if l.me.txDead || l.me.closed then none
  else some { l with out := { l.out with recs := l.out.recs ++ [⟨l.me.writeGen, m⟩] } }

/-- `_sendError`: fatal alert, `_shutdown(False)`, raise TLSLocalAlert (socket error if the alert
    cannot be sent: an alert record is not of handshake type, `_sendMsgThroughSocket` re-raises) -/
def sendError {α : Type} (d : Nat) : M α := fun l =>
  match sendRaw (.alert 2 d) l with
  | some l1 => (.err (.localAlert d), shutdown false l1)
  | none => (.err .socketError, l)

/-- `_getNextRecordFromSocket` (+ `_getNextRecord`, messages being atomic) -/
def nextRecord : M Msg := fun l =>
  match l.inc.recs with
  | [] =>
    if l.inc.eof || l.me.rxDead == 1 then (.err .abruptClose, l)
    else if l.me.rxDead == 2 then (.err .socketError, l)
    else (.stall, l)
  | r :: rest =>
    let l1 := { l with inc := { l.inc with recs := rest } }
    if r.gen != l.me.readGen then sendError 20 l1          -- TLSBadRecordMAC
    else match r.msg with
      | .emptyRec => sendError 10 l1
      | .unknownCt => sendError 10 l1
      | m => (.ok m, l1)

/-- `_sendMsgThroughSocket` for one record.  A failed send of a handshake-type record while the
    handshake is in progress (`self.closed` still set) looks for an alert from the peer
    (`_getNextRecord`, `_shutdown(False)`, raise it if it is one, otherwise re-raise); after the
    handshake a handshake-type record that cannot be sent closes the connection
    (`_shutdown(False)`) and re-raises; other types just re-raise (`writeAsync` / `write_heartbeat`
    close for application data / heartbeat requests; a heartbeat response is best effort). -/
def sendMsg (m : Msg) : M Unit := fun l =>
  match sendRaw m l with
  | some l1 => (.ok (), l1)
  | none =>
    if m.ct == 22 && l.me.closed then
      match nextRecord l with
      | (.ok r, l1) =>
        let l2 := shutdown false l1
        match r with
        | .alert _ d => (.err (.remoteAlert d), l2)
        | _ => (.err .socketError, l2)
      | (.stall, l1) => (.stall, l1)
      | (.err e, l1) => (.err e, l1)
    else if m.ct == 22 then (.err .socketError, shutdown false l)
    else (.err .socketError, l)

/-- the `while len(buf) > recordSize` loop of `_sendMsg` on application data -/
def fragments (limit : Nat) : Nat → Bytes → List Bytes
  | 0, d => [d]
  | f+1, d => if d.length > limit then d.take limit :: fragments limit f (d.drop limit) else [d]

/-- records of one `_sendMsg(ApplicationData)`, with the 1/n-1 split for CBC in SSLv3/TLS1.0 -/
def appRecords (e : End) (d : Bytes) : List Bytes :=
  if e.beastSplit then
    if d.length ≤ 1 then [d.take 1]
    else d.take 1 :: fragments e.recordSize d.length (d.drop 1)
  else fragments e.recordSize d.length d

def sendAll : List Bytes → M Unit
  | [] => fun l => (.ok (), l)
  | d :: ds => fun l =>
    match sendMsg (.appData d) l with
    | (.ok (), l1) => sendAll ds { l1 with me := { l1.me with wrote := l1.me.wrote ++ d } }
    | r => r

/-! ### `_getMsg` -/

inductive Step where
  | again
  | got (m : Msg)

/-- the handshake type that is a renegotiation attempt: hello_request for a client, client_hello for a server -/
def renegType (isClient : Bool) : Nat := if isClient then 0 else 1

/-- one round of the `while 1` loop of `_getMsg(expected, secondary)` -/
def getMsgStep (expected secondary : List Nat) : M Step := fun l =>
  match nextRecord l with
  | (.stall, l1) => (.stall, l1)
  | (.err e, l1) => (.err e, l1)
  | (.ok m, l1) =>
    if !expected.contains m.ct then
      match m with
      | .alert lvl d =>
        if lvl == 1 || d == 0 then
          -- answer with close_notify, ignoring socket errors
          let l2 := (sendRaw (.alert 1 0) l1).getD l1
          if d == 0 then (.err (.remoteAlert d), shutdown true l2)
          else (.err (.remoteAlert d), shutdown false l2)
        else (.err (.remoteAlert d), shutdown false l1)
      | _ =>
        if m.ct == 22 && m.hsType == renegType l1.me.isClient && !l1.me.closed then
          -- renegotiation attempt: warning no_renegotiation, try again
          match sendRaw (.alert 1 100) l1 with
          | some l2 => (.ok .again, l2)
          | none => (.err .socketError, l1)
        else if m.ct == 24 && l1.me.hbSupported then
          match m with
          | .heartbeat mt payload pad =>
            if mt == 1 then
              if !l1.me.hbCanRecv then sendError 10 l1
              else if pad < 16 then (.ok .again, l1)
              else (.ok .again, (sendRaw (.heartbeat 2 payload 16) l1).getD l1)   -- socket errors ignored
            else if mt == 2 && l1.me.hbCallback then
              (.ok .again, { l1 with me := { l1.me with hbLog := l1.me.hbLog ++ [(payload, pad)] } })
            else (.ok .again, l1)
          | _ => (.ok .again, l1)      -- SyntaxError swallowed
        else sendError 10 l1
    else
      match m with
      | .appData [] => (.ok .again, l1)
      | .hsMalformed t => if secondary.contains t then sendError 50 l1 else sendError 10 l1
      | .hsOther t => if secondary.contains t then sendError 50 l1 else sendError 10 l1
      | .kuCoalesced _ => sendError 10 l1       -- "KU not aligned with record boundary" (or type not allowed)
      | _ =>
        if m.ct == 22 && !secondary.contains m.hsType then sendError 10 l1
        else (.ok (.got m), l1)

def getMsg (expected secondary : List Nat) : Nat → M Msg
  | 0 => fun l => (.err .fuel, l)
  | f+1 => fun l =>
    match getMsgStep expected secondary l with
    | (.ok .again, l1) => getMsg expected secondary f l1
    | (.ok (.got m), l1) => (.ok m, l1)
    | (.stall, l1) => (.stall, l1)
    | (.err e, l1) => (.err e, l1)

/-- enough fuel for any loop that consumes one record per round -/
def fuelOf (l : Local) : Nat := l.inc.recs.length + 2

/-! ### KeyUpdate -/

/-- `send_keyupdate_request(message_type)`: send, THEN advance the own write generation -/
def sendKeyUpdate (v : Nat) : M Unit := fun l =>
  if l.me.closed then (.err .closedConn, l)
  else if !l.me.ver13 then (.err .illegalParam, l)
  else match sendMsg (.keyUpdate v) l with
    | (.ok (), l1) => (.ok (), { l1 with me := { l1.me with writeGen := l1.me.writeGen + 1 } })
    | r => r

/-- `_handle_keyupdate_request`: advance the read generation; answer if asked -/
def handleKeyUpdate (v : Nat) : M Unit := fun l =>
  if v == 0 || v == 1 then
    let l1 := { l with me := { l.me with readGen := l.me.readGen + 1 } }
    if v == 1 then sendKeyUpdate 0 l1 else (.ok (), l1)
  else sendError 47 l

/-! ### post-handshake authentication -/

/-- the three messages an (honest or faulty) client answers a CertificateRequest with -/
def phaMsgs (e : End) (ctx : Nat) : List Msg :=
  let ctx' := if e.phaTamper == 6 then 0 else if e.phaTamper == 7 then ctx + 1000 else ctx
  let cert := Msg.certificate ctx' e.myChain
  let cv := Msg.certVerify (e.phaTamper != 4) (e.phaTamper != 5) (e.phaTamper != 1)
  let fin := Msg.finished (e.phaTamper != 2)
  if e.myChain == 0 || e.phaTamper == 3 then [cert, fin] else [cert, cv, fin]

/-- `_sendMsgs`: buffered, one flush (a dead transport raises the raw socket error) -/
def sendBuffered (ms : List Msg) : M Unit := fun l =>
  if l.me.txDead || l.me.closed then (.err .socketError, l)
  else (.ok (), { l with out := { l.out with recs := l.out.recs ++ ms.map (fun m => ⟨l.me.writeGen, m⟩) } })

/-- `_handle_pha` (client) -/
def handlePha (ctx : Nat) (sigAlgs : Nat) : M Unit := fun l =>
  if l.me.myChain != 0 && sigAlgs == 1 then sendError 109 l            -- missing_extension
  else if l.me.myChain != 0 && sigAlgs != 0 then sendError 40 l       -- handshake_failure: no common algorithm
  else sendBuffered (phaMsgs l.me ctx) l

/-- second half of `_handle_srv_pha`: read and check Finished, then record the chain -/
def srvPhaFinish (chain : Nat) : M Unit := fun l2 =>
  match getMsg [22] [20] (fuelOf l2) l2 with
  | (.ok (.finished ok), l3) =>
    if !ok then sendError 51 l3
    else (.ok (), { l3 with me := { l3.me with chainSet := true, clientChain := chain } })
  | (.ok _, l3) => (.err .fuel, shutdown false l3)      -- unreachable: only Finished passes the filter
  | (.stall, l3) => (.stall, l3)
  | (.err e, l3) => (.err e, l3)

/-- `_handle_srv_pha` (server): the chain is recorded only after every check -/
def handleSrvPha (ctx chain : Nat) : M Unit := fun l =>
  if ctx == 0 then sendError 47 l
  else if !l.me.certReqs.contains ctx then sendError 47 l
  else
    let l1 := { l with me := { l.me with certReqs := l.me.certReqs.erase ctx } }
    if chain != 0 then
      match getMsg [22] [15] (fuelOf l1) l1 with
      | (.ok (.certVerify adv cons sigOk), l2) =>
        if !adv then sendError 47 l2
        else if !cons then sendError 47 l2
        else if !sigOk then sendError 51 l2
        else srvPhaFinish chain l2
      | (.ok _, l2) => (.err .fuel, shutdown false l2)      -- unreachable: only CertificateVerify passes
      | (.stall, l2) => (.stall, l2)
      | (.err e, l2) => (.err e, l2)
    else if l1.me.certRequired then sendError 116 l1
    else srvPhaFinish chain l1

/-- `request_post_handshake_auth` (the context is registered before the request is sent) -/
def requestClientAuth (sigAlgs : Nat := 0) : M Unit := fun l =>
  if l.me.closed || !l.me.ver13 then (.err .valueError, l)
  else if l.me.isClient then (.err .valueError, l)
  else if !l.me.phaSupported then (.err .valueError, l)
  else
    let ctx := l.me.nextCtx
    let l1 := { l with me := { l.me with certReqs := l.me.certReqs ++ [ctx], nextCtx := ctx + 1 } }
    sendMsg (.certRequest ctx sigAlgs) l1

/-! ### read -/

/-- handshake types `readAsync` lets through -/
def allowedHs (e : End) : List Nat :=
  if e.hasKeypair then [4, 24, 13]
  else if !e.certReqs.isEmpty then [24, 11, 25]
  else if e.isClient then [4, 24]
  else [24]

/-- one `_getMsg` + dispatch of `readAsync`; returns the new `try_once`.  `is13` / `allowed` are
    the `allowedTypes` / `allowedHsTypes` computed once at the start of `readAsync`. -/
def readIter (is13 : Bool) (allowed : List Nat) : M Bool := fun l =>
  let r := if is13 then getMsg [23, 22] allowed (fuelOf l) l
           else getMsg [23] [] (fuelOf l) l
  match r with
  | (.stall, l1) => (.stall, l1)
  | (.err e, l1) => (.err e, l1)
  | (.ok m, l1) =>
    match m with
    | .newSessionTicket => (.ok false, { l1 with me := { l1.me with tickets := l1.me.tickets + 1 } })
    | .keyUpdate v =>
      match handleKeyUpdate v l1 with
      | (.ok (), l2) => (.ok true, l2)
      | (.stall, l2) => (.stall, l2)
      | (.err e, l2) => (.err e, l2)
    | .certificate ctx chain =>
      match handleSrvPha ctx chain l1 with
      | (.ok (), l2) => (.ok false, l2)
      | (.stall, l2) => (.stall, l2)
      | (.err e, l2) => (.err e, l2)
    | .certRequest ctx sa =>
      match handlePha ctx sa l1 with
      | (.ok (), l2) => (.ok false, l2)
      | (.stall, l2) => (.stall, l2)
      | (.err e, l2) => (.err e, l2)
    | .appData d => (.ok false, { l1 with me := { l1.me with readBuf := l1.me.readBuf ++ d } })
    | _ => (.err .fuel, shutdown false l1)                  -- unreachable: filtered by `_getMsg`

/-- the `while` loop of `readAsync` with its two `except` clauses -/
def readLoop (is13 : Bool) (allowed : List Nat) (min : Nat) : Nat → Bool → M Unit
  | 0, _ => fun l => (.err .fuel, l)
  | f+1, tryOnce => fun l =>
    if (l.me.readBuf.length < min || (l.me.readBuf.isEmpty && tryOnce)) && !l.me.closed then
      match readIter is13 allowed l with
      | (.ok t, l1) => readLoop is13 allowed min f t l1
      | (.stall, l1) => (.stall, l1)
      | (.err (.remoteAlert 0), l1) => readLoop is13 allowed min f false l1     -- close_notify
      | (.err .abruptClose, l1) =>
        if l1.me.ignoreAbruptClose then readLoop is13 allowed min f false (shutdown true l1)
        else (.err .abruptClose, l1)
      | (.err e, l1) => (.err e, l1)
    else (.ok (), l)

/-- `readAsync(max, min)` -/
def read (max : Option Nat) (min : Nat) : M Bytes := fun l =>
  match readLoop (l.me.ver13 && !l.me.closed) (allowedHs l.me) min (fuelOf l) true l with
  | (.ok (), l1) =>
    let n := max.getD l1.me.readBuf.length
    let out := l1.me.readBuf.take n
    (.ok out, { l1 with me := { l1.me with readBuf := l1.me.readBuf.drop n, got := l1.me.got ++ out } })
  | (.stall, l1) => (.stall, l1)
  | (.err e, l1) => (.err e, shutdown false l1)

/-! ### write, heartbeat, close -/

/-- `writeAsync`: closed is checked first; any later exception runs `_shutdown(self.ignoreAbruptClose)` -/
def write (d : Bytes) : M Unit := fun l =>
  if l.me.closed then (.err .closedConn, l)
  else match sendAll (appRecords l.me d) l with
    | (.ok (), l1) => (.ok (), l1)
    | (.stall, l1) => (.stall, l1)
    | (.err e, l1) => (.err e, shutdown l1.me.ignoreAbruptClose l1)

/-- `write_heartbeat`: a socket error closes the connection (`_shutdown(False)`) and is re-raised -/
def heartbeat (payload : Bytes) (padLen : Nat) : M Unit := fun l =>
  if l.me.closed then (.err .closedConn, l)
  else if !l.me.hbSupported || !l.me.hbCanSend then (.err .internalError, l)
  else match sendMsg (.heartbeat 1 payload padLen) l with
    | (.err .socketError, l1) => (.err .socketError, shutdown false l1)
    | r => r

/-- the wait for the peer's alert in `_decrefAsync` when `closeSocket` is off: application data is
    dropped; in TLS 1.3 tickets (client) and KeyUpdates still in flight are tolerated, a KeyUpdate
    only advances the read generation (its request byte is not looked at, nothing is answered) -/
def closeWait : Nat → M Unit
  | 0 => fun l => (.err .fuel, l)
  | f+1 => fun l =>
    let r := if l.me.ver13 && !l.me.closed
             then getMsg [21, 23, 22] (if l.me.isClient then [4, 24] else [24]) (fuelOf l) l
             else getMsg [21, 23] [] (fuelOf l) l
    match r with
    | (.ok (.alert _ d), l1) =>
      if d == 0 then (.ok (), shutdown true l1) else (.err (.remoteAlert d), l1)
    | (.ok (.keyUpdate _), l1) => closeWait f { l1 with me := { l1.me with readGen := l1.me.readGen + 1 } }
    | (.ok (.appData _), l1) => closeWait f l1              -- application data is dropped while closing
    | (.ok .newSessionTicket, l1) => closeWait f l1
    | (.ok _, l1) => (.err .fuel, shutdown false l1)        -- unreachable: filtered by `_getMsg`
    | (.stall, l1) => (.stall, l1)
    | (.err e, l1) => (.err e, l1)

/-- the `try` body of `_decrefAsync` -/
def closeBody : M Unit := fun l =>
  match sendMsg (.alert 1 0) l with
  | (.ok (), l1) =>
    if l1.me.closeSocket then (.ok (), shutdown true l1)
    else closeWait (fuelOf l1) { l1 with me := { l1.me with closing := true } }
  | r => r

/-- `makefile()`: one more reference that has to be closed before the connection is -/
def makefile (l : Local) : Local := { l with me := { l.me with refCount := l.me.refCount + 1 } }

/-- `closeAsync` / `_decrefAsync` with its `except` clauses: the reference count is dropped first and
    only the close that brings it to 0 does anything -/
def close : M Unit := fun l =>
  if l.me.closed then (.ok (), l)
  else if l.me.refCount - 1 != 0 then (.ok (), { l with me := { l.me with refCount := l.me.refCount - 1 } })
  else
    match closeBody { l with me := { l.me with refCount := l.me.refCount - 1 } } with
    | (.ok (), l1) => (.ok (), l1)
    | (.stall, l1) => (.stall, l1)
    | (.err .socketError, l1) => (.ok (), shutdown true l1)
    | (.err .abruptClose, l1) => (.ok (), shutdown true l1)
    | (.err e, l1) => (.err e, shutdown false l1)

/-! ### two endpoints -/

inductive Side where
  | client | server
deriving DecidableEq, Repr, Inhabited

def Side.other : Side → Side
  | .client => .server
  | .server => .client

structure World where
  c : End
  s : End
  c2s : Chan := {}
  s2c : Chan := {}
deriving Repr, Inhabited

def World.view (w : World) : Side → Local
  | .client => ⟨w.c, w.s2c, w.c2s⟩
  | .server => ⟨w.s, w.c2s, w.s2c⟩

def World.put (w : World) : Side → Local → World
  | .client, l => { w with c := l.me, s2c := l.inc, c2s := l.out }
  | .server, l => { w with s := l.me, c2s := l.inc, s2c := l.out }

def World.endOf (w : World) : Side → End
  | .client => w.c
  | .server => w.s

/-- operations of an endpoint, and events of the peer / the transport -/
inductive Op where
  | write (d : Bytes)
  | read (max : Option Nat) (min : Nat)
  | keyUpdate (requested : Bool)
  | requestClientAuth (sigAlgs : Nat := 0)   -- what the request's signature_algorithms are worth to the client (see `Msg.certRequest`)
  | heartbeat (payload : Bytes) (padLen : Nat)
  | close
  | makefile                  -- `makefile()`: a file object sharing the connection (closing it is `close`)
  | inject (m : Msg)          -- the endpoint's record layer is handed this message as is (faulty peer)
  | kill (rx : Nat)           -- the endpoint's transport dies: sends fail, receives EOF (1) / reset (2)
  | abort                     -- the endpoint's socket is shut without close_notify
deriving Repr, Inhabited

/-- observable result of an operation -/
inductive Out where
  | done
  | bytes (b : Bytes)
  | stall
  | err (e : Exc)
deriving DecidableEq, Repr, Inhabited

def liftU : Res Unit × Local → Out × Local
  | (.ok (), l) => (.done, l)
  | (.stall, l) => (.stall, l)
  | (.err e, l) => (.err e, l)

def runLocal (op : Op) (l : Local) : Out × Local :=
  match op with
  | .write d => liftU (write d l)
  | .read mx mn =>
    match read mx mn l with
    | (.ok b, l1) => (.bytes b, l1)
    | (.stall, l1) => (.stall, l1)
    | (.err e, l1) => (.err e, l1)
  | .keyUpdate r => liftU (sendKeyUpdate (if r then 1 else 0) l)
  | .requestClientAuth sa => liftU (requestClientAuth sa l)
  | .heartbeat p n => liftU (heartbeat p n l)
  | .close => liftU (close l)
  | .makefile => (.done, makefile l)
  | .inject m => (.done, (sendRaw m l).getD l)
  | .kill rx => (.done, { l with me := { l.me with txDead := true, rxDead := rx } })
  | .abort => (.done, { l with me := { l.me with txDead := true }, out := { l.out with eof := true } })

def step (w : World) (who : Side) (op : Op) : Out × World :=
  let (o, l) := runLocal op (w.view who)
  (o, w.put who l)

def run (w : World) : List (Side × Op) → World
  | [] => w
  | (who, op) :: rest => run (step w who op).2 rest

/-- outputs of a history -/
def outs (w : World) : List (Side × Op) → List Out
  | [] => []
  | (who, op) :: rest => (step w who op).1 :: outs (step w who op).2 rest

/-! ### handshake I/O skeleton (transport faults, C17) -/

/-- what one socket call of a handshake is, as far as error handling is concerned -/
inductive IoStep where
  | recv                  -- socket recv inside `_getMsg`
  | sendHs                -- direct send of a handshake-type record (`_sendMsgThroughSocket`)
  | sendOther             -- direct send of a CCS / alert / application-data record
  | flush                 -- flush of buffered records (`_sendMsgs`, `_queue_flush` with buffering)
deriving DecidableEq, Repr, Inhabited

inductive Fault where
  | eof | reset | pipe
deriving DecidableEq, Repr, Inhabited

structure HsResult where
  exc : Option Exc        -- none: the handshake generator finished normally
  closed : Bool
  resumable : Bool        -- of the session object the handshake works on (a resumed one, or the new one)
  complete : Bool         -- `_handshakeDone` ran
deriving DecidableEq, Repr, Inhabited

/-- what a receive after the fault sees: the transport stays dead -/
def recvAfter : Fault → Exc
  | .eof => .abruptClose
  | _ => .socketError

/-- outcome of the fault of kind `k` at socket call `i` of a handshake whose socket calls are `steps`;
    `pendingAlert` = the description of an alert record of the peer already waiting in the receive
    buffer at that moment, if any.  All paths end in the wrapper's `_shutdown(False)`
    (`_handshakeWrapperAsync`) or in the one of `_sendMsgThroughSocket`. -/
def hsFault (steps : List IoStep) (i : Nat) (k : Fault) (pendingAlert : Option Nat) : HsResult :=
  match steps[i]? with
  | none => ⟨none, false, true, true⟩                     -- no fault hit: completes, open, resumable
  | some .recv =>
    ⟨some (match k with | .eof => .abruptClose | _ => .socketError), true, false, false⟩
  | some .sendHs =>
    match pendingAlert with
    | some d => ⟨some (.remoteAlert d), true, false, false⟩
    | none => ⟨some (recvAfter k), true, false, false⟩
  | some .sendOther => ⟨some .socketError, true, false, false⟩
  | some .flush => ⟨some .socketError, true, false, false⟩

/-! ### one session object across several connections (server SessionCache / the client's Session) -/

/-- how a connection that uses the session ended -/
inductive ConnEnd where
  | orderly        -- close_notify exchanged (`_shutdown(True)`)
  | fatal          -- fatal alert, truncation or transport failure (`_shutdown(False)`)
deriving DecidableEq, Repr, Inhabited

/-- `session.resumable` of the ONE object all these connections work on: a resumed connection is handed
    the cached `Session` itself (`self.session = session`), so its `_shutdown(False)` clears the flag
    of the cache entry; nothing ever sets it again ("we'll never toggle this on") -/
def sessionAfter : List ConnEnd → Bool
  | [] => true
  | .orderly :: rest => sessionAfter rest
  | .fatal :: _ => false

/-- does the next handshake that offers the session resume it? (`Session.valid()` / the server's
    `if not session.resumable: raise AssertionError` in the cache lookup) -/
def nextResumes (ends : List ConnEnd) : Bool := sessionAfter ends

/-- an alert of the peer read by `_getMsg` in the middle of a handshake: close_notify or a warning is
    answered with close_notify; `_shutdown(True)` only for close_notify, `_shutdown(False)` otherwise;
    TLSRemoteAlert is raised and `_handshakeWrapperAsync` re-raises it as it is -/
def hsAlert (_lvl d : Nat) : HsResult :=
  ⟨some (.remoteAlert d), true, d == 0, false⟩

end Tls.Conn
