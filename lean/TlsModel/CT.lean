import TlsModel.Basic
/-
  Model of tlslite/utils/constanttime.py.

  Python ints are unbounded; every helper masks its arguments to 32 bits on entry and
  every intermediate value stays below 2^32, so the helpers are modelled on `BitVec 32`
  (`(a - b) & 0xffffffff` on Python ints is `BitVec` subtraction) and return `Nat`.
-/
namespace Tls.CT

def ctLtU32 (a b : Nat) : Nat :=
  let x := BitVec.ofNat 32 a
  let y := BitVec.ofNat 32 b
  ((x ^^^ ((x ^^^ y) ||| ((x - y) ^^^ y))) >>> 31).toNat

def ctGtU32 (a b : Nat) : Nat := ctLtU32 b a

def ctLeU32 (a b : Nat) : Nat := 1 ^^^ ctGtU32 a b

def ctLsbPropU8 (v : Nat) : Nat :=
  let v := v &&& 1
  let v := v ||| (v <<< 1)
  let v := v ||| (v <<< 2)
  let v := v ||| (v <<< 4)
  v

def ctLsbPropU16 (v : Nat) : Nat :=
  let v := v &&& 1
  let v := v ||| (v <<< 1)
  let v := v ||| (v <<< 2)
  let v := v ||| (v <<< 4)
  let v := v ||| (v <<< 8)
  v

def ctIsNonZeroU32 (v : Nat) : Nat :=
  let x := BitVec.ofNat 32 v
  ((x ||| (0 - x)) >>> 31).toNat

def ctNeqU32 (a b : Nat) : Nat :=
  let x := BitVec.ofNat 32 a
  let y := BitVec.ofNat 32 b
  (((x - y) ||| (y - x)) >>> 31).toNat

def ctEqU32 (a b : Nat) : Nat := 1 ^^^ ctNeqU32 a b

/-- An incremental MAC with a fixed key: `digest x` is the tag of the accumulated input `x`
    (`mac.copy(); update(a); update(b); digest()` = `digest (a ++ b)`). -/
structure MacAlg where
  dlen : Nat
  blockSize : Nat
  digest : Bytes → Bytes

def byteAt (d : Bytes) (i : Nat) : Nat := (d.getD i 0).toNat

/-- `result |= f i` for `i` in the list, starting from 0 -/
def orFold (l : List Nat) (f : Nat → Nat) : Nat := l.foldl (fun r i => r ||| f i) 0

def isSsl3 (vmaj vmin : Nat) : Bool := vmaj == 3 && vmin == 0

def macHeader (seq : Bytes) (ct : UInt8) (vmaj vmin : Nat) (len : Nat) : Bytes :=
  seq ++ [ct] ++ (if isSsl3 vmaj vmin then [] else [UInt8.ofNat vmaj, UInt8.ofNat vmin])
    ++ [UInt8.ofNat (len >>> 8), UInt8.ofNat (len &&& 0xff)]

/-- `ct_check_cbc_mac_and_pad` as written (loops as folds, `max(0, a - b)` as `Nat` subtraction). -/
def cbcCheck (m : MacAlg) (data seq : Bytes) (ct : UInt8) (vmaj vmin : Nat) (bs : Nat) : Bool :=
  let L := data.length
  if m.dlen + 1 > L then false else
  let padLen := byteAt data (L - 1)
  let padStart := L - padLen - 1
  -- the padding and the MAC must both fit into the record
  let r0 := ctLsbPropU8 (ctLtU32 L (padLen + 1 + m.dlen))
  let r1 :=
    if isSsl3 vmaj vmin then ctLsbPropU8 (ctLtU32 bs padLen)
    else
      let sp := L - 256
      orFold (List.range' sp (L - sp)) fun i =>
        (byteAt data i ^^^ padLen) &&& ctLsbPropU8 (ctLeU32 padStart i)
  let macStart := padStart - m.dlen
  let sp := (L - (256 + m.dlen)) / m.blockSize * m.blockSize
  let hdr := macHeader seq ct vmaj vmin macStart
  let endPos := L - m.dlen
  let r2 := orFold (List.range' sp (endPos - sp)) fun i =>
    let mc := m.digest (hdr ++ data.take sp ++ (data.drop sp).take (i - sp))
    let mask := ctLsbPropU8 (ctEqU32 i macStart)
    orFold (List.range m.dlen) fun j => (byteAt data (i + j) ^^^ byteAt mc j) &&& mask
  (r0 ||| r1 ||| r2) == 0

/-- the same function before the `fix:` commit (no `r0` term): kept to state what was wrong -/
def cbcCheckOld (m : MacAlg) (data seq : Bytes) (ct : UInt8) (vmaj vmin : Nat) (bs : Nat) : Bool :=
  let L := data.length
  if m.dlen + 1 > L then false else
  let padLen := byteAt data (L - 1)
  let padStart := L - padLen - 1
  let r1 :=
    if isSsl3 vmaj vmin then ctLsbPropU8 (ctLtU32 bs padLen)
    else
      let sp := L - 256
      orFold (List.range' sp (L - sp)) fun i =>
        (byteAt data i ^^^ padLen) &&& ctLsbPropU8 (ctLeU32 padStart i)
  let macStart := padStart - m.dlen
  let sp := (L - (256 + m.dlen)) / m.blockSize * m.blockSize
  let hdr := macHeader seq ct vmaj vmin macStart
  let endPos := L - m.dlen
  let r2 := orFold (List.range' sp (endPos - sp)) fun i =>
    let mc := m.digest (hdr ++ data.take sp ++ (data.drop sp).take (i - sp))
    let mask := ctLsbPropU8 (ctEqU32 i macStart)
    orFold (List.range m.dlen) fun j => (byteAt data (i + j) ^^^ byteAt mc j) &&& mask
  (r1 ||| r2) == 0

/-- Plain (non-constant-time) specification: the body ends in a padding the version allows,
    preceded by the correct MAC of the remaining data. -/
def wellFormed (m : MacAlg) (data seq : Bytes) (ct : UInt8) (vmaj vmin : Nat) (bs : Nat) : Bool :=
  let L := data.length
  if L = 0 then false else
  let p := byteAt data (L - 1)
  if L < p + 1 + m.dlen then false else
  let n := L - (p + 1 + m.dlen)
  (if isSsl3 vmaj vmin then decide (p ≤ bs)
   else (data.drop (L - (p + 1))).all fun b => b.toNat == p) &&
  ((data.drop n).take m.dlen == m.digest (macHeader seq ct vmaj vmin n ++ data.take n))

/-- sender side: `addPadding` of recordlayer.py -/
def addPadding (bs : Nat) (data : Bytes) : Bytes :=
  let p := bs - 1 - (data.length % bs)
  data ++ List.replicate (p + 1) (UInt8.ofNat p)

/-- sender side: MAC (calculateMAC) then pad, as `_macThenEncrypt` builds the plaintext body -/
def macThenPad (m : MacAlg) (frag seq : Bytes) (ct : UInt8) (vmaj vmin : Nat) (bs : Nat) : Bytes :=
  addPadding bs (frag ++ m.digest (macHeader seq ct vmaj vmin frag.length ++ frag))

/-- what `_decryptThenMAC` returns after a successful check: strips `data[-1] + 1 + dlen` -/
def stripPadMac (m : MacAlg) (data : Bytes) : Bytes :=
  data.take (data.length - (byteAt data (data.length - 1) + 1 + m.dlen))

end Tls.CT
