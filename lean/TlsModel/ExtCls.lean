/-
  Names of the extension classes of tlslite/extensions.py (the values of the dispatch
  dictionaries `_universalExtensions`, `_serverExtensions`, `_certificateExtensions`,
  `_hrrExtensions`).  The dictionaries themselves are generated from the source on every run
  (TlsModel/Gen/ExtTable.lean); a class the translator does not know becomes `unknown`,
  which makes the obligation `Tls.Msgs.extTables_known` false.
-/
namespace Tls.Fmt

inductive ExtCls where
  | sni | statusRequest | clientCertType | supportedGroups | ecPointFormats | srp
  | signatureAlgorithms | heartbeat | alpn | padding | compressCertificate | recordSizeLimit
  | delegatedCredential | sessionTicket | preSharedKey | supportedVersions | cookie
  | pskKeyExchangeModes | signatureAlgorithmsCert | clientKeyShare | npn | renegotiationInfo
  | serverCertType | srvPreSharedKey | srvSupportedVersions | serverKeyShare | tack
  | certificateStatus | delegatedCredentialCert | hrrKeyShare
  | unknown
  deriving DecidableEq, Repr

end Tls.Fmt
