import TlsModel.ErrPath
/-
  C08 — the shapes that translate/gen_errpath.py reads off the Python AST (TlsModel/Gen/ErrPath.lean holds
  the data), and the decisions over them.  The translator only transcribes; everything that is a judgement
  (which handler catches which class, whether a use of an extension object is dominated by a presence test,
  which table the code is expected to have) is defined here.  Core Lean only.
-/
namespace Tls.ErrSites
open Tls.ErrPath

/-! ## (a) `except` clauses -/

/-- what the body of an `except` clause does -/
inductive Action
  /-- exactly `for result in self._sendError(AlertDescription.<alert>, ...): yield result` -/
  | sendError (alert : String)
  /-- exactly `self._shutdown(<arg>)` followed by a bare `raise` -/
  | shutdownRaise (arg : String)
  | reraise
  | swallow
  /-- any other body, verbatim -/
  | other (text : String)
  deriving DecidableEq, Repr

structure Handler where
  file : String
  fn : String
  classes : List String       -- `["*"]` for a bare `except:`
  action : Action
  deriving DecidableEq, Repr

/-- the builtin part of the exception hierarchy (the rest is generated from errors.py / codec.py) -/
def builtinBases : List (String × List String) :=
  [("SyntaxError", ["Exception"]), ("ValueError", ["Exception"]), ("AssertionError", ["Exception"]),
   ("KeyError", ["LookupError"]), ("IndexError", ["LookupError"]), ("LookupError", ["Exception"]),
   ("AttributeError", ["Exception"]), ("TypeError", ["Exception"]), ("UnicodeDecodeError", ["ValueError"]),
   ("StopIteration", ["Exception"]), ("NotImplementedError", ["RuntimeError"]), ("RuntimeError", ["Exception"]),
   ("socket.error", ["Exception"]), ("OSError", ["Exception"]), ("Exception", ["BaseException"]),
   ("GeneratorExit", ["BaseException"])]

def basesOf (h : List (String × List String)) (c : String) : List String :=
  match h.find? (fun r => r.1 == c) with
  | some r => r.2
  | none => []

/-- `c` is `d` or inherits from it (fuel bounds the depth of the hierarchy) -/
def isSub (h : List (String × List String)) : Nat → String → String → Bool
  | 0, c, d => c == d
  | n + 1, c, d => c == d || (basesOf h c).any (fun b => isSub h n b d)

def catches (h : List (String × List String)) (classes : List String) (c : String) : Bool :=
  classes.any (fun k => k == "*" || isSub h 6 c k)

/-! ## (b) parse sites -/

structure ParseSite where
  cls : String
  selector : String           -- innermost `if`/`elif` test that leads to the call
  arg : String
  /-- the `try` statements around the call, innermost first, each with its handlers in source order -/
  tries : List (List (List String × Action))
  deriving DecidableEq, Repr

/-- the handler that gets an exception of class `c` raised at the site: first matching handler of the
    innermost `try` that has one -/
def resolve (h : List (String × List String)) (c : String) : List (List (List String × Action)) → Option Action
  | [] => none
  | t :: rest =>
    match t.find? (fun hd => catches h hd.1 c) with
    | some hd => some hd.2
    | none => resolve h c rest

/-- fatal alerts a parse failure may be answered with -/
def parseAlerts : List String := ["decode_error", "illegal_parameter", "bad_certificate"]

/-- a parse failure of class `c` at the site ends in a fatal alert; RFC 6520 section 4 asks for the one
    exception: a malformed heartbeat message is discarded silently -/
def siteGuarded (h : List (String × List String)) (s : ParseSite) (c : String) : Bool :=
  match resolve h c s.tries with
  | some (.sendError a) => parseAlerts.contains a
  | some .swallow => s.cls == "Heartbeat"
  | _ => false

/-- raises inside `parse*` methods that do not depend on the peer: `else: raise AssertionError()` after a
    case split over a constructor argument chosen by the local endpoint (cipher suite, version, certificate
    type), abstract methods, and the two that are handled where they are raised -/
def localInvariantRaises : List (String × String) :=
  [("CertificateEntry.parse", "ValueError"),                 -- certificateType given to the constructor
   ("Certificate._parse_tls12", "AssertionError"),           -- certificateType given to the constructor
   ("ServerKeyExchange.parse", "AssertionError"),            -- cipherSuite given to the constructor
   ("ClientKeyExchange.parse", "AssertionError"),            -- cipherSuite / version given to the constructor
   ("Finished.parse", "AssertionError"),                     -- version given to the constructor
   ("SessionTicketPayload.parse", "ValueError"),             -- own ticket after decryption: caught in _ticket_to_session
   ("CompressedCertificate._decompress", "ValueError"),      -- inside `try: ... except Exception: raise BadCertificateError`
   ("CompressedCertificate._decompress", "AssertionError"),  -- algorithm checked by the first statement
   ("TLSExtension.parse", "AssertionError"),                 -- getFixBytes returned the length it was asked for
   ("CustomNameExtension.parse", "NotImplementedError")]     -- abstract

/-- a `raise` found in a parse method is either a local invariant or, at every site, ends in a fatal alert -/
def raiseGuarded (h : List (String × List String)) (sites : List ParseSite) (r : String × String) : Bool :=
  localInvariantRaises.contains r || sites.all (fun s => siteGuarded h s r.2)

/-- the message class `_getMsg` is expected to build per content type / handshake type -/
def expectedSites : List (String × String) :=
  [("self.version > (3, 3) and ContentType.handshake in expectedType and self._middlebox_compat_mode and (recordHeader.type == ContentType.change_cipher_spec)", "ChangeCipherSpec"),
   ("recordHeader.type == ContentType.alert", "Alert"),
   ("recordHeader.type == ContentType.heartbeat and self.heartbeat_supported", "Heartbeat"),
   ("recordHeader.type == ContentType.change_cipher_spec", "ChangeCipherSpec"),
   ("recordHeader.type == ContentType.alert", "Alert"),
   ("recordHeader.type == ContentType.application_data", "ApplicationData"),
   ("subType == HandshakeType.client_hello", "ClientHello"),
   ("subType == HandshakeType.server_hello", "ServerHello"),
   ("subType == HandshakeType.certificate", "Certificate"),
   ("subType == HandshakeType.compressed_certificate", "CompressedCertificate"),
   ("subType == HandshakeType.certificate_request", "CertificateRequest"),
   ("subType == HandshakeType.certificate_verify", "CertificateVerify"),
   ("subType == HandshakeType.server_key_exchange", "ServerKeyExchange"),
   ("subType == HandshakeType.server_hello_done", "ServerHelloDone"),
   ("subType == HandshakeType.client_key_exchange", "ClientKeyExchange"),
   ("subType == HandshakeType.finished", "Finished"),
   ("subType == HandshakeType.next_protocol", "NextProtocol"),
   ("subType == HandshakeType.encrypted_extensions", "EncryptedExtensions"),
   ("self.version < (3, 4)", "NewSessionTicket1_0"),
   ("else of self.version < (3, 4)", "NewSessionTicket"),
   ("subType == HandshakeType.key_update", "KeyUpdate")]

/-! ## (c) uses of extension objects -/

inductive F
  | atom (i : Nat) | tt | not (f : F) | and (a b : F) | or (a b : F)
  deriving DecidableEq, Repr

/-- valuation = bit mask over the atoms of one use -/
def F.eval (ρ : Nat) : F → Bool
  | .atom i => ρ.testBit i
  | .tt => true
  | .not f => !(f.eval ρ)
  | .and a b => a.eval ρ && b.eval ρ
  | .or a b => a.eval ρ || b.eval ρ

/-- `kind`: "ext" (extension `ext` of message `recv` present), "nonempty" (its list attribute `attr` is not
    empty), "name" (truthiness of local `recv`), "opaque" (anything else) -/
structure Atom where
  kind : String
  recv : String
  ext : String
  attr : String
  deriving DecidableEq, Repr

structure ExtUse where
  file : String
  fn : String
  var : String
  attr : String
  kind : String               -- "attr": `var.attr`; "index": `var.attr[k]`
  line : Nat
  atoms : List Atom           -- atom 0 is what the use needs
  path : List F               -- conjuncts known to hold where the use is evaluated
  deriving Repr

/-- every valuation of the atoms that satisfies the path makes atom `i` true -/
def ExtUse.forces (u : ExtUse) (i : Nat) : Bool :=
  (List.range (2 ^ u.atoms.length)).all (fun ρ => !(u.path.all (F.eval ρ)) || ρ.testBit i)

/-- the use is dominated by a presence test in its own function -/
def ExtUse.direct (u : ExtUse) : Bool := u.forces 0

structure ExitCheck where
  file : String
  fn : String
  test : String
  alert : String
  deriving DecidableEq, Repr

/-- messages an endpoint built itself: their extensions are not peer input -/
def ownMessage (fn recv : String) : Bool :=
  let pre (p : String) := p.toList.isPrefixOf fn.toList
  let client := pre "_client" || pre "_handshakeClient"
  let server := pre "_server"
  (client && (recv == "clientHello" || recv == "client_hello")) ||
  (server && (recv == "serverHello" || recv == "encryptedExtensions" || recv == "hrr"))

def ExtUse.needs (u : ExtUse) : Atom := u.atoms.headD ⟨"opaque", "", "", ""⟩

/-- a presence fact that was established outside the function of the use -/
structure Implied where
  fn : String                 -- function of the use
  need : Atom                 -- what the use needs
  /-- atom that the path of the use must force (the fact holds under this condition), if any -/
  given : Option Atom
  /-- the `if <test>: _sendError(..)` that establishes it: function and test text -/
  byFn : String
  byTest : String
  why : String
  deriving Repr

def impliedTable : List Implied :=
  [ -- the ServerHello that `_clientGetServerHello` returns has an ALPN extension with exactly one name
    { fn := "_handshakeClientAsyncHelper", need := ⟨"nonempty", "serverHello", "alpn", "protocol_names"⟩,
      given := some ⟨"ext", "serverHello", "alpn", ""⟩,
      byFn := "_clientGetServerHello", byTest := "not alpnExt.protocol_names or len(alpnExt.protocol_names) != 1",
      why := "serverHello is the message checked by _clientGetServerHello" },
    -- a ClientHello that passed `_serverGetClientHello` with a pre_shared_key extension has psk_key_exchange_modes
    { fn := "_serverTLS13Handshake", need := ⟨"ext", "clientHello", "psk_key_exchange_modes", ""⟩,
      given := some ⟨"ext", "clientHello", "pre_shared_key", ""⟩,
      byFn := "_serverGetClientHello", byTest := "not psk_modes",
      why := "checked under `if psk:` in _serverGetClientHello (ErrPath.chChecks: PSK extension without psk_key_exchange_modes)" },
    -- `psk` is only set inside the `if psks and ...` block of the same function
    { fn := "_serverTLS13Handshake", need := ⟨"ext", "clientHello", "psk_key_exchange_modes", ""⟩,
      given := some ⟨"name", "psk", "", ""⟩,
      byFn := "_serverGetClientHello", byTest := "not psk_modes",
      why := "psk is assigned only where psks was present" },
    { fn := "_serverTLS13Handshake", need := ⟨"ext", "clientHello", "psk_key_exchange_modes", ""⟩,
      given := some ⟨"notnone", "psk", "", ""⟩,
      byFn := "_serverGetClientHello", byTest := "not psk_modes",
      why := "psk is assigned only where psks was present" },
    -- HelloRetryRequest: `hrr_ext` is only filled inside `if share:` (key_share of the first hello present)
    { fn := "_serverGetClientHello", need := ⟨"ext", "clientHello1", "key_share", ""⟩,
      given := some ⟨"name", "hrr_ext", "", ""⟩,
      byFn := "_serverGetClientHello", byTest := "not supported",
      why := "hrr_ext is appended to only under `if share:`; clientHello1 is that first hello" } ]

def atomIndex (u : ExtUse) (a : Atom) : Option Nat :=
  let rec go : List Atom → Nat → Option Nat
    | [], _ => none
    | x :: xs, i => if x == a then some i else go xs (i + 1)
  go u.atoms 0

def Implied.covers (checks : List ExitCheck) (u : ExtUse) (e : Implied) : Bool :=
  e.fn == u.fn && e.need == u.needs &&
  checks.any (fun c => c.fn == e.byFn && c.test == e.byTest) &&
  (match e.given with
   | none => true
   | some g => match atomIndex u g with
               | some i => u.forces i
               | none => false)

/-- the use cannot fail with AttributeError / IndexError on a missing extension -/
def ExtUse.ok (checks : List ExitCheck) (u : ExtUse) : Bool :=
  u.direct || ownMessage u.fn u.needs.recv || impliedTable.any (Implied.covers checks u)

/-! ## (a) continued: the table the code is expected to have -/

/-- alert names used by the error path and their numbers in the model -/
def modelAlertNumbers : List (String × Nat) :=
  [("close_notify", dCloseNotify), ("unexpected_message", dUnexpectedMessage), ("bad_record_mac", dBadRecordMac),
   ("decryption_failed", dDecryptionFailed), ("record_overflow", dRecordOverflow),
   ("handshake_failure", dHandshakeFailure), ("bad_certificate", dBadCertificate),
   ("illegal_parameter", dIllegalParameter), ("decode_error", dDecodeError),
   ("protocol_version", dProtocolVersion), ("insufficient_security", dInsufficientSecurity),
   ("no_renegotiation", dNoRenegotiation), ("missing_extension", dMissingExtension),
   ("unsupported_extension", dUnsupportedExtension)]

def alertNumber (t : List (String × Nat)) (n : String) : Option Nat := (t.find? (fun r => r.1 == n)).map (·.2)

/-- the exception classes of the record layer / message parsers and the model's error kind for each -/
def classKind : List (String × String × ErrKind) :=
  [("_getNextRecordFromSocket", "TLSUnexpectedMessage", .recUnexpectedMessage),
   ("_getNextRecordFromSocket", "TLSRecordOverflow", .recRecordOverflow),
   ("_getNextRecordFromSocket", "TLSIllegalParameterException", .recIllegalParameter),
   ("_getNextRecordFromSocket", "TLSDecryptionFailed", .recDecryptionFailed),
   ("_getNextRecordFromSocket", "TLSBadRecordMAC", .recBadRecordMac),
   ("_getMsg", "TLSIllegalParameterException", .msgIllegalParameter),
   ("_getMsg", "BadCertificateError", .msgBadCertificate),
   ("_getMsg", "SyntaxError", .msgSyntaxError)]

/-- a `sendError` handler of the record layer answers with the alert the model's `codeDesc` has for it -/
def handlerMatchesModel (alerts : List (String × Nat)) (h : Handler) : Bool :=
  match h.action, h.classes with
  | .sendError a, [c] =>
    match classKind.find? (fun r => r.1 == h.fn && r.2.1 == c) with
    | some r => alertNumber alerts a == codeDesc r.2.2 && (alertNumber alerts a).isSome
    | none => false
  | _, _ => false

/-- the `except` clauses the error path is expected to have (reviewed against tlslite-ng 1c0491e): the record
    layer rows are the ones `ErrPath.codeDesc` / `wrapRead` / `wrapHandshake` model, the others are the
    exception -> alert conversions of the handshake helpers (`ErrKind.semantic`) and local fallbacks -/
def modelHandlers : List Handler := [
  ⟨"tlsrecordlayer.py", "readAsync", ["TLSRemoteAlert"], .other "if alert.description != AlertDescription.close_notify: raise"⟩,
  ⟨"tlsrecordlayer.py", "readAsync", ["TLSAbruptCloseError"], .other "if not self.ignoreAbruptClose: raise else: self._shutdown(True)"⟩,
  ⟨"tlsrecordlayer.py", "readAsync", ["GeneratorExit"], .reraise⟩,
  ⟨"tlsrecordlayer.py", "readAsync", ["*"], .shutdownRaise "False"⟩,
  ⟨"tlsrecordlayer.py", "writeAsync", ["GeneratorExit"], .reraise⟩,
  ⟨"tlsrecordlayer.py", "writeAsync", ["Exception"], .shutdownRaise "self.ignoreAbruptClose"⟩,
  ⟨"tlsrecordlayer.py", "_decrefAsync", ["socket.error", "TLSAbruptCloseError"], .other "self._shutdown(True)"⟩,
  ⟨"tlsrecordlayer.py", "_decrefAsync", ["GeneratorExit"], .reraise⟩,
  ⟨"tlsrecordlayer.py", "_decrefAsync", ["*"], .shutdownRaise "False"⟩,
  ⟨"tlsrecordlayer.py", "_handle_srv_pha", ["KeyError"], .sendError "illegal_parameter"⟩,
  ⟨"tlsrecordlayer.py", "_sendMsgThroughSocket", ["socket.error"], .other "if msg.contentType == ContentType.handshake and self.closed: for result in self._getNextRecord(): if result in (0, 1): yield result else: break self._shutdown(False) recordHeader, p = result if recordHeader.type == ContentType.alert: alert = Alert().parse(p) raise TLSRemoteAlert(alert) raise else: if msg.contentType == ContentType.handshake: self._shutdown(False) raise"⟩,
  ⟨"tlsrecordlayer.py", "_getMsg", ["socket.error"], .swallow⟩,
  ⟨"tlsrecordlayer.py", "_getMsg", ["socket.error", "SyntaxError"], .swallow⟩,
  ⟨"tlsrecordlayer.py", "_getMsg", ["TLSIllegalParameterException"], .sendError "illegal_parameter"⟩,
  ⟨"tlsrecordlayer.py", "_getMsg", ["BadCertificateError"], .sendError "bad_certificate"⟩,
  ⟨"tlsrecordlayer.py", "_getMsg", ["SyntaxError"], .sendError "decode_error"⟩,
  ⟨"tlsrecordlayer.py", "_getNextRecordFromSocket", ["TLSUnexpectedMessage"], .sendError "unexpected_message"⟩,
  ⟨"tlsrecordlayer.py", "_getNextRecordFromSocket", ["TLSRecordOverflow"], .sendError "record_overflow"⟩,
  ⟨"tlsrecordlayer.py", "_getNextRecordFromSocket", ["TLSIllegalParameterException"], .sendError "illegal_parameter"⟩,
  ⟨"tlsrecordlayer.py", "_getNextRecordFromSocket", ["TLSDecryptionFailed"], .sendError "decryption_failed"⟩,
  ⟨"tlsrecordlayer.py", "_getNextRecordFromSocket", ["TLSBadRecordMAC"], .sendError "bad_record_mac"⟩,
  ⟨"tlsrecordlayer.py", "write_heartbeat", ["socket.error"], .shutdownRaise "False"⟩,
  ⟨"tlsconnection.py", "_handshakeClientAsyncHelper", ["TLSIllegalParameterException"], .sendError "illegal_parameter"⟩,
  ⟨"tlsconnection.py", "_handshakeClientAsyncHelper", ["TLSDecryptionFailed"], .sendError "decrypt_error"⟩,
  ⟨"tlsconnection.py", "_handshakeClientAsyncHelper", ["TLSDecodeError"], .sendError "decode_error"⟩,
  ⟨"tlsconnection.py", "_handshakeClientAsyncHelper", ["BadCertificateError"], .sendError "bad_certificate"⟩,
  ⟨"tlsconnection.py", "_handshakeClientAsyncHelper", ["StopIteration"], .sendError "illegal_parameter"⟩,
  ⟨"tlsconnection.py", "_clientKeyExchange", ["TLSIllegalParameterException"], .sendError "illegal_parameter"⟩,
  ⟨"tlsconnection.py", "_clientKeyExchange", ["TLSDecryptionFailed"], .sendError "decrypt_error"⟩,
  ⟨"tlsconnection.py", "_clientKeyExchange", ["TLSInsufficientSecurity"], .sendError "insufficient_security"⟩,
  ⟨"tlsconnection.py", "_clientKeyExchange", ["TLSIllegalParameterException"], .sendError "illegal_parameter"⟩,
  ⟨"tlsconnection.py", "_clientKeyExchange", ["TLSInternalError"], .sendError "internal_error"⟩,
  ⟨"tlsconnection.py", "_handshakeServerAsyncHelper", ["TLSHandshakeFailure"], .sendError "handshake_failure"⟩,
  ⟨"tlsconnection.py", "_handshakeServerAsyncHelper", ["StopIteration"], .sendError "illegal_parameter"⟩,
  ⟨"tlsconnection.py", "_check_before_tickets", ["TLSAuthenticationError"], .other "alert = Alert().create(AlertDescription.close_notify, AlertLevel.fatal) ; for result in self._sendMsg(alert): yield result ; raise"⟩,
  ⟨"tlsconnection.py", "_tryDecrypt", ["ValueError"], .other "continue"⟩,
  ⟨"tlsconnection.py", "_serverTLS13Handshake", ["TLSIllegalParameterException"], .sendError "illegal_parameter"⟩,
  ⟨"tlsconnection.py", "_serverTLS13Handshake", ["StopIteration"], .other "dc_sig_scheme = None"⟩,
  ⟨"tlsconnection.py", "_serverTLS13Handshake", ["TLSIllegalParameterException"], .sendError "illegal_parameter"⟩,
  ⟨"tlsconnection.py", "_serverTLS13Handshake", ["TLSIllegalParameterException"], .sendError "illegal_parameter"⟩,
  ⟨"tlsconnection.py", "_serverGetClientHello", ["UnicodeDecodeError"], .sendError "illegal_parameter"⟩,
  ⟨"tlsconnection.py", "_serverGetClientHello", ["KeyError"], .swallow⟩,
  ⟨"tlsconnection.py", "_serverGetClientHello", ["TLSHandshakeFailure"], .sendError "handshake_failure"⟩,
  ⟨"tlsconnection.py", "_serverGetClientHello", ["TLSInsufficientSecurity"], .sendError "insufficient_security"⟩,
  ⟨"tlsconnection.py", "_serverGetClientHello", ["TLSIllegalParameterException"], .sendError "illegal_parameter"⟩,
  ⟨"tlsconnection.py", "_serverSRPKeyExchange", ["TLSHandshakeFailure"], .sendError "handshake_failure"⟩,
  ⟨"tlsconnection.py", "_serverSRPKeyExchange", ["TLSUnknownPSKIdentity"], .sendError "unknown_psk_identity"⟩,
  ⟨"tlsconnection.py", "_serverSRPKeyExchange", ["TLSInsufficientSecurity"], .sendError "insufficient_security"⟩,
  ⟨"tlsconnection.py", "_serverSRPKeyExchange", ["TLSInternalError"], .sendError "internal_error"⟩,
  ⟨"tlsconnection.py", "_serverSRPKeyExchange", ["TLSIllegalParameterException"], .sendError "illegal_parameter"⟩,
  ⟨"tlsconnection.py", "_serverSRPKeyExchange", ["TLSDecodeError"], .sendError "decode_error"⟩,
  ⟨"tlsconnection.py", "_server_select_certificate", ["TLSHandshakeFailure"], .other "raise TLSHandshakeFailure('No common signature algorithms')"⟩,
  ⟨"tlsconnection.py", "_server_select_certificate", ["Exception"], .other "if last_cert and (not possible_certs): raise ; continue"⟩,
  ⟨"tlsconnection.py", "_serverCertKeyExchange", ["TLSInternalError"], .sendError "internal_error"⟩,
  ⟨"tlsconnection.py", "_serverCertKeyExchange", ["TLSInsufficientSecurity"], .sendError "insufficient_security"⟩,
  ⟨"tlsconnection.py", "_serverCertKeyExchange", ["TLSIllegalParameterException"], .sendError "illegal_parameter"⟩,
  ⟨"tlsconnection.py", "_serverCertKeyExchange", ["TLSDecodeError"], .sendError "decode_error"⟩,
  ⟨"tlsconnection.py", "_serverCertKeyExchange", ["TLSIllegalParameterException"], .sendError "illegal_parameter"⟩,
  ⟨"tlsconnection.py", "_serverCertKeyExchange", ["TLSDecodeError"], .sendError "decode_error"⟩,
  ⟨"tlsconnection.py", "_serverAnonKeyExchange", ["TLSInternalError"], .sendError "internal_error"⟩,
  ⟨"tlsconnection.py", "_serverAnonKeyExchange", ["TLSInsufficientSecurity"], .sendError "insufficient_security"⟩,
  ⟨"tlsconnection.py", "_serverAnonKeyExchange", ["TLSIllegalParameterException"], .sendError "illegal_parameter"⟩,
  ⟨"tlsconnection.py", "_serverAnonKeyExchange", ["TLSDecodeError"], .sendError "decode_error"⟩,
  ⟨"tlsconnection.py", "_handshakeWrapperAsync", ["TLSAuthenticationError"], .other "alert = Alert().create(AlertDescription.close_notify, AlertLevel.fatal) ; for result in self._sendMsg(alert): yield result ; raise"⟩,
  ⟨"tlsconnection.py", "_handshakeWrapperAsync", ["GeneratorExit"], .reraise⟩,
  ⟨"tlsconnection.py", "_handshakeWrapperAsync", ["TLSAlert"], .other "if not self.fault: raise ; if alert.description not in Fault.faultAlerts[self.fault]: raise TLSFaultError(str(alert)) else: pass"⟩,
  ⟨"tlsconnection.py", "_handshakeWrapperAsync", ["*"], .shutdownRaise "False"⟩,
  ⟨"tlsconnection.py", "_sigHashesToList", ["AttributeError"], .other "sigAlgs.append(getattr(SignatureScheme, sig_scheme.lower()))"⟩,
  ⟨"tlsconnection.py", "_sigHashesToList", ["AttributeError"], .other "if schemeName == 'pkcs1': sigAlgs.append((getattr(HashAlgorithm, hashName), SignatureAlgorithm.rsa)) ; continue"⟩
]

/-- `_sendError`: flush and switch off write buffering, alert first, `_shutdown(False)`, `raise TLSLocalAlert`;
    `_shutdown`: closed, socket closed when owned, the session is only ever made non-resumable -/
def expectedShapes : List (String × List String) := [
  ("_sendError", ["self.sock.flush()", "self.sock.buffer_writes = False", "alert = Alert().create(alertDescription, AlertLevel.fatal)", "for result in self._sendMsg(alert): yield result", "self._shutdown(False)", "raise TLSLocalAlert(alert, errorStr)"]),
  ("_shutdown", ["self._recordLayer.shutdown()", "self.version = (0, 0)", "self.closed = True", "if self.closeSocket: self.sock.close()", "if not resumable and self.session: self.session.resumable = False"])
]

/-- `CompressedCertificate`: zlib output bounded by the declared length + 1, every decompressor failure becomes
    BadCertificateError, the length must match exactly (`ErrPath.decompress`); an empty stream is a decode error -/
def expectedDecompress : List (String × String × String × String) := [
  ("CompressedCertificate._decompress", "check", "not (self.compression_algo == CertificateCompressionAlgorithm.zlib or (self.compression_algo == CertificateCompressionAlgorithm.brotli and compression_algo_impls['brotli_decompress']) or (self.compression_algo == CertificateCompressionAlgorithm.zstd and compression_algo_impls['zstd_decompress']))", "TLSIllegalParameterException"),
  ("CompressedCertificate._decompress", "call", "zlib.decompressobj(15)", ""),
  ("CompressedCertificate._decompress", "call", "decompressor.decompress(compressed_msg, expected_length + 1)", ""),
  ("CompressedCertificate._decompress", "check", "len(decompressed_msg) <= expected_length and (not decompressor.eof)", "ValueError"),
  ("CompressedCertificate._decompress", "call", "compression_algo_impls['brotli_decompress'](compressed_msg, expected_length)", ""),
  ("CompressedCertificate._decompress", "call", "compression_algo_impls['brotli_decompress'](compressed_msg)", ""),
  ("CompressedCertificate._decompress", "call", "compression_algo_impls['zstd_decompress'](compressed_msg, expected_length)", ""),
  ("CompressedCertificate._decompress", "call", "compression_algo_impls['zstd_decompress'](compressed_msg)", ""),
  ("CompressedCertificate._decompress", "except", "Exception", "raise BadCertificateError('Error on decompressing the message.')"),
  ("CompressedCertificate._decompress", "check", "len(decompressed_msg) != expected_length", "BadCertificateError"),
  ("CompressedCertificate.parse", "check", "len(compressed_msg) == 0", "DecodeError"),
  ("CompressedCertificate.parse", "call", "self._decompress(compressed_msg, expected_length)", "")
]

end Tls.ErrSites
