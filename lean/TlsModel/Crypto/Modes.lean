import TlsModel.Crypto.Common
/-
  C09 — block cipher modes and RC4 with the state carried between calls.
    Python_AES (CBC, tlslite/utils/python_aes.py), Python_TripleDES's CBC wrapper
    (tlslite/utils/python_tripledes.py), Python_AES_CTR incl. `_counter_update`, Python_RC4.
  The block cipher is a parameter: `E`/`D : Bytes → Bytes` (rijndael.encrypt / decrypt of one block,
  single-DES raw block operations).  `Spec` is NIST SP 800-38A (CBC §6.2, CTR §6.5, appendix B.1).
-/
namespace Tls.Crypto.Modes

/-- `for y in range(n): block[y] ^= chain[y]` -/
def xorN (n : Nat) (block chain : Bytes) : Except Err Bytes :=
  if block.length < n ∨ chain.length < n then .error .index
  else .ok (xorBytes (block.take n) (chain.take n) ++ block.drop n)

namespace Model

/-- the guards of `AES.__init__` (tlslite/utils/aes.py), shared by Python_AES and Python_AES_CTR -/
def aesInitGuard (keyLen mode ivLen : Nat) : Except Err Unit :=
  if keyLen ≠ 16 ∧ keyLen ≠ 24 ∧ keyLen ≠ 32 then .error .assertion
  else if mode ≠ 2 ∧ mode ≠ 6 then .error .assertion
  else if mode = 2 ∧ ivLen ≠ 16 then .error .assertion
  else if mode = 6 ∧ ivLen > 16 then .error .assertion
  else .ok ()

/-! ### Python_AES (CBC) — the object state is `self.IV` -/

/-- one iteration of the loop in `Python_AES.encrypt` -/
def cbcEncStep (E : Bytes → Bytes) (pt : Bytes) (acc : Bytes × Bytes) (x : Nat) :
    Except Err (Bytes × Bytes) := do
  let (chain, out) := acc
  let blockBytes := (pt.drop (x*16)).take 16
  let blockBytes ← xorN 16 blockBytes chain
  let encryptedBytes := E blockBytes
  -- plaintextBytes[(x*16)+y] = encryptedBytes[y] for y in range(16)
  if encryptedBytes.length < 16 then .error .index else
  pure (encryptedBytes, out ++ encryptedBytes.take 16)

/-- `Python_AES.encrypt`: returns (new `self.IV`, ciphertext) -/
def cbcEncrypt (E : Bytes → Bytes) (iv pt : Bytes) : Except Err (Bytes × Bytes) :=
  if pt.length % 16 ≠ 0 then .error .assertion
  else (List.range (pt.length / 16)).foldlM (cbcEncStep E pt) (iv, [])

/-- one iteration of the loop in `Python_AES.decrypt` -/
def cbcDecStep (D : Bytes → Bytes) (ct : Bytes) (acc : Bytes × Bytes) (x : Nat) :
    Except Err (Bytes × Bytes) := do
  let (chain, out) := acc
  let blockBytes := (ct.drop (x*16)).take 16
  let decryptedBytes := D blockBytes
  -- decryptedBytes[y] ^= chainBytes[y]; ciphertextBytes[(x*16)+y] = decryptedBytes[y]
  let decryptedBytes ← xorN 16 decryptedBytes chain
  pure (blockBytes, out ++ decryptedBytes.take 16)

/-- `Python_AES.decrypt` -/
def cbcDecrypt (D : Bytes → Bytes) (iv ct : Bytes) : Except Err (Bytes × Bytes) :=
  if ct.length % 16 ≠ 0 then .error .assertion
  else (List.range (ct.length / 16)).foldlM (cbcDecStep D ct) (iv, [])

/-! ### Python_TripleDES — three `Des` objects whose `crypt` does its own IV xor -/

/-- the three single-DES raw block operations (key1, key2, key3; encrypt / decrypt) -/
structure Des3 where
  e1 : Bytes → Bytes
  d1 : Bytes → Bytes
  e2 : Bytes → Bytes
  d2 : Bytes → Bytes
  e3 : Bytes → Bytes
  d3 : Bytes → Bytes

/-- `Des.crypt(block, ENCRYPT)` for one 8-byte block: xor with the object's iv, then encrypt
    (`zip` truncates to the shorter operand) -/
def desCryptEnc (e : Bytes → Bytes) (iv block : Bytes) : Bytes := e (xorBytes block iv)
/-- `Des.crypt(block, DECRYPT)` for one block: decrypt, then xor with the object's iv -/
def desCryptDec (d : Bytes → Bytes) (iv block : Bytes) : Bytes := xorBytes (d block) iv

/-- the `while i < len(data)` loop of `Python_TripleDES.encrypt`; `fuel` bounds the iterations -/
def tdesEncLoop (k : Des3) : Nat → Bytes → Bytes → Bytes × Bytes
  | 0, iv, _ => (iv, [])
  | fuel+1, iv, data =>
    if data.isEmpty then (iv, []) else
      let block := desCryptEnc k.e1 iv (data.take 8)
      let block := desCryptDec k.d2 iv block
      let block := desCryptEnc k.e3 iv block
      let r := tdesEncLoop k fuel block (data.drop 8)
      (r.1, block ++ r.2)

/-- `Python_TripleDES.encrypt` (state = the shared iv of the three Des objects) -/
def tdesEncrypt (k : Des3) (iv data : Bytes) : Except Err (Bytes × Bytes) :=
  if data.isEmpty then .ok (iv, [])
  else if data.length % 8 ≠ 0 then .error .value
  else .ok (tdesEncLoop k data.length iv data)

def tdesDecLoop (k : Des3) : Nat → Bytes → Bytes → Bytes × Bytes
  | 0, iv, _ => (iv, [])
  | fuel+1, iv, data =>
    if data.isEmpty then (iv, []) else
      let iv' := data.take 8
      let block := desCryptDec k.d3 iv iv'
      let block := desCryptEnc k.e2 iv block
      let block := desCryptDec k.d1 iv block
      let r := tdesDecLoop k fuel iv' (data.drop 8)
      (r.1, block ++ r.2)

/-- `Python_TripleDES.decrypt` -/
def tdesDecrypt (k : Des3) (iv data : Bytes) : Except Err (Bytes × Bytes) :=
  if data.isEmpty then .ok (iv, [])
  else if data.length % 8 ≠ 0 then .error .value
  else .ok (tdesDecLoop k data.length iv data)

/-! ### Python_AES_CTR — the object state is `_counter` (16 bytes) and `_counter_bytes` -/

structure Ctr where
  counter : Bytes
  counterBytes : Nat

/-- `Python_AES_CTR.__init__` (the `AES.__init__` guard: `len(IV) > 16` raises) -/
def ctrInit (iv : Bytes) : Except Err Ctr :=
  if iv.length > 16 then .error .assertion
  else .ok { counter := iv ++ zeros (16 - iv.length), counterBytes := 16 - iv.length }

/-- `_counter_update` -/
def counterUpdate (c : Ctr) : Except Err Ctr :=
  let counterInt := beDecode c.counter + 1
  let counter := beEncode 16 counterInt          -- numberToByteArray(n, 16) truncates to 16 bytes
  if c.counterBytes > 0 ∧ counter.drop (counter.length - c.counterBytes) = List.replicate c.counterBytes 0xff
  then .error .overflow
  else .ok { c with counter := counter }

/-- `while len(mask) < len(plaintext): mask += E(counter); _counter_update()`.
    `fuel` bounds the iterations; running out of it (only possible when `E` returns an empty
    block, where the Python would spin) is reported as `oracle`. -/
def ctrMaskLoop (E : Bytes → Bytes) (n : Nat) : Nat → Ctr → Bytes → Except Err (Ctr × Bytes)
  | 0, c, mask => if mask.length < n then .error .oracle else .ok (c, mask)
  | fuel+1, c, mask =>
    if mask.length < n then do
      let mask := mask ++ E c.counter
      let c ← counterUpdate c
      ctrMaskLoop E n fuel c mask
    else .ok (c, mask)

/-- `Python_AES_CTR.encrypt` (= decrypt) -/
def ctrEncrypt (E : Bytes → Bytes) (c : Ctr) (pt : Bytes) : Except Err (Ctr × Bytes) := do
  let (c, mask) ← ctrMaskLoop E pt.length pt.length c []
  pure (c, xorBytes pt mask)

/-! ### Python_RC4 — the object state is (S, i, j); `len(S) = 256` is carried by the type -/

structure Rc4 where
  S : Vector Nat 256
  i : Nat
  j : Nat

/-- `S[i], S[j] = S[j], S[i]` with both indices reduced mod 256 -/
def swap (S : Vector Nat 256) (i j : Nat) : Vector Nat 256 :=
  let a := S[i % 256]'(Nat.mod_lt _ (by decide))
  let b := S[j % 256]'(Nat.mod_lt _ (by decide))
  (S.set (i % 256) b (Nat.mod_lt _ (by decide))).set (j % 256) a (Nat.mod_lt _ (by decide))

def sAt (S : Vector Nat 256) (i : Nat) : Nat := S[i % 256]'(Nat.mod_lt _ (by decide))

/-- body of the key-schedule loop: `j = (j + S[i] + keyBytes[i % len(keyBytes)]) % 256; swap` -/
def ksaStep (key : Bytes) (hk : 0 < key.length) (acc : Vector Nat 256 × Nat) (i : Nat) :
    Vector Nat 256 × Nat :=
  let j := (acc.2 + sAt acc.1 i + (key[i % key.length]'(Nat.mod_lt _ hk)).toNat) % 256
  (swap acc.1 i j, j)

/-- `S = [i for i in range(256)]` -/
def identityS : Vector Nat 256 := Vector.ofFn fun i => i.val

/-- `Python_RC4.__init__` (the `RC4.__init__` guard on the key length, then the key schedule) -/
def rc4Init (key : Bytes) : Except Err Rc4 :=
  if h : key.length < 16 ∨ key.length > 256 then .error .value else
    have hk : 0 < key.length := by omega
    let r := (List.range 256).foldl (ksaStep key hk) (identityS, 0)
    .ok { S := r.1, i := 0, j := 0 }

/-- the loop of `Python_RC4.encrypt` -/
def rc4Loop : Rc4 → Bytes → Rc4 × Bytes
  | st, [] => (st, [])
  | st, x :: xs =>
    let i := (st.i + 1) % 256
    let j := (st.j + sAt st.S i) % 256
    let S := swap st.S i j
    let t := (sAt S i + sAt S j) % 256
    let r := rc4Loop { S := S, i := i, j := j } xs
    (r.1, (x ^^^ UInt8.ofNat (sAt S t)) :: r.2)

def rc4Encrypt (st : Rc4) (pt : Bytes) : Rc4 × Bytes := rc4Loop st pt

end Model

/-! ## Specifications -/
namespace Spec

/-- SP 800-38A §6.2: C_j = CIPH(P_j ⊕ C_{j-1}), C_0 = IV; over the list of blocks -/
def cbcEncBlocks (E : Bytes → Bytes) : Bytes → List Bytes → List Bytes
  | _, [] => []
  | prev, p :: ps => let c := E (xorBytes p prev); c :: cbcEncBlocks E c ps

/-- SP 800-38A §6.2: P_j = CIPH⁻¹(C_j) ⊕ C_{j-1} -/
def cbcDecBlocks (D : Bytes → Bytes) : Bytes → List Bytes → List Bytes
  | _, [] => []
  | prev, c :: cs => xorBytes (D c) prev :: cbcDecBlocks D c cs

def cbcEncrypt (bs : Nat) (E : Bytes → Bytes) (iv pt : Bytes) : Bytes :=
  (cbcEncBlocks E iv (chunks bs pt)).flatten

def cbcDecrypt (bs : Nat) (D : Bytes → Bytes) (iv ct : Bytes) : Bytes :=
  (cbcDecBlocks D iv (chunks bs ct)).flatten

/-- the chaining value after a message: its last ciphertext block (the IV if there was none) -/
def lastBlock (bs : Nat) (iv ct : Bytes) : Bytes := ((chunks bs ct).getLast?).getD iv

/-- SP 800-38A appendix B.1, the standard incrementing function on the low `m` bits of a
    16-byte block: [X]_{128-m} ‖ [(lsb_m(X) + 1) mod 2^m] -/
def incM (m : Nat) (X : Bytes) : Bytes :=
  let v := beDecode X
  beEncode 16 ((v / 2^m) * 2^m + (v % 2^m + 1) % 2^m)

/-- SP 800-38A §6.5: O_j = CIPH(T_j), C_j = P_j ⊕ O_j, the last block truncated; T_{j+1} = inc(T_j) -/
def ctrStream (E : Bytes → Bytes) (inc : Bytes → Bytes) : Nat → Bytes → Bytes
  | 0, _ => []
  | n+1, T => E T ++ ctrStream E inc n (inc T)

def ctrEncrypt (E : Bytes → Bytes) (inc : Bytes → Bytes) (T1 pt : Bytes) : Bytes :=
  xorBytes pt (ctrStream E inc (divceil pt.length 16) T1)

def iterate {α : Type} (f : α → α) : Nat → α → α
  | 0, x => x
  | n+1, x => iterate f n (f x)

/-! RC4 as a byte-oriented key stream generator (all arithmetic mod 256 = `UInt8`) -/

structure Rc4 where
  S : Vector UInt8 256
  i : UInt8
  j : UInt8

def sw (S : Vector UInt8 256) (i j : UInt8) : Vector UInt8 256 :=
  let a := S[i.toNat]'i.toNat_lt
  let b := S[j.toNat]'j.toNat_lt
  (S.set i.toNat b i.toNat_lt).set j.toNat a j.toNat_lt

def ksaStep (key : Bytes) (hk : 0 < key.length) (acc : Vector UInt8 256 × UInt8) (n : Nat) :
    Vector UInt8 256 × UInt8 :=
  let i := UInt8.ofNat n
  let j := acc.2 + acc.1[i.toNat]'i.toNat_lt + key[n % key.length]'(Nat.mod_lt _ hk)
  (sw acc.1 i j, j)

def identityS : Vector UInt8 256 := Vector.ofFn fun i => UInt8.ofNat i.val

/-- key scheduling: S = identity; for i = 0..255: j += S[i] + key[i mod len]; swap -/
def ksa (key : Bytes) (hk : 0 < key.length) : Rc4 :=
  let r := (List.range 256).foldl (ksaStep key hk) (identityS, 0)
  { S := r.1, i := 0, j := 0 }

/-- one PRGA step: i += 1; j += S[i]; swap; output S[S[i] + S[j]] -/
def prgaStep (st : Rc4) : Rc4 × UInt8 :=
  let i := st.i + 1
  let j := st.j + st.S[i.toNat]'i.toNat_lt
  let S := sw st.S i j
  let t := S[i.toNat]'i.toNat_lt + S[j.toNat]'j.toNat_lt
  ({ S := S, i := i, j := j }, S[t.toNat]'t.toNat_lt)

/-- `n` key stream bytes -/
def prga : Rc4 → Nat → Rc4 × Bytes
  | st, 0 => (st, [])
  | st, n+1 => let (st1, k) := prgaStep st; let r := prga st1 n; (r.1, k :: r.2)

def rc4Encrypt (st : Rc4) (pt : Bytes) : Rc4 × Bytes :=
  let r := prga st pt.length
  (r.1, xorBytes pt r.2)

end Spec

end Tls.Crypto.Modes
