import TlsModel.Crypto.Common
import TlsModel.Gen.AesTables
/-
  C09 — the AES core (tlslite/utils/rijndael.py, block size 16).
  `Model`: executable transliteration (32-bit words as Python ints, the GENERATED tables S, Si,
  T1..T8, U1..U4, rcon, the key-schedule loops, the table rounds).
  `Spec` : FIPS-197 (§4.2 GF(2^8) arithmetic, §5.1 Cipher, §5.2 KeyExpansion, §5.3 InvCipher), bytes.
  Status: table theorems are proved over the whole generated tables (Props/C09.lean); the equality
  Model = Spec for all keys and blocks is NOT proved — it is tied by correspondence (driver ops
  `aes_model`, `aes_spec` against the implementation and FIPS-197 / SP 800-38A vectors).
-/
namespace Tls.Crypto.Aes

def aidx (a : Array Nat) (i : Nat) : Except Err Nat :=
  match a[i]? with
  | some v => .ok v
  | none => .error .index

namespace Model
open Gen

def byteOf (w sh : Nat) : Nat := (w >>> sh) &&& 0xFF

/-- `(key[i*4] << 24) | (key[i*4+1] << 16) | (key[i*4+2] << 8) | key[i*4+3]` -/
def wordAt (b : Bytes) (i : Nat) : Except Err Nat := do
  let g (k : Nat) : Except Err Nat := (idx b k).map (·.toNat)
  pure (((← g (i*4)) <<< 24) ||| ((← g (i*4+1)) <<< 16) ||| ((← g (i*4+2)) <<< 8) ||| (← g (i*4+3)))

/-- the S-box word built in the key schedule:
    `(S[(tt>>16)&0xFF]&0xFF)<<24 ^ (S[(tt>>8)&0xFF]&0xFF)<<16 ^ (S[tt&0xFF]&0xFF)<<8 ^ (S[(tt>>24)&0xFF]&0xFF)` -/
def subRotWord (tt : Nat) : Except Err Nat := do
  pure ((((← aidx S (byteOf tt 16)) &&& 0xFF) <<< 24) ^^^ (((← aidx S (byteOf tt 8)) &&& 0xFF) <<< 16) ^^^
        (((← aidx S (byteOf tt 0)) &&& 0xFF) <<< 8) ^^^ ((← aidx S (byteOf tt 24)) &&& 0xFF))

/-- the KC = 8 middle step: `S[tt&0xFF] ^ S[(tt>>8)&0xFF]<<8 ^ S[(tt>>16)&0xFF]<<16 ^ S[(tt>>24)&0xFF]<<24` -/
def subWord (tt : Nat) : Except Err Nat := do
  pure (((← aidx S (byteOf tt 0)) &&& 0xFF) ^^^ (((← aidx S (byteOf tt 8)) &&& 0xFF) <<< 8) ^^^
        (((← aidx S (byteOf tt 16)) &&& 0xFF) <<< 16) ^^^ (((← aidx S (byteOf tt 24)) &&& 0xFF) <<< 24))

/-- `for i in range(lo, hi): tk[i] ^= tk[i-1]` -/
def xorChain (tk : List Nat) (lo hi : Nat) : Except Err (List Nat) :=
  (List.range' lo (hi - lo)).foldlM (fun tk i => do
    let a ← idx tk i
    let b ← idx tk (i - 1)
    setIdx tk i (a ^^^ b)) tk

/-- one pass of the `while t < ROUND_KEY_COUNT` loop: evolve `tk`, then append its words -/
def expandStep (KC RKC : Nat) (st : List Nat × List Nat × Nat) : Except Err (List Nat × List Nat × Nat) := do
  let (tk, W, rp) := st
  let tt ← idx tk (KC - 1)
  let t0 ← idx tk 0
  let tk ← setIdx tk 0 (t0 ^^^ ((← subRotWord tt) ^^^ (((← aidx rcon rp) &&& 0xFF) <<< 24)))
  let tk ←
    if KC ≠ 8 then xorChain tk 1 KC
    else do
      let tk ← xorChain tk 1 (KC / 2)
      let tt ← idx tk (KC / 2 - 1)
      let m ← idx tk (KC / 2)
      let tk ← setIdx tk (KC / 2) (m ^^^ (← subWord tt))
      xorChain tk (KC / 2 + 1) KC
  pure (tk, (W ++ tk).take RKC, rp + 1)

structure Keys where
  Ke : List Nat      -- round key words, Ke[r][c] = Ke[4*r + c]
  Kd : List Nat
  rounds : Nat

/-- the `while t < ROUND_KEY_COUNT` loop: at most `fuel` passes -/
def expandLoop (KC RKC : Nat) : Nat → List Nat × List Nat × Nat → Except Err (List Nat)
  | 0, st => pure st.2.1
  | fuel+1, st => if st.2.1.length < RKC then expandStep KC RKC st >>= expandLoop KC RKC fuel else pure st.2.1

/-- `U1[(tt >> 24) & 0xFF] ^ U2[(tt >> 16) & 0xFF] ^ U3[(tt >> 8) & 0xFF] ^ U4[tt & 0xFF]` -/
def uWord (tt : Nat) : Except Err Nat := do
  pure ((← aidx U1 (byteOf tt 24)) ^^^ (← aidx U2 (byteOf tt 16)) ^^^ (← aidx U3 (byteOf tt 8)) ^^^
        (← aidx U4 (byteOf tt 0)))

/-- the decryption round keys: `Kd[ROUNDS - r] = Ke[r]` (row `r` of `Kd` is row `ROUNDS - r` of `Ke`),
    then the inverse MixColumn (`U1..U4`) on rows 1 .. ROUNDS-1 -/
def mkKd (W : List Nat) (ROUNDS : Nat) : Except Err (List Nat) := do
  let rows ← (List.range (ROUNDS + 1)).mapM fun r =>
    let row := (W.drop (4 * (ROUNDS - r))).take 4
    if 1 ≤ r ∧ r < ROUNDS then row.mapM uWord else pure row
  pure rows.flatten

/-- `Rijndael.__init__(key, 16)` -/
def init (key : Bytes) : Except Err Keys :=
  if key.length ≠ 16 ∧ key.length ≠ 24 ∧ key.length ≠ 32 then .error .value else do
    let ROUNDS ← match numRounds.lookup key.length with | some r => pure r | none => throw Err.index
    let BC := 4
    let RKC := (ROUNDS + 1) * BC
    let KC := key.length / 4
    let tk ← (List.range KC).mapM (wordAt key)
    -- first copy, then at most RKC passes of the evolution loop
    let W ← expandLoop KC RKC RKC (tk, tk.take RKC, 0)
    let Kd ← mkKd W ROUNDS
    pure { Ke := W, Kd := Kd, rounds := ROUNDS }

/-- one word of a table round:
    `a[i] = (A[(t[i]>>24)&0xFF] ^ B[(t[(i+s1)%BC]>>16)&0xFF] ^ C[(t[(i+s2)%BC]>>8)&0xFF] ^ D[t[(i+s3)%BC]&0xFF]) ^ K[r][i]` -/
def colWord (A B C D : Array Nat) (K t : List Nat) (s1 s2 s3 r i : Nat) : Except Err Nat := do
  let x1 ← aidx A (byteOf (← idx t i) 24)
  let x2 ← aidx B (byteOf (← idx t ((i + s1) % 4)) 16)
  let x3 ← aidx C (byteOf (← idx t ((i + s2) % 4)) 8)
  let x4 ← aidx D (byteOf (← idx t ((i + s3) % 4)) 0)
  pure ((x1 ^^^ x2 ^^^ x3 ^^^ x4) ^^^ (← idx K (4*r + i)))

/-- `for i in range(BC): a[i] = …; t = a[:]` -/
def roundStep (A B C D : Array Nat) (K : List Nat) (s1 s2 s3 : Nat) (t : List Nat) (r : Nat) :
    Except Err (List Nat) :=
  (List.range 4).mapM (colWord A B C D K t s1 s2 s3 r)

/-- the four result bytes of column `i` in the last round -/
def lastCol (Sb : Array Nat) (K t : List Nat) (s1 s2 s3 rounds i : Nat) : Except Err (List Nat) := do
  let tt ← idx K (4*rounds + i)
  pure [((← aidx Sb (byteOf (← idx t i) 24)) ^^^ (tt >>> 24)) &&& 0xFF,
        ((← aidx Sb (byteOf (← idx t ((i + s1) % 4)) 16)) ^^^ (tt >>> 16)) &&& 0xFF,
        ((← aidx Sb (byteOf (← idx t ((i + s2) % 4)) 8)) ^^^ (tt >>> 8)) &&& 0xFF,
        ((← aidx Sb (byteOf (← idx t ((i + s3) % 4)) 0)) ^^^ tt) &&& 0xFF]

/-- the first key addition: `t[i] = word(block[4i..4i+3]) ^ K[0][i]` -/
def firstStep (K : List Nat) (block : Bytes) : Except Err (List Nat) :=
  (List.range 4).mapM fun i => do pure ((← wordAt block i) ^^^ (← idx K i))

/-- the table rounds and the special last round shared by `encrypt` and `decrypt` -/
def crypt (K : List Nat) (rounds : Nat) (A B C D Sb : Array Nat) (s : List Nat) (block : Bytes) :
    Except Err Bytes :=
  if block.length ≠ 16 then .error .value else do
    let s1 ← idx s 0; let s2 ← idx s 1; let s3 ← idx s 2
    let t ← firstStep K block
    let t ← (List.range' 1 (rounds - 1)).foldlM (roundStep A B C D K s1 s2 s3) t
    let res ← (List.range 4).mapM (lastCol Sb K t s1 s2 s3 rounds)
    pure (res.flatten.map UInt8.ofNat)

def encrypt (k : Keys) (pt : Bytes) : Except Err Bytes := crypt k.Ke k.rounds T1 T2 T3 T4 S shiftsEnc pt
def decrypt (k : Keys) (ct : Bytes) : Except Err Bytes := crypt k.Kd k.rounds T5 T6 T7 T8 Si shiftsDec ct

end Model

/-! ## FIPS-197 -/
namespace Spec

/-! GF(2^8) elements are natural numbers below 256 here (fast to evaluate in the kernel);
    the state below is made of bytes. -/

/-- §4.2.1 xtime -/
def xtimeN (b : Nat) : Nat := if b &&& 0x80 ≠ 0 then ((b <<< 1) ^^^ 0x1b) &&& 0xff else b <<< 1

/-- §4.2 multiplication in GF(2^8) modulo x^8 + x^4 + x^3 + x + 1 -/
def gmulN (a b : Nat) : Nat :=
  let step (acc : Nat × Nat) (i : Nat) : Nat × Nat :=
    (if b.testBit i then acc.1 ^^^ acc.2 else acc.1, xtimeN acc.2)
  ((List.range 8).foldl step (0, a)).1

/-- multiplicative inverse (0 ↦ 0): a^254 -/
def ginvN (a : Nat) : Nat :=
  let a2 := gmulN a a; let a4 := gmulN a2 a2; let a8 := gmulN a4 a4; let a16 := gmulN a8 a8
  let a32 := gmulN a16 a16; let a64 := gmulN a32 a32; let a128 := gmulN a64 a64
  gmulN a128 (gmulN a64 (gmulN a32 (gmulN a16 (gmulN a8 (gmulN a4 a2)))))

def rotl8N (x n : Nat) : Nat := ((x <<< n) ||| (x >>> (8 - n))) &&& 0xff

/-- §5.1.1 SubBytes: inverse, then the affine transformation -/
def sboxN (a : Nat) : Nat :=
  let x := ginvN a
  x ^^^ rotl8N x 1 ^^^ rotl8N x 2 ^^^ rotl8N x 3 ^^^ rotl8N x 4 ^^^ 0x63

/-- §5.3.2 InvSubBytes: inverse affine, then inverse -/
def invSboxN (a : Nat) : Nat :=
  ginvN (rotl8N a 1 ^^^ rotl8N a 3 ^^^ rotl8N a 6 ^^^ 0x05)

def gmul (a b : UInt8) : UInt8 := UInt8.ofNat (gmulN a.toNat b.toNat)
def xtime (b : UInt8) : UInt8 := UInt8.ofNat (xtimeN b.toNat)
def sbox (a : UInt8) : UInt8 := UInt8.ofNat (sboxN a.toNat)
def invSbox (a : UInt8) : UInt8 := UInt8.ofNat (invSboxN a.toNat)

abbrev State := List UInt8      -- 16 bytes, s[r, c] = state[r + 4c]

def at_ (s : State) (i : Nat) : UInt8 := s.getD i 0

def subBytes (s : State) : State := s.map sbox
def invSubBytes (s : State) : State := s.map invSbox
/-- §5.1.2 row r is rotated left by r -/
def shiftRows (s : State) : State := (List.range 16).map fun i => at_ s ((i + 4 * (i % 4)) % 16)
def invShiftRows (s : State) : State := (List.range 16).map fun i => at_ s ((i + 16 - 4 * (i % 4)) % 16)
/-- §5.1.3 -/
def mixColumns (s : State) : State :=
  (List.range 4).flatMap fun c =>
    let a := fun r => at_ s (4*c + r)
    [gmul 2 (a 0) ^^^ gmul 3 (a 1) ^^^ a 2 ^^^ a 3, a 0 ^^^ gmul 2 (a 1) ^^^ gmul 3 (a 2) ^^^ a 3,
     a 0 ^^^ a 1 ^^^ gmul 2 (a 2) ^^^ gmul 3 (a 3), gmul 3 (a 0) ^^^ a 1 ^^^ a 2 ^^^ gmul 2 (a 3)]
def invMixColumns (s : State) : State :=
  (List.range 4).flatMap fun c =>
    let a := fun r => at_ s (4*c + r)
    [gmul 14 (a 0) ^^^ gmul 11 (a 1) ^^^ gmul 13 (a 2) ^^^ gmul 9 (a 3),
     gmul 9 (a 0) ^^^ gmul 14 (a 1) ^^^ gmul 11 (a 2) ^^^ gmul 13 (a 3),
     gmul 13 (a 0) ^^^ gmul 9 (a 1) ^^^ gmul 14 (a 2) ^^^ gmul 11 (a 3),
     gmul 11 (a 0) ^^^ gmul 13 (a 1) ^^^ gmul 9 (a 2) ^^^ gmul 14 (a 3)]
def addRoundKey (s k : State) : State := xorBytes s k

/-- §5.2 one iteration of the KeyExpansion loop: `temp = w[i-1]`, RotWord/SubWord/Rcon every Nk words,
    the extra SubWord for Nk > 6, `w[i] = w[i-Nk] xor temp`; the accumulator carries Rcon[i/Nk] -/
def kstep (nk : Nat) (acc : List (List UInt8) × UInt8) (i : Nat) : List (List UInt8) × UInt8 :=
  let w := acc.1
  let prev := w.getD (i - 1) []
  let tr : List UInt8 × UInt8 :=
    if i % nk = 0 then
      (xorBytes ((prev.drop 1 ++ prev.take 1).map sbox) [acc.2, 0, 0, 0], xtime acc.2)
    else if nk > 6 ∧ i % nk = 4 then (prev.map sbox, acc.2)
    else (prev, acc.2)
  (w ++ [xorBytes (w.getD (i - nk) []) tr.1], tr.2)

/-- §5.2 KeyExpansion: the list of 4-byte words w[0 .. 4(Nr+1)) -/
def keyExpansion (key : Bytes) : List (List UInt8) :=
  let nk := key.length / 4
  let nr := nk + 6
  let w0 := (List.range nk).map fun i => (key.drop (4*i)).take 4
  ((List.range' nk (4 * (nr + 1) - nk)).foldl (kstep nk) (w0, 1)).1

def roundKey (w : List (List UInt8)) (r : Nat) : State := ((w.drop (4*r)).take 4).flatten

/-- §5.1 Cipher, with the round keys given as a function of the round number -/
def cipherRK (rk : Nat → State) (nr : Nat) (inp : Bytes) : Bytes :=
  let s := addRoundKey inp (rk 0)
  let s := (List.range' 1 (nr - 1)).foldl (fun s r =>
    addRoundKey (mixColumns (shiftRows (subBytes s))) (rk r)) s
  addRoundKey (shiftRows (subBytes s)) (rk nr)

/-- §5.1 Cipher -/
def cipher (key inp : Bytes) : Bytes :=
  cipherRK (roundKey (keyExpansion key)) (key.length / 4 + 6) inp

/-- §5.3 InvCipher, with the round keys given as a function of the round number -/
def invCipherRK (rk : Nat → State) (nr : Nat) (inp : Bytes) : Bytes :=
  let s := addRoundKey inp (rk nr)
  let s := (List.range' 1 (nr - 1)).foldl (fun s k =>
    invMixColumns (addRoundKey (invSubBytes (invShiftRows s)) (rk (nr - k)))) s
  addRoundKey (invSubBytes (invShiftRows s)) (rk 0)

/-- §5.3 InvCipher -/
def invCipher (key inp : Bytes) : Bytes :=
  invCipherRK (roundKey (keyExpansion key)) (key.length / 4 + 6) inp

/-- §5.3.5 EqInvCipher: the inverse cipher in the order of the forward cipher, with the
    decryption key schedule `dk` (dk r = InvMixColumns of round key Nr − r for 0 < r < Nr) -/
def eqInvCipherRK (dk : Nat → State) (nr : Nat) (inp : Bytes) : Bytes :=
  let s := addRoundKey inp (dk 0)
  let s := (List.range' 1 (nr - 1)).foldl (fun s r =>
    addRoundKey (invMixColumns (invShiftRows (invSubBytes s))) (dk r)) s
  addRoundKey (invShiftRows (invSubBytes s)) (dk nr)

/-- §5.3.5 the modified key schedule -/
def dkOf (rk : Nat → State) (nr : Nat) (r : Nat) : State :=
  if 1 ≤ r ∧ r < nr then invMixColumns (rk (nr - r)) else rk (nr - r)

end Spec

end Tls.Crypto.Aes
