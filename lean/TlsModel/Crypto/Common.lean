import TlsModel.Basic
/-
  C09 — helpers shared by the models of tlslite's pure-Python symmetric primitives.
  Core Lean only.  Python ints are `Nat`; byte strings are `Tls.Bytes`.
  A Python exception is a value of `Err` in `Except`; a model never substitutes a default.
-/
namespace Tls.Crypto

/-- the exceptions the modelled code can raise, as a small closed enumeration -/
inductive Err where
  | index      -- IndexError
  | struct     -- struct.error (value out of range for the format / wrong argument count)
  | value      -- ValueError
  | overflow   -- OverflowError
  | assertion  -- AssertionError
  | type       -- TypeError (None where bytes / int were needed)
  | attribute  -- AttributeError (method of None)
  | oracle     -- the driver's supplied oracle table has no entry (never a Python behaviour)
  deriving DecidableEq, Repr

def Err.name : Err → String
  | .index => "IndexError" | .struct => "struct.error" | .value => "ValueError"
  | .overflow => "OverflowError" | .assertion => "AssertionError" | .oracle => "oracle-miss"
  | .type => "TypeError" | .attribute => "AttributeError"

/-- `x[i]` on a Python list -/
def idx {α : Type} (x : List α) (i : Nat) : Except Err α :=
  match x[i]? with
  | some v => .ok v
  | none => .error .index

/-- `x[i] = v` on a Python list -/
def setIdx {α : Type} (x : List α) (i : Nat) (v : α) : Except Err (List α) :=
  if i < x.length then .ok (x.set i v) else .error .index

/-- `bytearray(a ^ b for a, b in zip(x, y))` (truncates to the shorter one) -/
def xorBytes (x y : Bytes) : Bytes := List.zipWith (· ^^^ ·) x y

/-- little-endian number of a byte string (Poly1305.le_bytes_to_num, struct '<L' unpack) -/
def leNum : Bytes → Nat
  | [] => 0
  | b :: bs => b.toNat + 256 * leNum bs

/-- `n` low bytes of `x`, little endian (truncating) -/
def leBytes : Nat → Nat → Bytes
  | 0, _ => []
  | n+1, x => UInt8.ofNat (x % 256) :: leBytes n (x / 256)

/-- `divceil` of cryptomath -/
def divceil (a b : Nat) : Nat := a / b + (if a % b = 0 then 0 else 1)

/-- `bytearray(n)` -/
def zeros (n : Nat) : Bytes := List.replicate n 0

/-- `[data[i:i+n] for i in range(0, len(data), n)]` -/
def chunks (n : Nat) (b : Bytes) : List Bytes :=
  if h : n = 0 ∨ b = [] then [] else
    b.take n :: chunks n (b.drop n)
termination_by b.length
decreasing_by
  have : b ≠ [] := fun e => h (Or.inr e)
  have : 0 < b.length := List.length_pos_iff.mpr this
  simp only [List.length_drop]; omega

/-- run `f` `n` times (a `for _ in range(n)` loop whose body may raise) -/
def iterM {α : Type} (n : Nat) (f : α → Except Err α) (x : α) : Except Err α :=
  match n with
  | 0 => .ok x
  | n+1 => f x >>= iterM n f

def errOut {α : Type} (show_ : α → String) : Except Err α → String
  | .ok v => show_ v
  | .error e => "raise:" ++ e.name

end Tls.Crypto
