import TlsModel.Crypto.Modes
import TlsModel.Gen.GcmTables
/-
  C09 — AES-GCM (tlslite/utils/aesgcm.py) over an abstract block cipher `E` (rawAesEncrypt).
  `Model`: Python ints, the 4-bit product table built in `__init__`, the generated literal
  reduction table, `_mul`, `_update`, `_auth`, `seal`, `open` with the shared CTR object.
  `Spec`: NIST SP 800-38D (§6.2 inc32, §6.3 block multiplication Algorithm 1, §6.4 GHASH,
  §6.5 GCTR, §7 GCM-AE / GCM-AD for 96-bit IVs and 128-bit tags).
-/
namespace Tls.Crypto.Gcm

namespace Model
open Tls.Crypto.Modes

/-- `_reverseBits` (the `assert i < 16` included) -/
def reverseBits (i : Nat) : Except Err Nat :=
  if ¬ i < 16 then .error .assertion else
    let i := ((i <<< 2) &&& 0xc) ||| ((i >>> 2) &&& 0x3)
    let i := ((i <<< 1) &&& 0xa) ||| ((i >>> 1) &&& 0x5)
    .ok i

def gcmAdd (x y : Nat) : Nat := x ^^^ y

/-- `_gcmShift` -/
def gcmShift (x : Nat) : Nat :=
  let highTermSet := x &&& 1
  let x := x >>> 1
  if highTermSet ≠ 0 then x ^^^ (0xe1 <<< (128 - 8)) else x

/-- the loop of `__init__` that fills `_productTable` -/
def productTable (h : Nat) : Except Err (List Nat) := do
  let t := List.replicate 16 0
  let t ← setIdx t (← reverseBits 1) h
  [2, 4, 6, 8, 10, 12, 14].foldlM (fun (t : List Nat) i => do
    let a ← idx t (← reverseBits (i / 2))
    let t ← setIdx t (← reverseBits i) (gcmShift a)
    let b ← idx t (← reverseBits i)
    setIdx t (← reverseBits (i + 1)) (gcmAdd b h)) t

/-- one iteration of the loop in `_mul` -/
def mulStep (pt : List Nat) (acc : Nat × Nat) : Except Err (Nat × Nat) := do
  let (ret, y) := acc
  let retHigh := ret &&& 0xf
  let ret := ret >>> 4
  let ret := ret ^^^ ((← idx Gen.gcmReductionTable retHigh) <<< (128 - 16))
  let ret := ret ^^^ (← idx pt (y &&& 0xf))
  pure (ret, y >>> 4)

/-- `_mul(y)`: 32 iterations (`range(0, 128, 4)`), then `assert y == 0` -/
def mul (pt : List Nat) (y : Nat) : Except Err Nat := do
  let (ret, y) ← iterM 32 (mulStep pt) (0, y)
  if y ≠ 0 then .error .assertion else pure ret

/-- `_update(y, data)` -/
def update (pt : List Nat) (y : Nat) (data : Bytes) : Except Err Nat := do
  let y ← (List.range (data.length / 16)).foldlM (fun y i => do
    let y := y ^^^ beDecode ((data.drop (16*i)).take 16)
    mul pt y) y
  let extra := data.length % 16
  if extra ≠ 0 then
    -- block = bytearray(16); block[:extra] = data[-extra:]
    let block := data.drop (data.length - extra) ++ zeros (16 - extra)
    let y := y ^^^ beDecode block
    mul pt y
  else pure y

/-- `_auth(ciphertext, ad, tagMask)` -/
def auth (pt : List Nat) (ciphertext ad tagMask : Bytes) : Except Err Bytes := do
  let y := 0
  let y ← update pt y ad
  let y ← update pt y ciphertext
  let y := y ^^^ ((ad.length <<< (3 + 64)) ||| (ciphertext.length <<< 3))
  let y ← mul pt y
  let y := y ^^^ beDecode tagMask
  pure (beEncode 16 y)

structure Obj where
  productTable : List Nat

/-- `AESGCM.__init__` (key length guard is on the AES key; here: the table from H = E(0^128)) -/
def new (E : Bytes → Bytes) : Except Err Obj := do
  let h := beDecode (E (zeros 16))
  pure { productTable := ← productTable h }

/-- `counter = bytearray(16); counter[:12] = nonce; counter[-1] = v` (nonce has 12 bytes) -/
def counterBlock (nonce : Bytes) (v : UInt8) : Bytes := nonce ++ [0, 0, 0, v]

/-- `seal(nonce, plaintext, data)`; the CTR object is the one created with a 16-byte zero IV
    (`_counter_bytes = 0`) whose counter is assigned -/
def aseal (E : Bytes → Bytes) (o : Obj) (nonce plaintext data : Bytes) : Except Err Bytes :=
  if nonce.length ≠ 12 then .error .value else do
    let tagMask := E (counterBlock nonce 1)
    let (_, ciphertext) ← Modes.Model.ctrEncrypt E { counter := counterBlock nonce 2, counterBytes := 0 } plaintext
    let tag ← auth o.productTable ciphertext data tagMask
    pure (ciphertext ++ tag)

/-- `open(nonce, ciphertext, data)`; `ct_compare_digest` = `hmac.compare_digest` modelled as equality -/
def aopen (E : Bytes → Bytes) (o : Obj) (nonce ciphertext data : Bytes) : Except Err (Option Bytes) :=
  if nonce.length ≠ 12 then .error .value
  else if ciphertext.length < 16 then .ok none
  else do
    let tag := ciphertext.drop (ciphertext.length - 16)
    let ciphertext := ciphertext.take (ciphertext.length - 16)
    let tagMask := E (counterBlock nonce 1)
    let expect ← auth o.productTable ciphertext data tagMask
    if tag ≠ expect then pure none
    else do
      let (_, pt) ← Modes.Model.ctrEncrypt E { counter := counterBlock nonce 2, counterBytes := 0 } ciphertext
      pure (some pt)

/-! ### the object with its shared CTR sub-object, over a history of calls
    `self._ctr` is created once in `__init__`; every `seal`/`open` ASSIGNS a freshly allocated
    counter block to it and lets it run, so whatever position an earlier call left in it is dead. -/

structure ObjS where
  productTable : List Nat
  ctr : Modes.Model.Ctr          -- `self._ctr` (its `_counter`, `_counter_bytes`), carried between calls

/-- `__init__`: `self._ctr = python_aes.new(key, 6, bytearray(16))` -/
def newS (E : Bytes → Bytes) : Except Err ObjS := do
  let o ← new E
  let c ← Modes.Model.ctrInit (zeros 16)
  pure { productTable := o.productTable, ctr := c }

/-- `seal` on the object: `self._ctr.counter = counter; self._ctr.encrypt(plaintext)` -/
def asealS (E : Bytes → Bytes) (o : ObjS) (nonce plaintext data : Bytes) : Except Err (ObjS × Bytes) :=
  if nonce.length ≠ 12 then .error .value else do
    let tagMask := E (counterBlock nonce 1)
    let (c, ciphertext) ← Modes.Model.ctrEncrypt E { o.ctr with counter := counterBlock nonce 2 } plaintext
    let tag ← auth o.productTable ciphertext data tagMask
    pure ({ o with ctr := c }, ciphertext ++ tag)

/-- `open` on the object -/
def aopenS (E : Bytes → Bytes) (o : ObjS) (nonce ciphertext data : Bytes) : Except Err (ObjS × Option Bytes) :=
  if nonce.length ≠ 12 then .error .value
  else if ciphertext.length < 16 then .ok (o, none)
  else do
    let tag := ciphertext.drop (ciphertext.length - 16)
    let ciphertext := ciphertext.take (ciphertext.length - 16)
    let tagMask := E (counterBlock nonce 1)
    let expect ← auth o.productTable ciphertext data tagMask
    if tag ≠ expect then pure (o, none)
    else do
      let (c, pt) ← Modes.Model.ctrEncrypt E { o.ctr with counter := counterBlock nonce 2 } ciphertext
      pure ({ o with ctr := c }, some pt)

/-- one call of a history -/
structure Call where
  isSeal : Bool
  nonce : Bytes
  data : Bytes
  aad : Bytes

def callS (E : Bytes → Bytes) (o : ObjS) (c : Call) : Except Err (ObjS × Option Bytes) :=
  if c.isSeal then (asealS E o c.nonce c.data c.aad).map fun r => (r.1, some r.2)
  else aopenS E o c.nonce c.data c.aad

/-- a history of calls on one object: the list of results -/
def runCalls (E : Bytes → Bytes) : ObjS → List Call → Except Err (ObjS × List (Option Bytes))
  | o, [] => .ok (o, [])
  | o, c :: cs => do
    let (o, r) ← callS E o c
    let (o, rs) ← runCalls E o cs
    pure (o, r :: rs)

end Model

/-! ## NIST SP 800-38D -/
namespace Spec

/-- R = 11100001 ‖ 0^120 -/
def R : Nat := 0xe1 * 2^120

/-- V_{i+1}: V >> 1, xor R when the rightmost bit was set (blocks as integers, leftmost bit = 2^127) -/
def mulX (V : Nat) : Nat := if V % 2 = 0 then V / 2 else (V / 2) ^^^ R

/-- Algorithm 1, steps 2–3 with `n` bits still to go: x_i is bit `127 - i` of the integer, i.e. `testBit X n`
    when `n + 1` bits remain -/
def gfmulAux (X : Nat) : Nat → Nat → Nat → Nat
  | 0, Z, _ => Z
  | n+1, Z, V => gfmulAux X n (if X.testBit n then Z ^^^ V else Z) (mulX V)

/-- §6.3 X • Y -/
def gfmul (X Y : Nat) : Nat := gfmulAux X 128 0 Y

/-- §6.4 GHASH_H over a list of 128-bit blocks -/
def ghash (H : Nat) (blocks : List Bytes) : Nat :=
  blocks.foldl (fun Y X => gfmul (Y ^^^ beDecode X) H) 0

def pad16 (x : Bytes) : Bytes := x ++ zeros ((16 - x.length % 16) % 16)

/-- §6.2 inc_32 -/
def inc32 (X : Bytes) : Bytes := Modes.Spec.incM 32 X

/-- §6.5 GCTR_K(ICB, X) -/
def gctr (E : Bytes → Bytes) (icb x : Bytes) : Bytes := Modes.Spec.ctrEncrypt E inc32 icb x

/-- §7.1 steps 5–6: S and T for the 96-bit IV case -/
def tag (E : Bytes → Bytes) (iv aad c : Bytes) : Bytes :=
  let H := beDecode (E (zeros 16))
  let J0 := iv ++ [0, 0, 0, 1]
  let S := ghash H (chunks 16 (pad16 aad ++ pad16 c ++ beEncode 8 (8 * aad.length) ++ beEncode 8 (8 * c.length)))
  xorBytes (E J0) (beEncode 16 S)

/-- §7.1 GCM-AE_K(IV, P, A) with len(IV) = 96, t = 128 -/
def aseal (E : Bytes → Bytes) (iv p aad : Bytes) : Bytes :=
  let J0 := iv ++ [0, 0, 0, 1]
  let c := gctr E (inc32 J0) p
  c ++ tag E iv aad c

/-- §7.2 GCM-AD_K(IV, C, A, T): FAIL (`none`) unless T equals the recomputed tag -/
def aopen (E : Bytes → Bytes) (iv ct aad : Bytes) : Option Bytes :=
  if ct.length < 16 then none else
    let c := ct.take (ct.length - 16)
    if ct.drop (ct.length - 16) = tag E iv aad c then some (gctr E (inc32 (iv ++ [0, 0, 0, 1])) c) else none

end Spec

end Tls.Crypto.Gcm
