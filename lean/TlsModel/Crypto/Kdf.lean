import TlsModel.Crypto.Common
/-
  C09 — HMAC, the SSLv3 / TLS 1.0–1.2 PRFs, calc_key, HKDF-Expand(-Label), Derive-Secret, key-block
  slicing and TLS 1.3 traffic keys, over an ABSTRACT hash (a function of the accumulated bytes with
  a block size and an output size).
    Model: tlslite/utils/tlshmac.py (HMAC), tlslite/mathtls.py (P_hash, PRF, PRF_1_2, PRF_1_2_SHA384,
           PRF_SSL, calc_key, MAC_SSL), tlslite/handshakehashes.py (digest, digestSSL),
           tlslite/utils/cryptomath.py (HKDF_expand, HKDF_expand_label, derive_secret),
           tlslite/recordlayer.py (calcPendingStates slicing, calcTLS1_3PendingState, _calcTLS1_3KeyUpdate).
    Spec : RFC 2104, RFC 2246 §5, RFC 5246 §5/§6.3/§7.4.9/§8.1, RFC 6101 §5.6.9/§6.1/§6.2.2, RFC 7627 §4,
           RFC 5869 §2.3, RFC 8446 §7.1–7.3.
-/
namespace Tls.Crypto.Kdf

/-- a hash function as the code sees it: `digest()` of an object is a function of everything
    `update`d so far; `block_size`, `digest_size` -/
structure Hash where
  H : Bytes → Bytes
  blockSize : Nat
  digestSize : Nat

def ascii (s : String) : Bytes := s.toUTF8.toList

/-! byte strings of the labels (checked against the string literals by the driver op `labels`) -/
def lblMasterSecret : Bytes := [109, 97, 115, 116, 101, 114, 32, 115, 101, 99, 114, 101, 116]  -- "master secret"
def lblKeyExpansion : Bytes := [107, 101, 121, 32, 101, 120, 112, 97, 110, 115, 105, 111, 110]  -- "key expansion"
def lblClientFinished : Bytes := [99, 108, 105, 101, 110, 116, 32, 102, 105, 110, 105, 115, 104, 101, 100]  -- "client finished"
def lblServerFinished : Bytes := [115, 101, 114, 118, 101, 114, 32, 102, 105, 110, 105, 115, 104, 101, 100]  -- "server finished"
def lblExtendedMasterSecret : Bytes := [101, 120, 116, 101, 110, 100, 101, 100, 32, 109, 97, 115, 116, 101, 114, 32, 115, 101, 99, 114, 101, 116]  -- "extended master secret"
def tls13Prefix : Bytes := [116, 108, 115, 49, 51, 32]  -- "tls13 "
def lblKey : Bytes := [107, 101, 121]  -- "key"
def lblIv : Bytes := [105, 118]  -- "iv"
def lblTrafficUpd : Bytes := [116, 114, 97, 102, 102, 105, 99, 32, 117, 112, 100]  -- "traffic upd"
def lblExporter : Bytes := [101, 120, 112, 111, 114, 116, 101, 114]  -- "exporter"

def labelTable : List (Bytes × String) :=
  [(lblMasterSecret, "master secret"), (lblKeyExpansion, "key expansion"), (lblClientFinished, "client finished"), (lblServerFinished, "server finished"), (lblExtendedMasterSecret, "extended master secret"), (tls13Prefix, "tls13 "), (lblKey, "key"), (lblIv, "iv"), (lblTrafficUpd, "traffic upd"), (lblExporter, "exporter")]

def labelsOk : Bool := labelTable.all fun p => p.1 == ascii p.2

namespace Model

/-! ### tlshmac.HMAC (the class used when the interpreter's own hmac cannot do MD5) -/

structure HmacObj where
  oKey : Bytes
  context : Bytes      -- what has been fed to the inner hash object

/-- `HMAC.__init__(key, msg=None, digestmod)` -/
def hmacNew (h : Hash) (key : Bytes) (msg : Option Bytes := none) : HmacObj :=
  let key := if key.length > h.blockSize then h.H key else key
  let key := if key.length < h.blockSize then key ++ zeros (h.blockSize - key.length) else key
  let ipad := List.replicate h.blockSize (0x36 : UInt8)
  let opad := List.replicate h.blockSize (0x5c : UInt8)
  let iKey := xorBytes key ipad
  let oKey := xorBytes key opad
  let context := iKey
  let context := match msg with
    | some m => if m.isEmpty then context else context ++ m     -- `if msg:`
    | none => context
  { oKey := oKey, context := context }

def hmacUpdate (o : HmacObj) (msg : Bytes) : HmacObj := { o with context := o.context ++ msg }

/-- `HMAC.digest`: `o_hash = digestmod.copy(); update(_o_key); update(i_digest)` -/
def hmacDigest (h : Hash) (o : HmacObj) : Bytes := h.H (o.oKey ++ h.H o.context)

def hmacCopy (o : HmacObj) : HmacObj := o

/-! ### mathtls.P_hash -/

/-- the `while index < length` loop; `out` is `ret[:index]`.  `fuel` bounds the iterations;
    running out (only with an empty digest, where the Python spins) is `oracle`. -/
def pHashLoop (h : Hash) (mac : HmacObj) (seed : Bytes) (length : Nat) :
    Nat → Bytes → Bytes → Except Err Bytes
  | 0, _, out => if out.length < length then .error .oracle else .ok out
  | fuel+1, A, out =>
    if out.length < length then
      let aFun := hmacUpdate (hmacCopy mac) A
      let A := hmacDigest h aFun
      let outFun := hmacUpdate (hmacUpdate (hmacCopy mac) A) seed
      let output := hmacDigest h outFun
      let howMany := min (length - out.length) output.length
      pHashLoop h mac seed length fuel A (out ++ output.take howMany)
    else .ok out

/-- `P_hash(mac_name, secret, seed, length)` -/
def pHash (h : Hash) (secret seed : Bytes) (length : Nat) : Except Err Bytes :=
  pHashLoop h (hmacNew h secret) seed length length seed []

/-- `for x in range(length): a[x] ^= b[x]` -/
def xorInto (length : Nat) (a b : Bytes) : Except Err Bytes :=
  if a.length < length ∨ b.length < length then .error .index
  else .ok (xorBytes (a.take length) (b.take length) ++ a.drop length)

/-- `PRF(secret, label, seed, length)` (TLS 1.0 / 1.1) -/
def prf (md5 sha1 : Hash) (secret label seed : Bytes) (length : Nat) : Except Err Bytes := do
  let S1 := secret.take ((secret.length + 1) / 2)        -- int(math.ceil(len/2.0))
  let S2 := secret.drop (secret.length / 2)              -- int(math.floor(len/2.0))
  let pMd5 ← pHash md5 S1 (label ++ seed) length
  let pSha1 ← pHash sha1 S2 (label ++ seed) length
  xorInto length pMd5 pSha1

/-- `PRF_1_2` / `PRF_1_2_SHA384` -/
def prf12 (h : Hash) (secret label seed : Bytes) (length : Nat) : Except Err Bytes :=
  pHash h secret (label ++ seed) length

/-- the `for c in output:` loop of PRF_SSL with its early `return`: (bytes so far, returned?) -/
def prfSslInner (length : Nat) : Bytes → Bytes → Bytes × Bool
  | out, [] => (out, false)
  | out, c :: cs => if out.length ≥ length then (out, true) else prfSslInner length (out ++ [c]) cs

/-- `PRF_SSL(secret, seed, length)`: 26 rounds 'A', 'BB', 'CCC', …; an early return when full;
    otherwise the rest of `bytearray(length)` stays zero -/
def prfSsl (md5 sha1 : Hash) (secret seed : Bytes) (length : Nat) : Bytes :=
  let rec go : Nat → Nat → Bytes → Bytes
    | 0, _, out => out ++ zeros (length - out.length)
    | fuel+1, x, out =>
      let A := List.replicate (x+1) (UInt8.ofNat (65 + x))
      let input := secret ++ sha1.H (A ++ secret ++ seed)
      let output := md5.H input
      let r := prfSslInner length out output
      if r.2 then r.1 else go fuel (x+1) r.1
  go 26 0 []

/-! ### handshakehashes.HandshakeHashes: the transcript so far -/

structure Hashes where
  md5 : Hash
  sha1 : Hash
  sha256 : Hash
  sha384 : Hash

/-- `digestSSL(masterSecret, label)` -/
def digestSSL (hs : Hashes) (buffer masterSecret label : Bytes) : Bytes :=
  let imacMD5 := buffer ++ (label ++ masterSecret ++ List.replicate 48 (0x36 : UInt8))
  let imacSHA := buffer ++ (label ++ masterSecret ++ List.replicate 40 (0x36 : UInt8))
  let md5Bytes := hs.md5.H (masterSecret ++ List.replicate 48 (0x5c : UInt8) ++ hs.md5.H imacMD5)
  let shaBytes := hs.sha1.H (masterSecret ++ List.replicate 40 (0x5c : UInt8) ++ hs.sha1.H imacSHA)
  md5Bytes ++ shaBytes

/-- `MAC_SSL`: create(k), update…, digest -/
def macSsl (h : Hash) (isMd5 : Bool) (k msg : Bytes) : Bytes :=
  let digestSize := if isMd5 then 16 else 20
  let repeat_ := if digestSize = 20 then 40 else 48
  let opad := List.replicate repeat_ (0x5c : UInt8)
  let ipad := List.replicate repeat_ (0x36 : UInt8)
  h.H (k ++ opad ++ h.H (k ++ ipad ++ msg))

/-! ### mathtls.calc_key -/

inductive PrfFunc | ssl | tls10 | sha256 | sha384
  deriving DecidableEq

/-- `calc_key(version, secret, cipher_suite, label, handshake_hashes, client_random, server_random,
    output_length)`; `sha384Prf` = `cipher_suite in CipherSuite.sha384PrfSuites`;
    `hh` = the transcript buffer of the HandshakeHashes object or None. -/
def calcKey (hs : Hashes) (version : Nat × Nat) (secret : Bytes) (sha384Prf : Bool) (label : Bytes)
    (hh : Option Bytes) (clientRandom serverRandom : Option Bytes) (outputLength : Option Nat) :
    Except Err Bytes := do
  let needHH : Except Err Bytes := match hh with | some b => .ok b | none => .error .attribute
  let keyOrMaster := label = lblKeyExpansion ∨ label = lblMasterSecret
  -- first part: choose the function, maybe a seed, maybe return
  let (func, seed) ←
    if version = (3, 0) then
      if label = lblClientFinished then
        return digestSSL hs (← needHH) secret [0x43, 0x4C, 0x4E, 0x54]
      else if label = lblServerFinished then
        return digestSSL hs (← needHH) secret [0x53, 0x52, 0x56, 0x52]
      else if keyOrMaster then pure (PrfFunc.ssl, (none : Option Bytes))
      else throw Err.assertion
    else if version = (3, 1) ∨ version = (3, 2) then
      if label = lblExtendedMasterSecret then do
        let b ← needHH
        pure (PrfFunc.tls10, some (hs.md5.H b ++ hs.sha1.H b))
      else if label = lblServerFinished ∨ label = lblClientFinished then do
        let b ← needHH
        pure (PrfFunc.tls10, some (hs.md5.H b ++ hs.sha1.H b))        -- handshake_hashes.digest()
      else if keyOrMaster then pure (PrfFunc.tls10, none)
      else throw Err.assertion
    else if version ≠ (3, 3) then throw Err.assertion
    else if sha384Prf then
      if label = lblExtendedMasterSecret ∨ label = lblServerFinished ∨
          label = lblClientFinished then do
        let b ← needHH
        pure (PrfFunc.sha384, some (hs.sha384.H b))
      else if keyOrMaster then pure (PrfFunc.sha384, none)
      else throw Err.assertion
    else
      if label = lblExtendedMasterSecret ∨ label = lblServerFinished ∨
          label = lblClientFinished then do
        let b ← needHH
        pure (PrfFunc.sha256, some (hs.sha256.H b))
      else if keyOrMaster then pure (PrfFunc.sha256, none)
      else throw Err.assertion
  -- "Seed needed for calculating key expansion or master secret"
  let cat (a b : Option Bytes) : Except Err Bytes :=
    match a, b with | some x, some y => .ok (x ++ y) | _, _ => .error .type
  let seed ← if label = lblKeyExpansion then (cat serverRandom clientRandom).map some else pure seed
  let seed ← if label = lblMasterSecret then (cat clientRandom serverRandom).map some else pure seed
  let seed ← match seed with | some s => pure s | none => throw Err.assertion
  let length ← match outputLength with | some n => pure n | none => throw Err.type
  match func with
  | .ssl => pure (prfSsl hs.md5 hs.sha1 secret seed length)
  | .tls10 => prf hs.md5 hs.sha1 secret label seed length
  | .sha256 => prf12 hs.sha256 secret label seed length
  | .sha384 => prf12 hs.sha384 secret label seed length

/-! ### cryptomath.HKDF_expand / HKDF_expand_label / derive_secret
    `secureHMAC(k, b, alg)` is the interpreter's hmac: a parameter `mac` with output size `dl`. -/

/-- `HKDF_expand(PRK, info, L, algorithm)`: `for x in range(1, N+1): Titer = HMAC(PRK, Titer + info + bytearray([x])); T += Titer` -/
def hkdfExpand (mac : Bytes → Bytes → Bytes) (dl : Nat) (prk info : Bytes) (L : Nat) : Except Err Bytes := do
  let N := divceil L dl
  let r ← (List.range' 1 N).foldlM (fun (acc : Bytes × Bytes) x =>
      if x > 255 then .error Err.value        -- bytearray([x])
      else
        let titer := mac prk (acc.2 ++ info ++ [UInt8.ofNat x])
        .ok (acc.1 ++ titer, titer)) (([] : Bytes), ([] : Bytes))
  pure (r.1.take L)

/-- `Writer.add(x, length)` -/
def writerAdd (x length : Nat) : Except Err Bytes :=
  if x < 256 ^ length then .ok (beEncode length x) else .error .value

/-- `HKDF_expand_label(secret, label, hashValue, length, algorithm)` — the HkdfLabel bytes -/
def hkdfLabel (label hashValue : Bytes) (length : Nat) : Except Err Bytes := do
  let b ← writerAdd length 2                                  -- addTwo(length)
  let l := tls13Prefix ++ label
  let b := b ++ (← writerAdd l.length 1) ++ l                 -- addVarSeq(b"tls13 " + label, 1, 1)
  let b := b ++ (← writerAdd hashValue.length 1) ++ hashValue -- addVarSeq(hashValue, 1, 1)
  pure b

def hkdfExpandLabel (mac : Bytes → Bytes → Bytes) (dl : Nat) (secret label hashValue : Bytes)
    (length : Nat) : Except Err Bytes := do
  let info ← hkdfLabel label hashValue length
  hkdfExpand mac dl secret info length

/-- `derive_secret(secret, label, handshake_hashes, algorithm)`; `hh` = transcript or None -/
def deriveSecret (mac : Bytes → Bytes → Bytes) (h : Hash) (secret label : Bytes) (hh : Option Bytes) :
    Except Err Bytes :=
  let hsHash := match hh with
    | none => h.H []
    | some b => h.H b
  hkdfExpandLabel mac h.digestSize secret label hsHash h.digestSize

/-! ### recordlayer: key block slicing, TLS 1.3 traffic keys -/

/-- `Parser.getFixBytes(n)` on the rest of the key block -/
def getFixBytes (rest : Bytes) (n : Nat) : Except Err (Bytes × Bytes) :=
  if n > rest.length then .error .value else .ok (rest.take n, rest.drop n)   -- DecodeError

structure KeyMaterial where
  macKey : Bytes
  key : Bytes
  iv : Bytes
  deriving DecidableEq

/-- the slicing in `calcPendingStates`: (client, server) -/
def sliceKeyBlock (keyBlock : Bytes) (macLength keyLength ivLength : Nat) :
    Except Err (KeyMaterial × KeyMaterial) := do
  let (clientMAC, r) ← getFixBytes keyBlock macLength
  let (serverMAC, r) ← getFixBytes r macLength
  let (clientKey, r) ← getFixBytes r keyLength
  let (serverKey, r) ← getFixBytes r keyLength
  let (clientIV, r) ← getFixBytes r ivLength
  let (serverIV, _) ← getFixBytes r ivLength
  pure (⟨clientMAC, clientKey, clientIV⟩, ⟨serverMAC, serverKey, serverIV⟩)

/-- `calcPendingStates`: key block of 2·(mac+key+iv) bytes from calc_key, sliced, then
    (pendingWrite, pendingRead) by role -/
def calcPendingStates (hs : Hashes) (version : Nat × Nat) (sha384Prf : Bool) (client : Bool)
    (masterSecret clientRandom serverRandom : Bytes) (macLength keyLength ivLength : Nat) :
    Except Err (KeyMaterial × KeyMaterial) := do
  let outputLength := (macLength*2) + (keyLength*2) + (ivLength*2)
  let keyBlock ← calcKey hs version masterSecret sha384Prf (lblKeyExpansion) none
    (some clientRandom) (some serverRandom) (some outputLength)
  let (c, s) ← sliceKeyBlock keyBlock macLength keyLength ivLength
  pure (if client then (c, s) else (s, c))

/-- `calcTLS1_3PendingState`: (pendingWrite, pendingRead) as (key, fixedNonce) pairs -/
def calcTls13PendingState (mac : Bytes → Bytes → Bytes) (dl : Nat) (client : Bool)
    (clTrafficSecret srTrafficSecret : Bytes) (keyLength : Nat) :
    Except Err ((Bytes × Bytes) × (Bytes × Bytes)) := do
  let ivLength := 12
  let ck ← hkdfExpandLabel mac dl clTrafficSecret (lblKey) [] keyLength
  let civ ← hkdfExpandLabel mac dl clTrafficSecret (lblIv) [] ivLength
  let sk ← hkdfExpandLabel mac dl srTrafficSecret (lblKey) [] keyLength
  let siv ← hkdfExpandLabel mac dl srTrafficSecret (lblIv) [] ivLength
  pure (if client then ((ck, civ), (sk, siv)) else ((sk, siv), (ck, civ)))

/-- `_calcTLS1_3KeyUpdate(cipherSuite, app_secret)`: (new secret, key, fixedNonce) -/
def calcTls13KeyUpdate (mac : Bytes → Bytes → Bytes) (dl : Nat) (appSecret : Bytes) (keyLength : Nat) :
    Except Err (Bytes × Bytes × Bytes) := do
  let newSecret ← hkdfExpandLabel mac dl appSecret (lblTrafficUpd) [] dl
  let key ← hkdfExpandLabel mac dl newSecret (lblKey) [] keyLength
  let iv ← hkdfExpandLabel mac dl newSecret (lblIv) [] 12
  pure (newSecret, key, iv)

/-- Python tuple comparison `a < b` on versions -/
def verLt (a b : Nat × Nat) : Bool := a.1 < b.1 || (a.1 == b.1 && a.2 < b.2)

/-- `TLSConnection.keyingMaterialExporter(label, length)` (tlslite/tlsconnection.py);
    `mac256` / `mac384` = `secureHMAC(·, ·, 'sha256' / 'sha384')` (the interpreter's HMAC) -/
def keyingMaterialExporter (hs : Hashes) (mac256 mac384 : Bytes → Bytes → Bytes) (version : Nat × Nat)
    (sha384Prf : Bool) (masterSecret clientRandom serverRandom exporterMasterSecret label : Bytes)
    (length : Nat) : Except Err Bytes :=
  if label = lblServerFinished ∨ label = lblClientFinished ∨ label = lblMasterSecret ∨ label = lblKeyExpansion then
    .error .value
  else if verLt version (3, 1) then .error .value
  else if verLt version (3, 3) then prf hs.md5 hs.sha1 masterSecret label (clientRandom ++ serverRandom) length
  else if version = (3, 3) then
    if sha384Prf then prf12 hs.sha384 masterSecret label (clientRandom ++ serverRandom) length
    else prf12 hs.sha256 masterSecret label (clientRandom ++ serverRandom) length
  else if version = (3, 4) then
    let h := if sha384Prf then hs.sha384 else hs.sha256
    let mac := if sha384Prf then mac384 else mac256
    do
      let secret ← deriveSecret mac h exporterMasterSecret label none
      let ctxhash := h.H []
      hkdfExpandLabel mac h.digestSize secret lblExporter ctxhash length
  else .error .assertion

end Model

/-! ## Specifications -/
namespace Spec

/-- RFC 2104: H(K XOR opad, H(K XOR ipad, text)), K zero-padded to B bytes, hashed first if longer -/
def hmac (h : Hash) (key text : Bytes) : Bytes :=
  let k := if key.length > h.blockSize then h.H key else key
  let k0 := k ++ zeros (h.blockSize - k.length)
  let ipad := List.replicate h.blockSize (0x36 : UInt8)
  let opad := List.replicate h.blockSize (0x5c : UInt8)
  h.H (xorBytes k0 opad ++ h.H (xorBytes k0 ipad ++ text))

/-- RFC 5246 §5: A(i) = HMAC(secret, A(i-1)); the stream HMAC(secret, A(1)+seed) + HMAC(secret, A(2)+seed) + … -/
def pStream (mac : Bytes → Bytes → Bytes) (secret seed : Bytes) : Nat → Bytes → Bytes
  | 0, _ => []
  | n+1, A => let A1 := mac secret A; mac secret (A1 ++ seed) ++ pStream mac secret seed n A1

def pHash (mac : Bytes → Bytes → Bytes) (dl : Nat) (secret seed : Bytes) (length : Nat) : Bytes :=
  (pStream mac secret seed (divceil length dl) seed).take length

/-- RFC 2246 §5: S1 = first ceil(L/2) bytes, S2 = last ceil(L/2) bytes, P_MD5 xor P_SHA-1 -/
def prf10 (md5 sha1 : Hash) (secret label seed : Bytes) (length : Nat) : Bytes :=
  let half := (secret.length + 1) / 2
  let S1 := secret.take half
  let S2 := secret.drop (secret.length - half)
  xorBytes (pHash (hmac md5) md5.digestSize S1 (label ++ seed) length)
           (pHash (hmac sha1) sha1.digestSize S2 (label ++ seed) length)

def prf12 (h : Hash) (secret label seed : Bytes) (length : Nat) : Bytes :=
  pHash (hmac h) h.digestSize secret (label ++ seed) length

/-- RFC 6101 §6.2.2: MD5(secret + SHA('A' + secret + seed)) + MD5(secret + SHA('BB' + …)) + … -/
def prfSsl (md5 sha1 : Hash) (secret seed : Bytes) (length : Nat) : Bytes :=
  ((List.range 26).flatMap fun x =>
    md5.H (secret ++ sha1.H (List.replicate (x+1) (UInt8.ofNat (65 + x)) ++ secret ++ seed))).take length

/-- RFC 6101 §5.6.9 Finished: MD5(ms + pad2 + MD5(hs + Sender + ms + pad1)) ‖ SHA(…40-byte pads…) -/
def sslFinished (hs : Model.Hashes) (transcript masterSecret sender : Bytes) : Bytes :=
  hs.md5.H (masterSecret ++ List.replicate 48 (0x5c : UInt8) ++
      hs.md5.H (transcript ++ sender ++ masterSecret ++ List.replicate 48 (0x36 : UInt8))) ++
  hs.sha1.H (masterSecret ++ List.replicate 40 (0x5c : UInt8) ++
      hs.sha1.H (transcript ++ sender ++ masterSecret ++ List.replicate 40 (0x36 : UInt8)))

inductive Label | masterSecret | keyExpansion | clientFinished | serverFinished | extendedMasterSecret
  deriving DecidableEq

def Label.bytes : Label → Bytes
  | .masterSecret => lblMasterSecret
  | .keyExpansion => lblKeyExpansion
  | .clientFinished => lblClientFinished
  | .serverFinished => lblServerFinished
  | .extendedMasterSecret => lblExtendedMasterSecret

inductive Version | ssl3 | tls10 | tls11 | tls12
  deriving DecidableEq

def Version.pair : Version → Nat × Nat
  | .ssl3 => (3, 0) | .tls10 => (3, 1) | .tls11 => (3, 2) | .tls12 => (3, 3)

/-- what each protocol version derives for each label
    (RFC 6101 §6.1/§6.2.2/§5.6.9, RFC 2246 §8.1/§6.3/§7.4.9, RFC 5246 §8.1/§6.3/§7.4.9, RFC 7627 §4):
    `none` = not defined for this version. -/
def calcKey (hs : Model.Hashes) (v : Version) (sha384Prf : Bool) (l : Label) (secret transcript cr sr : Bytes)
    (length : Nat) : Option Bytes :=
  match v, l with
  | .ssl3, .clientFinished => some (sslFinished hs transcript secret [0x43, 0x4C, 0x4E, 0x54])
  | .ssl3, .serverFinished => some (sslFinished hs transcript secret [0x53, 0x52, 0x56, 0x52])
  | .ssl3, .masterSecret => some (prfSsl hs.md5 hs.sha1 secret (cr ++ sr) length)
  | .ssl3, .keyExpansion => some (prfSsl hs.md5 hs.sha1 secret (sr ++ cr) length)
  | .ssl3, .extendedMasterSecret => none
  | .tls12, _ =>
    let h := if sha384Prf then hs.sha384 else hs.sha256
    let seed := match l with
      | .masterSecret => cr ++ sr
      | .keyExpansion => sr ++ cr
      | _ => h.H transcript                       -- Hash(handshake_messages) / session_hash
    some (prf12 h secret l.bytes seed length)
  | _, _ =>                                        -- TLS 1.0 and 1.1
    let seed := match l with
      | .masterSecret => cr ++ sr
      | .keyExpansion => sr ++ cr
      | _ => hs.md5.H transcript ++ hs.sha1.H transcript
    some (prf10 hs.md5 hs.sha1 secret l.bytes seed length)

/-- RFC 5869 §2.3: T(0) = "", T(i) = HMAC(PRK, T(i-1) | info | i), OKM = first L bytes of T(1) | … | T(N) -/
def hkdfT (mac : Bytes → Bytes → Bytes) (prk info : Bytes) : Nat → Bytes
  | 0 => []
  | i+1 => mac prk (hkdfT mac prk info i ++ info ++ [UInt8.ofNat (i+1)])

def hkdfExpand (mac : Bytes → Bytes → Bytes) (dl : Nat) (prk info : Bytes) (L : Nat) : Bytes :=
  ((List.range (divceil L dl)).flatMap fun i => hkdfT mac prk info (i+1)).take L

/-- RFC 8446 §7.1: struct { uint16 length; opaque label<7..255> = "tls13 " + Label; opaque context<0..255> } -/
def hkdfLabel (length : Nat) (label context : Bytes) : Bytes :=
  beEncode 2 length ++ beEncode 1 (6 + label.length) ++ tls13Prefix ++ label ++
    beEncode 1 context.length ++ context

def hkdfExpandLabel (mac : Bytes → Bytes → Bytes) (dl : Nat) (secret label context : Bytes) (length : Nat) : Bytes :=
  hkdfExpand mac dl secret (hkdfLabel length label context) length

/-- RFC 8446 §7.1 Derive-Secret(Secret, Label, Messages) = HKDF-Expand-Label(Secret, Label, Hash(Messages), Hash.length) -/
def deriveSecret (mac : Bytes → Bytes → Bytes) (h : Hash) (secret label messages : Bytes) : Bytes :=
  hkdfExpandLabel mac h.digestSize secret label (h.H messages) h.digestSize

/-- RFC 5705 §4 (TLS ≤ 1.2, no context): PRF(master_secret, label, client_random + server_random)[length];
    RFC 8446 §7.5: HKDF-Expand-Label(Derive-Secret(exporter_master_secret, label, ""), "exporter", Hash(""), length) -/
def exporter (hs : Model.Hashes) (mac256 mac384 : Bytes → Bytes → Bytes) (tls13 : Bool) (v : Version)
    (sha384Prf : Bool) (ms cr sr ems label : Bytes) (length : Nat) : Bytes :=
  if tls13 then
    let h := if sha384Prf then hs.sha384 else hs.sha256
    let mac := if sha384Prf then mac384 else mac256
    hkdfExpandLabel mac h.digestSize (deriveSecret mac h ems label []) lblExporter (h.H []) length
  else match v with
    | .tls12 => prf12 (if sha384Prf then hs.sha384 else hs.sha256) ms label (cr ++ sr) length
    | _ => prf10 hs.md5 hs.sha1 ms label (cr ++ sr) length

/-- RFC 5246 §6.3: the key block is partitioned as client_write_MAC_key, server_write_MAC_key,
    client_write_key, server_write_key, client_write_IV, server_write_IV -/
def keyBlockPartition (kb : Bytes) (m k i : Nat) : List Bytes :=
  [kb.take m, (kb.drop m).take m, (kb.drop (2*m)).take k, (kb.drop (2*m + k)).take k,
   (kb.drop (2*m + 2*k)).take i, (kb.drop (2*m + 2*k + i)).take i]

end Spec

end Tls.Crypto.Kdf
