import TlsModel.Crypto.Common
/-
  C09 — ChaCha20 (tlslite/utils/chacha.py).
  `Model` transliterates the Python (Python ints = Nat, the code's masks, list indexing that can
  raise, the block loop of `encrypt`).  `Spec` is written from RFC 8439 §2.1–§2.4 over 32-bit words.
-/
namespace Tls.Crypto.ChaCha

namespace Model

def constants : List Nat := [0x61707865, 0x3320646e, 0x79622d32, 0x6b206574]

/-- `ChaCha.rotl32` -/
def rotl32 (v c : Nat) : Nat := ((v <<< c) &&& 0xffffffff) ||| (v >>> (32 - c))

def roundMixupBox : List (Nat × Nat × Nat × Nat) :=
  [(0, 4, 8, 12), (1, 5, 9, 13), (2, 6, 10, 14), (3, 7, 11, 15),
   (0, 5, 10, 15), (1, 6, 11, 12), (2, 7, 8, 13), (3, 4, 9, 14)]

/-- the arithmetic of one quarter round on four Python ints -/
def qrArith (xa xb xc xd : Nat) : Nat × Nat × Nat × Nat :=
  let xa := (xa + xb) &&& 0xffffffff
  let xd := xd ^^^ xa
  let xd := ((xd <<< 16) &&& 0xffffffff) ||| (xd >>> 16)
  let xc := (xc + xd) &&& 0xffffffff
  let xb := xb ^^^ xc
  let xb := ((xb <<< 12) &&& 0xffffffff) ||| (xb >>> 20)
  let xa := (xa + xb) &&& 0xffffffff
  let xd := xd ^^^ xa
  let xd := ((xd <<< 8) &&& 0xffffffff) ||| (xd >>> 24)
  let xc := (xc + xd) &&& 0xffffffff
  let xb := xb ^^^ xc
  let xb := ((xb <<< 7) &&& 0xffffffff) ||| (xb >>> 25)
  (xa, xb, xc, xd)

/-- `ChaCha.quarter_round(x, a, b, c, d)` / the body of the loop in `double_round`:
    four reads, the arithmetic, four writes -/
def quarterRound (x : List Nat) (q : Nat × Nat × Nat × Nat) : Except Err (List Nat) := do
  let xa ← idx x q.1
  let xb ← idx x q.2.1
  let xc ← idx x q.2.2.1
  let xd ← idx x q.2.2.2
  let r := qrArith xa xb xc xd
  let x ← setIdx x q.1 r.1
  let x ← setIdx x q.2.1 r.2.1
  let x ← setIdx x q.2.2.1 r.2.2.1
  setIdx x q.2.2.2 r.2.2.2

/-- `ChaCha.double_round` -/
def doubleRound (x : List Nat) : Except Err (List Nat) :=
  roundMixupBox.foldlM quarterRound x

/-- `ChaCha.chacha_block(key, counter, nonce, rounds)` -/
def chachaBlock (key : List Nat) (counter : Nat) (nonce : List Nat) (rounds : Nat) :
    Except Err (List Nat) := do
  let state := constants ++ key ++ [counter] ++ nonce
  let working ← iterM (rounds / 2) doubleRound state
  pure (List.zipWith (fun st w => (st + w) &&& 0xffffffff) state working)

/-- `struct.pack('<L', w)` -/
def packL (w : Nat) : Except Err Bytes :=
  if w < 2^32 then .ok (leBytes 4 w) else .error .struct

/-- `ChaCha.word_to_bytearray`: `struct.pack('<LLLLLLLLLLLLLLLL', *state)` -/
def wordToBytearray (state : List Nat) : Except Err Bytes :=
  if state.length ≠ 16 then .error .struct else do
    let bs ← state.mapM packL
    pure bs.flatten

/-- `ChaCha._bytearray_to_words` -/
def bytearrayToWords (data : Bytes) : List Nat :=
  (List.range (data.length / 4)).map fun i => leNum ((data.drop (i*4)).take 4)

structure St where
  key : List Nat
  nonce : List Nat
  counter : Nat
  rounds : Nat

/-- `ChaCha.__init__` -/
def init (key nonce : Bytes) (counter : Nat := 0) (rounds : Nat := 20) : Except Err St :=
  if key.length ≠ 32 then .error .value
  else if nonce.length ≠ 12 then .error .value
  else .ok { key := bytearrayToWords key, nonce := bytearrayToWords nonce, counter, rounds }

/-- the loop of `ChaCha.encrypt` over `enumerate(blocks)`, `i` = running index -/
def encryptBlocks (s : St) : Nat → List Bytes → Except Err Bytes
  | _, [] => .ok []
  | i, block :: rest => do
    let ks ← chachaBlock s.key (s.counter + i) s.nonce s.rounds
    let ks ← wordToBytearray ks
    let tail ← encryptBlocks s (i+1) rest
    pure (xorBytes ks block ++ tail)

/-- `ChaCha.encrypt` (the object is not changed: `self.counter` stays) -/
def encrypt (s : St) (plaintext : Bytes) : Except Err Bytes :=
  encryptBlocks s 0 (chunks 64 plaintext)

def decrypt (s : St) (ciphertext : Bytes) : Except Err Bytes := encrypt s ciphertext

end Model

/-! ## RFC 8439 -/
namespace Spec

abbrev Word := BitVec 32
abbrev State := Vector Word 16

/-- §2.1 the quarter round on four words -/
def quarterRound (a b c d : Word) : Word × Word × Word × Word :=
  let a := a + b; let d := d ^^^ a; let d := d.rotateLeft 16
  let c := c + d; let b := b ^^^ c; let b := b.rotateLeft 12
  let a := a + b; let d := d ^^^ a; let d := d.rotateLeft 8
  let c := c + d; let b := b ^^^ c; let b := b.rotateLeft 7
  (a, b, c, d)

/-- §2.2 QUARTERROUND(x, y, z, w) on the state -/
def qround (s : State) (x y z w : Fin 16) : State :=
  let r := quarterRound s[x] s[y] s[z] s[w]
  (((s.set x r.1).set y r.2.1).set z r.2.2.1).set w r.2.2.2

/-- §2.3.1 inner_block: four column rounds then four diagonal rounds -/
def innerBlock (s : State) : State :=
  let s := qround s 0 4 8 12
  let s := qround s 1 5 9 13
  let s := qround s 2 6 10 14
  let s := qround s 3 7 11 15
  let s := qround s 0 5 10 15
  let s := qround s 1 6 11 12
  let s := qround s 2 7 8 13
  qround s 3 4 9 14

def iter {α : Type} (f : α → α) : Nat → α → α
  | 0, x => x
  | n+1, x => iter f n (f x)

/-- little-endian 32-bit word of four bytes -/
def wordOfBytes (b : Bytes) : Word := BitVec.ofNat 32 (leNum (b.take 4))

/-- §2.3 the state: constants, key as 8 LE words, block counter, nonce as 3 LE words -/
def initState (key : Bytes) (counter : Word) (nonce : Bytes) : State :=
  #v[0x61707865#32, 0x3320646e#32, 0x79622d32#32, 0x6b206574#32,
     wordOfBytes key, wordOfBytes (key.drop 4), wordOfBytes (key.drop 8), wordOfBytes (key.drop 12),
     wordOfBytes (key.drop 16), wordOfBytes (key.drop 20), wordOfBytes (key.drop 24),
     wordOfBytes (key.drop 28),
     counter,
     wordOfBytes nonce, wordOfBytes (nonce.drop 4), wordOfBytes (nonce.drop 8)]

/-- serialise a word little-endian -/
def wordBytes (w : Word) : Bytes :=
  [UInt8.ofNat (w.toNat % 256), UInt8.ofNat (w.toNat / 2^8 % 256),
   UInt8.ofNat (w.toNat / 2^16 % 256), UInt8.ofNat (w.toNat / 2^24 % 256)]

/-- §2.3 chacha20_block: 10 × inner_block, add the initial state, serialise -/
def block (key : Bytes) (counter : Word) (nonce : Bytes) : Bytes :=
  let s0 := initState key counter nonce
  let s := iter innerBlock 10 s0
  (Vector.zipWith (· + ·) s0 s).toList.flatMap wordBytes

/-- §2.4 the key stream for `n` blocks starting at block counter `counter` -/
def keyStream (key : Bytes) (counter : Nat) (nonce : Bytes) (n : Nat) : Bytes :=
  (List.range n).flatMap fun j => block key (BitVec.ofNat 32 (counter + j)) nonce

/-- §2.4 chacha20_encrypt: XOR with the key stream, surplus key stream discarded -/
def encrypt (key : Bytes) (counter : Nat) (nonce : Bytes) (plaintext : Bytes) : Bytes :=
  xorBytes plaintext (keyStream key counter nonce (divceil plaintext.length 64))

end Spec

end Tls.Crypto.ChaCha
