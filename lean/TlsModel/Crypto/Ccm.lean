import TlsModel.Crypto.Modes
/-
  C09 — AES-CCM / CCM-8 (tlslite/utils/aesccm.py) over an abstract block cipher `E`.
  `Model`: `_cbcmac_calc` (flags, B_0, AAD length encoding, zero padding, CBC-MAC through the
  object's Python_AES with a zero IV, truncation), `seal`, `open` with the shared CTR object.
  `Spec`: RFC 3610 §2.2–2.6 (= NIST SP 800-38C) for a nonce of 15 − L bytes.
-/
namespace Tls.Crypto.Ccm

namespace Model
open Tls.Crypto.Modes

/-- `_pad_with_zeroes(data, 16)` -/
def padWithZeroes (data : Bytes) (size : Nat) : Bytes :=
  if data.length % size ≠ 0 then data ++ zeros (size - data.length % size) else data

/-- `bytearray([flags])` -/
def oneByte (n : Nat) : Except Err Bytes := if n < 256 then .ok [UInt8.ofNat n] else .error .value

/-- `_cbcmac_calc(nonce, aad, msg)` -/
def cbcmacCalc (E : Bytes → Bytes) (tagLength : Nat) (nonce aad msg : Bytes) : Except Err Bytes := do
  let L := 15 - nonce.length
  let flags := 64 * (if aad.length > 0 then 1 else 0)
  let flags := flags + 8 * ((tagLength - 2) / 2)
  let flags := flags + 1 * (L - 1)
  let b0 := (← oneByte flags) ++ nonce ++ beEncode L msg.length
  let aadLenEncoded : Bytes :=
    if aad.length > 0 then
      if aad.length < 2^16 - 2^8 then beEncode 2 aad.length
      else if aad.length < 2^32 then [0xFF, 0xFE] ++ beEncode 4 aad.length
      else [0xFF, 0xFF] ++ beEncode 8 aad.length
    else []
  let macData := b0 ++ aadLenEncoded ++ aad
  let macData := padWithZeroes macData 16
  let macData := if msg ≠ [] then padWithZeroes (macData ++ msg) 16 else macData
  -- self._cbc.IV = 0; cbcmac = self._cbc.encrypt(mac_data)
  let (_, cbcmac) ← Modes.Model.cbcEncrypt E (zeros 16) macData
  if tagLength = 16 then pure (cbcmac.drop (cbcmac.length - 16))
  else pure ((cbcmac.drop (cbcmac.length - 16)).take (cbcmac.length - (16 - tagLength) - (cbcmac.length - 16)))

/-- `s_0 = bytearray([flags]) + nonce + numberToByteArray(0, L)` -/
def s0 (nonce : Bytes) : Except Err Bytes := do
  let L := 15 - nonce.length
  pure ((← oneByte (L - 1)) ++ nonce ++ beEncode L 0)

/-- `seal(nonce, msg, aad)`; the CTR object has `_counter_bytes = 0` and its counter is assigned -/
def aseal (E : Bytes → Bytes) (tagLength : Nat) (nonce msg aad : Bytes) : Except Err Bytes :=
  if nonce.length ≠ 12 then .error .value else do
    let s_0 ← s0 nonce
    let mac ← cbcmacCalc E tagLength nonce aad msg
    let ctr : Modes.Model.Ctr := { counter := s_0, counterBytes := 0 }
    let (ctr, authValue) ←
      if tagLength = 16 then Modes.Model.ctrEncrypt E ctr mac
      else if tagLength ≠ 8 then .error .assertion
      else do
        let r ← Modes.Model.ctrEncrypt E ctr (padWithZeroes mac 16)
        pure (r.1, r.2.take 8)
    let (_, encMsg) ← Modes.Model.ctrEncrypt E ctr msg
    pure (encMsg ++ authValue)

/-- `open(nonce, ciphertext, aad)` -/
def aopen (E : Bytes → Bytes) (tagLength : Nat) (nonce ciphertext aad : Bytes) : Except Err (Option Bytes) :=
  if nonce.length ≠ 12 then .error .value
  else if tagLength = 16 ∧ ciphertext.length < 16 then .ok none
  else if tagLength = 8 ∧ ciphertext.length < 8 then .ok none
  else do
    let s_0 ← s0 nonce
    let authValue := ciphertext.drop (ciphertext.length - tagLength)
    let ctr : Modes.Model.Ctr := { counter := s_0, counterBytes := 0 }
    let (ctr, receivedMac) ←
      if tagLength = 16 then Modes.Model.ctrEncrypt E ctr authValue
      else if tagLength ≠ 8 then .error .assertion
      else do
        let r ← Modes.Model.ctrEncrypt E ctr (padWithZeroes authValue 16)
        pure (r.1, r.2.take 8)
    let (_, msg) ← Modes.Model.ctrEncrypt E ctr ciphertext
    let msg := msg.take (msg.length - tagLength)
    let computedMac ← cbcmacCalc E tagLength nonce aad msg
    if receivedMac ≠ computedMac then pure none else pure (some msg)

end Model

/-! ## RFC 3610 -/
namespace Spec

def pad16 (x : Bytes) : Bytes := x ++ zeros ((16 - x.length % 16) % 16)

/-- §2.2 the encoding of l(a) -/
def encodeAadLen (la : Nat) : Bytes :=
  if la = 0 then []
  else if la < 2^16 - 2^8 then beEncode 2 la
  else if la < 2^32 then [0xFF, 0xFE] ++ beEncode 4 la
  else [0xFF, 0xFF] ++ beEncode 8 la

/-- §2.2 B_0 = flags ‖ N ‖ l(m), flags = 64·Adata + 8·((M−2)/2) + (L−1) -/
def b0 (M : Nat) (N a m : Bytes) : Bytes :=
  let L := 15 - N.length
  [UInt8.ofNat (64 * (if a.length = 0 then 0 else 1) + 8 * ((M - 2) / 2) + (L - 1))] ++ N ++ beEncode L m.length

/-- §2.2 the sequence of authentication blocks B_0, B_1, … -/
def authBlocks (M : Nat) (N a m : Bytes) : List Bytes :=
  chunks 16 (b0 M N a m ++ pad16 (encodeAadLen a.length ++ a) ++ pad16 m)

/-- §2.2 X_1 = E(B_0), X_{i+1} = E(X_i ⊕ B_i); T = first M bytes of the last X -/
def cbcMac (E : Bytes → Bytes) (blocks : List Bytes) : Bytes :=
  blocks.foldl (fun X B => E (xorBytes X B)) (zeros 16)

def tagT (E : Bytes → Bytes) (M : Nat) (N a m : Bytes) : Bytes := (cbcMac E (authBlocks M N a m)).take M

/-- §2.3 A_i = flags ‖ N ‖ [i]_L with flags = L − 1 -/
def ctrBlock (N : Bytes) (i : Nat) : Bytes :=
  let L := 15 - N.length
  [UInt8.ofNat (L - 1)] ++ N ++ beEncode L i

/-- §2.3 S_1 ‖ S_2 ‖ … -/
def keyStream (E : Bytes → Bytes) (N : Bytes) (n : Nat) : Bytes :=
  (List.range n).flatMap fun i => E (ctrBlock N (i + 1))

/-- §2.3 the encrypted message: m ⊕ first l(m) bytes of S_1 ‖ S_2 ‖ … -/
def encryptMsg (E : Bytes → Bytes) (N m : Bytes) : Bytes :=
  xorBytes m (keyStream E N (divceil m.length 16))

/-- §2.3 U = T ⊕ first-M-bytes(S_0); §2.4 output c ‖ U -/
def aseal (E : Bytes → Bytes) (M : Nat) (N m a : Bytes) : Bytes :=
  encryptMsg E N m ++ xorBytes (tagT E M N a m) ((E (ctrBlock N 0)).take M)

/-- §2.5 decryption: recover m and T, recompute T, FAIL (`none`) on mismatch -/
def aopen (E : Bytes → Bytes) (M : Nat) (N c a : Bytes) : Option Bytes :=
  if c.length < M then none else
    let m := encryptMsg E N (c.take (c.length - M))
    let T := xorBytes (c.drop (c.length - M)) ((E (ctrBlock N 0)).take M)
    if T = tagT E M N a m then some m else none

end Spec

end Tls.Crypto.Ccm
