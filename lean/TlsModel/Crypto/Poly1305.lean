import TlsModel.Crypto.ChaCha
/-
  C09 — Poly1305 (tlslite/utils/poly1305.py) and the ChaCha20-Poly1305 AEAD
  (tlslite/utils/chacha20_poly1305.py).
  `Model` transliterates the Python; `Spec` is RFC 8439 §2.5 (as the polynomial it defines), §2.6, §2.8.
-/
namespace Tls.Crypto.Poly1305

namespace Model

def P : Nat := 0x3fffffffffffffffffffffffffffffffb

/-- `le_bytes_to_num`: `for i in range(len(data)-1, -1, -1): ret <<= 8; ret += data[i]` -/
def leBytesToNum (data : Bytes) : Nat :=
  data.reverse.foldl (fun ret b => (ret <<< 8) + b.toNat) 0

/-- `num_to_16_le_bytes`: 16 times `ret[i] = num & 0xff; num >>= 8` -/
def numToLe : Nat → Nat → Bytes
  | 0, _ => []
  | n+1, num => UInt8.ofNat (num &&& 0xff) :: numToLe n (num >>> 8)

def numTo16LeBytes (num : Nat) : Bytes := numToLe 16 num

structure St where
  acc : Nat
  r : Nat
  s : Nat

/-- `Poly1305.__init__` -/
def init (key : Bytes) : Except Err St :=
  if key.length ≠ 32 then .error .value else
    let r := leBytesToNum (key.take 16)
    let r := r &&& 0x0ffffffc0ffffffc0ffffffc0fffffff
    .ok { acc := 0, r := r, s := leBytesToNum ((key.drop 16).take 16) }

/-- `create_tag`: returns the tag and the object with the updated accumulator -/
def createTag (st : St) (data : Bytes) : St × Bytes :=
  let acc := (List.range (divceil data.length 16)).foldl (fun acc i =>
      let n := leBytesToNum ((data.drop (i*16)).take 16 ++ [1])
      let acc := acc + n
      (st.r * acc) % P) st.acc
  let acc := acc + st.s
  ({ st with acc := acc }, numTo16LeBytes acc)

end Model

namespace Spec

def p : Nat := 2^130 - 5

/-- §2.5: r[3], r[7], r[11], r[15] have their top four bits clear, r[4], r[8], r[12] their
    bottom two bits clear -/
def clampBytes (r : Bytes) : Bytes :=
  r.mapIdx fun i b =>
    if i = 3 ∨ i = 7 ∨ i = 11 ∨ i = 15 then b &&& 15
    else if i = 4 ∨ i = 8 ∨ i = 12 then b &&& 252
    else b

/-- Σ c_j · r^(q-j) for the coefficient list c_1 … c_q -/
def polyEval (r : Nat) : List Nat → Nat
  | [] => 0
  | c :: cs => c * r ^ (cs.length + 1) + polyEval r cs

/-- the coefficient of a block: its little-endian number with one extra 0x01 byte -/
def coeff (block : Bytes) : Nat := leNum block + 2 ^ (8 * block.length)

/-- §2.5: the tag: the polynomial with the message blocks as coefficients evaluated at the
    clamped `r` modulo 2^130-5, plus `s`, low 128 bits, little endian -/
def mac (key msg : Bytes) : Bytes :=
  let r := leNum (clampBytes (key.take 16))
  let s := leNum ((key.drop 16).take 16)
  let h := polyEval r ((chunks 16 msg).map coeff) % p
  leBytes 16 ((h + s) % 2^128)

end Spec

end Tls.Crypto.Poly1305

namespace Tls.Crypto.ChaChaPoly

namespace Model
open Tls.Crypto.ChaCha.Model Tls.Crypto.Poly1305.Model

/-- `struct.pack('<Q', n)` -/
def packQ (n : Nat) : Except Err Bytes :=
  if n < 2^64 then .ok (leBytes 8 n) else .error .struct

/-- `CHACHA20_POLY1305.__init__` keeps the key (any other length raises) -/
def new (key : Bytes) : Except Err Bytes :=
  if key.length ≠ 32 then .error .value else .ok key

/-- `poly1305_key_gen` -/
def poly1305KeyGen (key nonce : Bytes) : Except Err Bytes := do
  let poly ← ChaCha.Model.init key nonce
  ChaCha.Model.encrypt poly (zeros 32)

/-- `pad16` -/
def pad16 (data : Bytes) : Bytes :=
  if data.length % 16 = 0 then [] else zeros (16 - data.length % 16)

/-- the MAC input built in `seal` and `open`, then `Poly1305(otk).create_tag(mac_data)` -/
def tagOf (otk data ciphertext : Bytes) : Except Err Bytes := do
  let macData := data ++ pad16 data
  let macData := macData ++ (ciphertext ++ pad16 ciphertext)
  let macData := macData ++ (← packQ data.length)
  let macData := macData ++ (← packQ ciphertext.length)
  let st ← Poly1305.Model.init otk
  pure (createTag st macData).2

/-- `seal(nonce, plaintext, data)` -/
def aseal (key nonce plaintext data : Bytes) : Except Err Bytes :=
  if nonce.length ≠ 12 then .error .value else do
    let otk ← poly1305KeyGen key nonce
    let c ← ChaCha.Model.init key nonce 1
    let ciphertext ← ChaCha.Model.encrypt c plaintext
    let tag ← tagOf otk data ciphertext
    pure (ciphertext ++ tag)

/-- `open(nonce, ciphertext, data)`: `none` is Python's `None`.
    `ct_compare_digest` is `hmac.compare_digest` (CPython), modelled as equality. -/
def aopen (key nonce ciphertext data : Bytes) : Except Err (Option Bytes) :=
  if nonce.length ≠ 12 then .error .value
  else if ciphertext.length < 16 then .ok none
  else do
    let expectedTag := ciphertext.drop (ciphertext.length - 16)
    let ciphertext := ciphertext.take (ciphertext.length - 16)
    let otk ← poly1305KeyGen key nonce
    let tag ← tagOf otk data ciphertext
    if tag ≠ expectedTag then pure none
    else do
      let c ← ChaCha.Model.init key nonce 1
      let pt ← ChaCha.Model.decrypt c ciphertext
      pure (some pt)

end Model

/-! RFC 8439 §2.6 and §2.8 -/
namespace Spec

/-- §2.6 poly1305_key_gen: the first 32 bytes of block 0 -/
def polyKeyGen (key nonce : Bytes) : Bytes := (ChaCha.Spec.block key 0#32 nonce).take 32

def pad16 (x : Bytes) : Bytes := zeros ((16 - x.length % 16) % 16)

/-- §2.8 the authenticated data -/
def macData (aad ciphertext : Bytes) : Bytes :=
  aad ++ pad16 aad ++ ciphertext ++ pad16 ciphertext ++ leBytes 8 aad.length ++ leBytes 8 ciphertext.length

def tag (key nonce aad ciphertext : Bytes) : Bytes :=
  Poly1305.Spec.mac (polyKeyGen key nonce) (macData aad ciphertext)

/-- §2.8 chacha20_aead_encrypt -/
def aseal (key nonce plaintext aad : Bytes) : Bytes :=
  let ct := ChaCha.Spec.encrypt key 1 nonce plaintext
  ct ++ tag key nonce aad ct

/-- §2.8.  decryption: recompute the tag over the received ciphertext, compare, decrypt -/
def aopen (key nonce c aad : Bytes) : Option Bytes :=
  if c.length < 16 then none else
    let ct := c.take (c.length - 16)
    if c.drop (c.length - 16) = tag key nonce aad ct then some (ChaCha.Spec.encrypt key 1 nonce ct)
    else none

end Spec

end Tls.Crypto.ChaChaPoly
