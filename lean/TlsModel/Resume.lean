import TlsModel.Basic
/-
  C13 — session resumption (session ID, TLS<=1.2 session tickets, TLS 1.3 PSK tickets).

  The model mirrors, path by path,
    * tlslite/tlsconnection.py `_serverGetClientHello` (resumption block), `_ticket_to_session`,
      `_tryDecrypt`, `_serverSendTickets`, `_serverTLS13Handshake` (PSK selection, binder check,
      key-exchange mode), `_clientSendClientHello` (what is offered, expiry pruning),
      `_clientResume`, `_clientTLS13Handshake` (`resuming`), `_handshakeClientAsyncHelper`
      (session.valid / ValueError checks),
    * tlslite/session.py `Session.valid`, `Ticket.valid`,
    * tlslite/tlsrecordlayer.py `_shutdown(resumable)`,
    * tlslite/sessioncache.py `__getitem__` / `__setitem__` / `_purge`.
  Crypto is abstract: the ticket AEAD (+ SessionTicketPayload.parse) is a function
  `aeadOpen key nonce ct : Option Payload`; a PSK binder is a tag naming the (psk, hash, label) it
  was computed with (an HMAC verifies iff it was computed with the same inputs).  The session
  cache enters the decision function as a function parameter `lookup`.
  The model mirrors the current code (after the fix commits 7b85426 TLS 1.3 ticket lifetime,
  dfc28ae TLS 1.3 server `resumed` flag, 9d20076 client fallback when a ticket is declined).
-/
namespace Tls.Resume

abbrev Ver := Nat × Nat

inductive Alert where
  | illegal_parameter | handshake_failure | unexpected_message | bad_record_mac
deriving DecidableEq, Repr

inductive Hash where
  | sha256 | sha384
deriving DecidableEq, Repr

/-- SessionTicketPayload (messages.py): what the server seals into a ticket.  `secret` names the
    master secret (<=1.2) / resumption master secret (1.3); `completed` is a ghost flag: the
    handshake that produced the ticket got as far as verifying the client's Finished. -/
structure Payload where
  secret : Nat
  version : Ver
  suite : Nat
  created : Nat
  clientId : Option Nat
  etm : Bool
  ems : Bool
  serverName : Bytes
  completed : Bool
deriving DecidableEq, Repr

/-- server-side `Session` object (fields that matter for resumption) -/
structure Sess where
  secret : Nat
  sessionID : Bytes
  suite : Nat
  srpUsername : Bytes
  clientId : Option Nat
  serverName : Bytes
  resumable : Bool
  etm : Bool
  ems : Bool
  version : Ver
  completed : Bool
deriving DecidableEq, Repr

structure Env where
  /-- AEAD open under the key derived from (user key, nonce), followed by payload parsing;
      `none` = tag failure or ValueError of the parser (`continue` in `_tryDecrypt`) -/
  aeadOpen : Nat → Bytes → Bytes → Option Payload
  /-- CipherSuite.sha384PrfSuites -/
  sha384 : List Nat

inductive Psk where
  | external (id : Nat)
  | resumption (secret : Nat)
deriving DecidableEq, Repr

/-- what a binder HMAC was computed with (psk, hash, label external/resumption) -/
structure BinderTag where
  psk : Psk
  hash : Hash
  ext : Bool
deriving DecidableEq, Repr

structure PskIdent where
  identity : Bytes
  binder : Option BinderTag     -- none: bytes that verify under nothing
deriving DecidableEq, Repr

structure PskConfig where
  identity : Bytes
  psk : Nat
  hash : Hash
deriving DecidableEq, Repr

/-- PskKeyExchangeMode: 0 = psk_ke, 1 = psk_dhe_ke -/
def pskKe : Nat := 0
def pskDheKe : Nat := 1

structure Hello where
  sessionId : Bytes
  ticket : Option Bytes           -- session_ticket extension (none = absent, some [] = empty)
  suites : List Nat
  srpUsername : Bytes
  serverName : Bytes
  etm : Bool
  ems : Bool
  psk : Option (List PskIdent)    -- pre_shared_key extension
  pskModes : List Nat             -- psk_key_exchange_modes
deriving DecidableEq, Repr

structure SrvSettings where
  ticketKeys : List Nat
  ticketLifetime : Nat
  ticketCount : Nat
  allowed : List Nat              -- `cipherSuites` the server computed for the negotiated version
  hasCache : Bool
  pskConfigs : List PskConfig
  pskModes : List Nat
  hasCert : Bool
deriving Repr

inductive Decision where
  | resume (s : Sess)
  | external (i : Nat)            -- TLS 1.3 external PSK selected (not a resumption)
  | full
  | alert (a : Alert)
  | assertionError                -- `raise AssertionError()` (not caught by `except KeyError`)
deriving DecidableEq, Repr

/-! ### ticket decryption -/

/-- `for user_key in settings.ticketKeys: ... if not ticket: continue ... return` -/
def tryDecrypt (env : Env) (keys : List Nat) (nonce ct : Bytes) : Option Payload :=
  keys.findSome? (fun k => env.aeadOpen k nonce ct)

/-- version < (3,4): `nonce, encrypted_ticket = ticket[:32], ticket[32:]` -/
def tryDecrypt12 (env : Env) (keys : List Nat) (ticket : Bytes) : Option Payload :=
  tryDecrypt env keys (ticket.take 32) (ticket.drop 32)

/-- version >= (3,4): identities shorter than 33 bytes are not tickets -/
def tryDecrypt13 (env : Env) (keys : List Nat) (identity : Bytes) : Option Payload :=
  if identity.length < 33 then none else tryDecrypt env keys (identity.take 32) (identity.drop 32)

def sessOfPayload (p : Payload) : Sess :=
  { secret := p.secret, sessionID := [], suite := p.suite, srpUsername := [], clientId := p.clientId,
    serverName := p.serverName, resumable := true, etm := p.etm, ems := p.ems, version := p.version,
    completed := p.completed }

/-- `_ticket_to_session` -/
def ticketToSession (env : Env) (st : SrvSettings) (now : Nat) (ticket : Bytes) : Option Sess :=
  if ticket.isEmpty then none else
  match tryDecrypt12 env st.ticketKeys ticket with
  | none => none
  | some p => if p.created + st.ticketLifetime < now then none else some (sessOfPayload p)

/-- `Session.valid()` for a server-side object (its `tickets` is the connection's always-empty
    list, `tls_1_0_tickets` is None) -/
def valid (s : Sess) : Bool := s.resumable && !s.sessionID.isEmpty

/-- the checks between "a session was found" and "If a session is found.." -/
def checkSession (st : SrvSettings) (h : Hello) (s : Sess) : Decision :=
  if !s.resumable then .assertionError
  else if !(st.allowed.contains s.suite) then .full
  else if !(h.suites.contains s.suite) then .alert .illegal_parameter
  else if !h.srpUsername.isEmpty && (s.srpUsername.isEmpty || h.srpUsername != s.srpUsername) then
    .alert .handshake_failure
  else if !h.serverName.isEmpty && (s.serverName.isEmpty || h.serverName != s.serverName) then
    .alert .handshake_failure
  else if s.etm && !h.etm then .alert .illegal_parameter
  else if s.ems && !h.ems then .alert .handshake_failure
  else if !s.ems && h.ems then .full
  else .resume s

def ticketNonEmpty (h : Hello) : Bool :=
  match h.ticket with
  | some t => !t.isEmpty
  | none => false

/-- session found through the ticket (with the client's session_id echoed into it) -/
def sessionFromTicket (env : Env) (st : SrvSettings) (now : Nat) (h : Hello) : Option Sess :=
  match h.ticket with
  | some t => (ticketToSession env st now t).map
      (fun s => if h.sessionId.isEmpty then s else { s with sessionID := h.sessionId })
  | none => none

/-- `sessionCache[clientHello.session_id]` with `lookup` = dictionary after `_purge` -/
def cacheGet (lookup : Bytes → Option Sess) (id : Bytes) : Option Sess :=
  (lookup id).bind (fun s => if valid s then some s else none)

/-- session found by the `try:` block before the consistency checks -/
def findSession (env : Env) (lookup : Bytes → Option Sess) (now : Nat) (st : SrvSettings) (h : Hello) :
    Option Sess :=
  let s1 := sessionFromTicket env st now h
  if s1.isNone && !ticketNonEmpty h && st.hasCache && !h.sessionId.isEmpty then
    cacheGet lookup h.sessionId
  else s1

/-- SSLv3 … TLS 1.2 server: resumption block of `_serverGetClientHello` -/
def serverResume12 (env : Env) (lookup : Bytes → Option Sess) (now : Nat) (st : SrvSettings)
    (h : Hello) : Decision :=
  if (!h.sessionId.isEmpty && st.hasCache) || ticketNonEmpty h then
    match findSession env lookup now st h with
    | none => .full
    | some s => checkSession st h s
  else .full

/-! ### TLS 1.3 PSK selection -/

def hashOfSuite (sha384 : List Nat) (suite : Nat) : Hash :=
  if sha384.contains suite then .sha384 else .sha256

def prfOf (env : Env) (suite : Nat) : Hash := hashOfSuite env.sha384 suite

inductive PskSel where
  | none
  | selected (i : Nat) (ticket : Option Payload)
  | alert (a : Alert)
deriving DecidableEq, Repr

/-- the `for i, ident in enumerate(psks.identities)` loop -/
def selectPskFrom (env : Env) (st : SrvSettings) (now : Nat) (ver : Ver) (prf : Hash) :
    List PskIdent → Nat → PskSel
  | [], _ => .none
  | id :: rest, i =>
    match st.pskConfigs.find? (fun c => c.identity == id.identity) with
    | some c =>
      if c.hash != prf then selectPskFrom env st now ver prf rest (i + 1)
      else if id.binder == some ⟨.external c.psk, c.hash, true⟩ then .selected i none
      else .alert .illegal_parameter
    | none =>
      match tryDecrypt13 env st.ticketKeys id.identity with
      | none => selectPskFrom env st now ver prf rest (i + 1)
      | some p =>
        if ver != p.version then selectPskFrom env st now ver prf rest (i + 1)
        else if p.created + st.ticketLifetime < now then selectPskFrom env st now ver prf rest (i + 1)
        else if prfOf env p.suite != prf then selectPskFrom env st now ver prf rest (i + 1)
        else if id.binder == some ⟨.resumption p.secret, prfOf env p.suite, false⟩ then
          .selected i (some p)
        else .alert .illegal_parameter

def serverPsk13 (env : Env) (st : SrvSettings) (now : Nat) (ver : Ver) (prf : Hash) (h : Hello) :
    PskSel :=
  match h.psk with
  | none => .none
  | some ids =>
    if (h.pskModes.contains pskDheKe || h.pskModes.contains pskKe) &&
        (!st.pskConfigs.isEmpty || !st.ticketKeys.isEmpty) then
      selectPskFrom env st now ver prf ids 0
    else .none

/-- key-exchange mode selection after the PSK loop: `false` = handshake_failure -/
def kexOk13 (st : SrvSettings) (h : Hello) (pskSelected : Bool) : Bool :=
  (pskSelected && h.pskModes.contains pskDheKe && st.pskModes.contains pskDheKe) ||
  (!pskSelected && st.hasCert) ||
  (pskSelected && h.pskModes.contains pskKe && st.pskModes.contains pskKe)

def serverResume13 (env : Env) (st : SrvSettings) (now : Nat) (ver : Ver) (prf : Hash) (h : Hello) :
    Decision :=
  match serverPsk13 env st now ver prf h with
  | .alert a => .alert a
  | .none => if kexOk13 st h false then .full else .alert .handshake_failure
  | .selected i none => if kexOk13 st h true then .external i else .alert .handshake_failure
  | .selected _ (some p) =>
    if kexOk13 st h true then .resume (sessOfPayload p) else .alert .handshake_failure

/-- The server's decision.  `ver` is the negotiated version, `prf` the PRF hash of the cipher
    suite negotiated for a TLS 1.3 handshake. -/
def resumeDecision (env : Env) (lookup : Bytes → Option Sess) (now : Nat) (st : SrvSettings)
    (ver : Ver) (prf : Hash) (h : Hello) : Decision :=
  if ver.1 = 3 ∧ ver.2 ≥ 4 then serverResume13 env st now ver prf h
  else serverResume12 env lookup now st h

/-- security parameters of a connection, as observable on the server's `conn.session` -/
structure Params where
  suite : Nat
  ems : Bool
  etm : Bool
  serverName : Bytes
  clientId : Option Nat
deriving DecidableEq, Repr

def Sess.params (s : Sess) : Params :=
  { suite := s.suite, ems := s.ems, etm := s.etm, serverName := s.serverName, clientId := s.clientId }

def Payload.params (p : Payload) : Params :=
  { suite := p.suite, ems := p.ems, etm := p.etm, serverName := p.serverName, clientId := p.clientId }

/-- parameters of the resumed connection: <=1.2 `self.session = session`; TLS 1.3 creates a new
    Session from the new ServerHello's suite and the new ClientHello's server_name, inheriting only
    the client certificate chain of the ticket -/
def resumedParams (ver : Ver) (nsuite : Nat) (h : Hello) (s : Sess) : Params :=
  if ver.1 = 3 ∧ ver.2 ≥ 4 then
    { suite := nsuite, ems := true, etm := false, serverName := h.serverName, clientId := s.clientId }
  else s.params

/-! ### `_shutdown(resumable)` -/

/-- `if not resumable and self.session: self.session.resumable = False` -/
def Sess.shutdown (s : Sess) (resumable : Bool) : Sess :=
  if !resumable then { s with resumable := false } else s

/-! ### client side -/

structure Tkt10 where
  ticket : Bytes
  lifetime : Nat
  received : Nat
deriving DecidableEq, Repr

structure Tkt13 where
  ticket : Bytes
  lifetime : Nat
  time : Nat
deriving DecidableEq, Repr

/-- client-side `Session` object -/
structure CSess where
  secret : Nat
  sessionID : Bytes
  suite : Nat
  srpUsername : Bytes
  serverName : Bytes
  resumable : Bool
  etm : Bool
  ems : Bool
  tickets10 : List Tkt10
  tickets13 : List Tkt13
deriving DecidableEq, Repr

def CSess.shutdown (s : CSess) (resumable : Bool) : CSess :=
  if !resumable then { s with resumable := false } else s

/-- `Session.valid()` -/
def cvalid (s : CSess) : Bool :=
  s.resumable && (!s.sessionID.isEmpty || !s.tickets13.isEmpty || !s.tickets10.isEmpty)

structure CliSettings where
  maxVersion : Ver
  suites : List Nat               -- cipher suites of the ClientHello (without SCSV)
  ems : Bool                      -- useExtendedMasterSecret
  etm : Bool                      -- useEncryptThenMAC
  pskConfigs : List PskConfig
  pskModes : List Nat
deriving Repr

/-- `if session: if not session.valid(): session = None elif session.resumable: ValueError checks`;
    `none` = ValueError raised before anything is sent -/
def clientPrepare (sess : Option CSess) (srp sni : Bytes) : Option (Option CSess) :=
  match sess with
  | none => some none
  | some s =>
    if !cvalid s then some none
    else if s.resumable then
      if s.srpUsername != srp then none
      else if s.serverName != sni then none
      else some (some s)
    else some (some s)

/-- `Ticket.valid()` pruning of `tls_1_0_tickets` -/
def prune10 (now : Nat) (l : List Tkt10) : List Tkt10 :=
  l.filter (fun t => decide (now < t.received + t.lifetime))

/-- pruning of TLS 1.3 tickets (lifetime, and the 7 day cap) -/
def prune13 (now : Nat) (l : List Tkt13) : List Tkt13 :=
  l.filter (fun t => decide (t.time + t.lifetime > now) && decide (t.time + 604800 > now))

def tls13Advertised (cs : CliSettings) : Bool := decide (cs.maxVersion.1 = 3 ∧ cs.maxVersion.2 ≥ 4)

def noExtensions (cs : CliSettings) : Bool := cs.maxVersion == (3, 0)

/-- `session.tls_1_0_tickets[:] = [i for i in ... if i.valid()]` (only when the list is non-empty) -/
def pruneSess10 (now : Nat) (s : CSess) : CSess :=
  if !s.tickets10.isEmpty then { s with tickets10 := prune10 now s.tickets10 } else s

/-- `session.tickets[:] = (i for i in session.tickets if ...)` (only when the list is non-empty) -/
def pruneSess13 (now : Nat) (s : CSess) : CSess :=
  if !s.tickets13.isEmpty then { s with tickets13 := prune13 now s.tickets13 } else s

/-- whether the pre_shared_key block of `_clientSendClientHello` runs -/
def usePsk (cs : CliSettings) (sess1 : Option CSess) : Bool :=
  (!cs.pskConfigs.isEmpty || (match sess1 with | some s => !s.tickets13.isEmpty | none => false)) &&
    tls13Advertised cs

/-- the offered session object after the in-place pruning done while building the ClientHello -/
def clientSession (cs : CliSettings) (sess : Option CSess) (now : Nat) : Option CSess :=
  let sess1 := sess.map (pruneSess10 now)
  if usePsk cs sess1 then sess1.map (pruneSess13 now) else sess1

/-- the ClientHello built from the (pruned) session object; `none` = ValueError (session suite
    not among the offered ones).  `freshSid`: the random session id used when TLS 1.3 is advertised
    or (RFC 5077 3.4) a session ticket is offered.  The resumption binder is computed with the hash
    of the session's suite (`len(res_master_secret)`). -/
def helloOf (sha384 : List Nat) (cs : CliSettings) (sess2 : Option CSess) (srp sni : Bytes)
    (freshSid : Bytes) : Option Hello :=
  let ticketExt : Option Bytes :=
    if noExtensions cs then none else
    match sess2 with
    | some s => (match s.tickets10 with
                 | t :: _ => some t.ticket
                 | [] => some [])
    | none => some []
  let resIdent : List PskIdent :=
    match sess2 with
    | some s => (match s.tickets13 with
                 | t :: _ => [{ identity := t.ticket,
                                binder := some ⟨.resumption s.secret, hashOfSuite sha384 s.suite, false⟩ }]
                 | [] => [])
    | none => []
  let extIdents : List PskIdent := (cs.pskConfigs.filter (fun c => !c.identity.isEmpty)).map
    (fun c => { identity := c.identity, binder := some ⟨.external c.psk, c.hash, true⟩ })
  let idents := resIdent ++ extIdents
  let pskExt : Option (List PskIdent) :=
    if (!cs.pskConfigs.isEmpty || !resIdent.isEmpty) && tls13Advertised cs && !idents.isEmpty
    then some idents else none
  let modes : List Nat := if tls13Advertised cs then cs.pskModes else []
  let ems := cs.ems && !noExtensions cs
  let etm := cs.etm && !noExtensions cs
  let randomSid : Bytes :=
    if tls13Advertised cs || (match sess2 with | some s => !s.tickets10.isEmpty | none => false)
    then freshSid else []
  match sess2 with
  | some s =>
    if !s.sessionID.isEmpty then
      if !(cs.suites.contains s.suite) then none
      else some { sessionId := s.sessionID, ticket := ticketExt, suites := cs.suites,
                  srpUsername := s.srpUsername, serverName := s.serverName, etm := etm,
                  ems := ems, psk := pskExt, pskModes := modes }
    else some { sessionId := randomSid, ticket := ticketExt, suites := cs.suites, srpUsername := srp,
                serverName := sni, etm := etm, ems := ems, psk := pskExt, pskModes := modes }
  | none => some { sessionId := randomSid, ticket := ticketExt, suites := cs.suites,
                   srpUsername := srp, serverName := sni, etm := etm, ems := ems, psk := pskExt,
                   pskModes := modes }

/-- `_clientSendClientHello` (resumption related parts): the ClientHello together with the
    session object after in-place pruning -/
def clientHello (sha384 : List Nat) (cs : CliSettings) (sess : Option CSess) (srp sni : Bytes)
    (now : Nat) (freshSid : Bytes) : Option (Option CSess × Hello) :=
  let sess2 := clientSession cs sess now
  (helloOf sha384 cs sess2 srp sni freshSid).map (fun h => (sess2, h))

inductive CBelief where
  | resumed
  | full
  | alert (a : Alert)
deriving DecidableEq, Repr

/-- `_clientResume` (SSLv3 … TLS 1.2): what the client concludes from the ServerHello -/
def clientResume12 (sess : Option CSess) (sentSid : Bytes) (shSid : Bytes) (shSuite : Nat) : CBelief :=
  match sess with
  | none => .full
  | some s =>
    if (!s.sessionID.isEmpty && shSid == s.sessionID) ||
        (!s.tickets10.isEmpty && !sentSid.isEmpty && shSid == sentSid) then
      if shSuite != s.suite then .alert .illegal_parameter else .resumed
    else .full

/-- `_clientTLS13Handshake`: `resuming` (none = IndexError on `identities[selected]`) -/
def clientResume13 (cs : CliSettings) (ids : List PskIdent) (selected : Option Nat) : Option Bool :=
  match selected with
  | none => some false
  | some i =>
    match ids[i]? with
    | none => none
    | some id => some (!(cs.pskConfigs.any (fun c => c.identity == id.identity)))

/-! ### joint outcome of one handshake -/

inductive EndState where
  | done
  | localAlert (a : Alert)
  | remoteAlert (a : Alert)
  | raised                         -- an exception that is not a TLS alert
deriving DecidableEq, Repr

structure Outcome where
  cState : EndState
  sState : EndState
  cResumed : Bool
  sResumed : Bool
deriving DecidableEq, Repr

def Outcome.bothDone (o : Outcome) : Bool := o.cState == .done && o.sState == .done

/-- SSLv3 … TLS 1.2: the server's decision against what the client concludes from the ServerHello.
    `newSid`/`nsuite`: session id and suite of the ServerHello of a full handshake. -/
def outcome12 (dec : Decision) (sess : Option CSess) (sentSid : Bytes) (newSid : Bytes) (nsuite : Nat) :
    Outcome :=
  match dec with
  | .alert a => ⟨.remoteAlert a, .localAlert a, false, false⟩
  | .assertionError => ⟨.raised, .raised, false, false⟩
  | .external _ => ⟨.raised, .raised, false, false⟩
  | .resume s =>
    (match clientResume12 sess sentSid s.sessionID s.suite with
     | .resumed =>
       -- both ends derive the keys from their own copy of the master secret; the client cannot
       -- read the server's Finished unless it holds the session's secret
       if (sess.map (·.secret)) == some s.secret then ⟨.done, .done, true, true⟩
       else ⟨.localAlert .bad_record_mac, .remoteAlert .bad_record_mac, false, false⟩
     | .alert a => ⟨.localAlert a, .remoteAlert a, false, false⟩
     -- abbreviated handshake against a client that expects Certificate
     | .full => ⟨.localAlert .unexpected_message, .remoteAlert .unexpected_message, false, false⟩)
  | .full =>
    (match clientResume12 sess sentSid newSid nsuite with
     | .full => ⟨.done, .done, false, false⟩
     | .alert a => ⟨.localAlert a, .remoteAlert a, false, false⟩
     -- full handshake against a client that expects NewSessionTicket / ChangeCipherSpec
     | .resumed => ⟨.localAlert .unexpected_message, .remoteAlert .unexpected_message, false, false⟩)

/-- server side `resuming = not external` of `_serverTLS13Handshake` -/
def serverResuming13 : Decision → Bool
  | .resume _ => true
  | _ => false

/-- TLS 1.3: the client's `resuming` against the server's -/
def outcome13 (dec : Decision) (cs : CliSettings) (h : Hello) (selected : Option Nat) : Outcome :=
  match dec with
  | .alert a => ⟨.remoteAlert a, .localAlert a, false, false⟩
  | .assertionError => ⟨.raised, .raised, false, false⟩
  | _ =>
    (match clientResume13 cs (h.psk.getD []) selected with
     | none => ⟨.raised, .raised, false, false⟩
     | some r => ⟨.done, .done, r, serverResuming13 dec⟩)

def selectedIndex (env : Env) (st : SrvSettings) (now : Nat) (ver : Ver) (prf : Hash) (h : Hello) :
    Option Nat :=
  match serverPsk13 env st now ver prf h with
  | .selected i _ => some i
  | _ => none

/-! ### session cache (sessioncache.py) -/

/-- entries oldest first: (session id, time stored, index of the session object / none = filler) -/
structure Cache where
  cap : Nat
  maxAge : Nat
  entries : List (Bytes × Nat × Option Nat)
deriving Repr

/-- `_purge`: drop expired entries from the old end until the first live one -/
def Cache.purge (c : Cache) (now : Nat) : Cache :=
  { c with entries := c.entries.dropWhile (fun e => decide (now > e.2.1 + c.maxAge)) }

/-- `entriesDict[id]` (newest entry wins) -/
def Cache.find (c : Cache) (id : Bytes) : Option (Option Nat) :=
  (c.entries.reverse.find? (fun e => e.1 == id)).map (·.2.2)

/-- `__setitem__`: the ring holds at most `cap - 1` entries -/
def Cache.set (c : Cache) (id : Bytes) (now : Nat) (idx : Option Nat) : Cache :=
  let es := c.entries ++ [(id, now, idx)]
  { c with entries := if es.length ≥ c.cap then es.drop 1 else es }

/-! ### histories -/

structure ConnRec where
  cobj : Option Nat               -- client-side `conn.session` (index into `cheap`)
  sobj : Option Nat               -- server-side `conn.session` (index into `sheap`)
  resumedFrom : Option Nat        -- `secret` of the session it was resumed from
  params : Option Params          -- server-side parameters when the handshake completed
deriving Repr

structure World where
  nowC : Nat
  nowS : Nat
  sheap : List Sess
  cheap : List CSess
  caches : List (Option Cache)
  sealed : List (Bytes × Nat × Payload)     -- ticket bytes, key it was sealed under, contents
  conns : List ConnRec
deriving Repr

def World.init : World :=
  { nowC := 0, nowS := 0, sheap := [], cheap := [], caches := [], sealed := [], conns := [] }

def World.env (w : World) (sha384 : List Nat) : Env :=
  { aeadOpen := fun k nonce ct =>
      (w.sealed.find? (fun e => e.1 == nonce ++ ct && e.2.1 == k)).map (·.2.2),
    sha384 := sha384 }

def modifyAt {α : Type} (l : List α) (i : Nat) (f : α → α) : List α :=
  match l, i with
  | [], _ => []
  | a :: r, 0 => f a :: r
  | a :: r, i + 1 => a :: modifyAt r i f

inductive Edit where
  | dropEms | addEms | dropEtm | addEtm
  | setSni (b : Bytes)
  | setSuites (l : List Nat)
  | setSid (b : Bytes)
  | setTicket (t : Option Bytes)
  | badBinder (i : Nat)            -- corrupt the i-th PSK binder
deriving Repr

def applyEdit (h : Hello) : Edit → Hello
  | .dropEms => { h with ems := false }
  | .addEms => { h with ems := true }
  | .dropEtm => { h with etm := false }
  | .addEtm => { h with etm := true }
  | .setSni b => { h with serverName := b }
  | .setSuites l => { h with suites := l }
  | .setSid b => { h with sessionId := b }
  | .setTicket t => { h with ticket := t }
  | .badBinder i => { h with psk := h.psk.map (fun ids => modifyAt ids i (fun id => { id with binder := none })) }

structure HsArgs where
  srv : Nat
  cs : CliSettings
  srp : Bytes
  sni : Bytes
  offer : Option Nat
  edits : List Edit
  st : SrvSettings
  ver : Ver
  sha384 : List Nat
  freshSid : Bytes                -- client's random legacy session id
  nsuite : Nat                    -- suite of a full / TLS 1.3 handshake
  nems : Bool
  netm : Bool
  ncid : Option Nat               -- client identity a full handshake authenticates
  newSid : Bytes                  -- session id a full <=1.2 handshake assigns
  nst : List Bytes                -- bytes of the tickets the server issues
  negFail : Bool                  -- no cipher suite in common for a new negotiation
deriving Repr

structure HsObs where
  valueError : Bool
  hello : Option Hello            -- as built by the client (before edits)
  dec : Option Decision
  out : Option Outcome
  sParams : Option Params
  sSecret : Option Nat
  cSecret : Option Nat
deriving Repr

def HsObs.err : HsObs :=
  { valueError := true, hello := none, dec := none, out := none, sParams := none, sSecret := none,
    cSecret := none }

def is13 (v : Ver) : Bool := decide (v.1 = 3 ∧ v.2 ≥ 4)

/-- lookup function of server instance `srv` at the server's clock, after `_purge` -/
def World.lookup (w : World) (srv : Nat) : Bytes → Option Sess := fun id =>
  match w.caches[srv]? with
  | some (some c) =>
    (match (c.purge w.nowS).find id with
     | some (some i) => w.sheap[i]?
     | _ => none)
  | _ => none

def World.lookupIdx (w : World) (srv : Nat) (id : Bytes) : Option Nat :=
  match w.caches[srv]? with
  | some (some c) => ((c.purge w.nowS).find id).join
  | _ => none

def World.purgeCache (w : World) (srv : Nat) : World :=
  { w with caches := modifyAt w.caches srv (fun c => c.map (·.purge w.nowS)) }

def World.cacheSet (w : World) (srv : Nat) (id : Bytes) (idx : Option Nat) : World :=
  { w with caches := modifyAt w.caches srv (fun c => c.map (·.set id w.nowS idx)) }

/-- the cache is consulted (and therefore purged) exactly on this condition -/
def cacheConsulted (env : Env) (now : Nat) (st : SrvSettings) (h : Hello) : Bool :=
  ((!h.sessionId.isEmpty && st.hasCache) || ticketNonEmpty h) &&
  ((sessionFromTicket env st now h).isNone && !ticketNonEmpty h && st.hasCache && !h.sessionId.isEmpty)

/-- tickets a completed handshake issues (`_serverSendTickets`): sealed under the FIRST key -/
def issueTickets (w : World) (a : HsArgs) (p : Payload) (count : Nat) : World :=
  match a.st.ticketKeys with
  | [] => w
  | k :: _ => { w with sealed := w.sealed ++ (a.nst.take count).map (fun b => (b, k, p)) }

def ticketCount (a : HsArgs) (h : Hello) : Nat :=
  if a.st.ticketKeys.isEmpty then 0
  else if is13 a.ver then a.st.ticketCount
  else if h.ticket == some [] && a.st.ticketCount > 0 then 1 else 0

def failRec : ConnRec := { cobj := none, sobj := none, resumedFrom := none, params := none }

/-- in-place pruning of the offered session object (`session.tickets[:] = ...`) -/
def World.prune (w : World) (offer : Option Nat) (sess1 : Option CSess) : World :=
  match offer, sess1 with
  | some j, some s => { w with cheap := modifyAt w.cheap j (fun _ => s) }
  | _, _ => w

def obsOf (h0 : Hello) (dec : Decision) (out : Outcome) (p : Option Params) (ss cs : Option Nat) : HsObs :=
  { valueError := false, hello := some h0, dec := some dec, out := some out, sParams := p,
    sSecret := ss, cSecret := cs }

/-- state after a TLS 1.3 handshake whose server decision was `dec` and outcome `out` -/
def commit13 (w1 : World) (a : HsArgs) (h0 h : Hello) (dec : Decision) (out : Outcome) :
    World × HsObs :=
  let connId := w1.conns.length
  let st := a.st
  if out.bothDone then
    let cid : Option Nat := match dec with
      | .resume s => s.clientId
      | .external _ => none
      | _ => a.ncid
    let pr : Params := { suite := a.nsuite, ems := true, etm := false, serverName := h.serverName,
                         clientId := cid }
    let sobj : Sess := { secret := connId, sessionID := [], suite := a.nsuite, srpUsername := [],
                         clientId := cid, serverName := h.serverName, resumable := true,
                         etm := false, ems := true, version := a.ver, completed := true }
    let n := ticketCount a h
    let tk : List Tkt13 := (a.nst.take n).map
      (fun b => { ticket := b, lifetime := st.ticketLifetime, time := w1.nowC })
    let cobj : CSess := { secret := connId, sessionID := [], suite := a.nsuite, srpUsername := [],
                          serverName := h0.serverName, resumable := true, etm := false, ems := true,
                          tickets10 := [], tickets13 := tk }
    let p : Payload := { secret := connId, version := a.ver, suite := a.nsuite, created := w1.nowS,
                         clientId := cid, etm := false, ems := true, serverName := h.serverName,
                         completed := true }
    let w2 := issueTickets w1 a p n
    let from? : Option Nat := match dec with | .resume s => some s.secret | _ => none
    let w3 : World := { w2 with sheap := w2.sheap ++ [sobj], cheap := w2.cheap ++ [cobj],
                                conns := w2.conns ++ [{ cobj := some w2.cheap.length,
                                                        sobj := some w2.sheap.length,
                                                        resumedFrom := from?, params := some pr }] }
    (w3, obsOf h0 dec out (some pr) (some connId) (some connId))
  else
    ({ w1 with conns := w1.conns ++ [failRec] }, obsOf h0 dec out none none none)

/-- state after an SSLv3 … TLS 1.2 handshake -/
def commit12 (w1 : World) (a : HsArgs) (sess1 : Option CSess) (h0 h : Hello) (viaCache : Bool)
    (dec : Decision) (out : Outcome) : World × HsObs :=
  let connId := w1.conns.length
  let st := a.st
  if out.bothDone then
    match dec with
    | .resume s =>
      -- server: the cached object itself (session ID) or a fresh object (ticket)
      let (w2, sidx) : World × Option Nat :=
        if viaCache then (w1, w1.lookupIdx a.srv h.sessionId)
        else ({ w1 with sheap := w1.sheap ++ [s] }, some w1.sheap.length)
      let w3 : World := { w2 with conns := w2.conns ++ [{ cobj := a.offer, sobj := sidx,
                                                          resumedFrom := some s.secret,
                                                          params := some s.params }] }
      (w3, obsOf h0 dec out (some s.params) (some s.secret) (sess1.map (·.secret)))
    | _ =>
      -- full handshake: new objects on both ends, cache entry, tickets
      let pr : Params := { suite := a.nsuite, ems := a.nems, etm := a.netm,
                           serverName := h.serverName, clientId := a.ncid }
      let sobj : Sess := { secret := connId, sessionID := a.newSid, suite := a.nsuite,
                           srpUsername := h.srpUsername, clientId := a.ncid,
                           serverName := h.serverName, resumable := true, etm := a.netm,
                           ems := a.nems, version := a.ver, completed := true }
      let n := ticketCount a h
      let tk : List Tkt10 := (a.nst.take n).map
        (fun b => { ticket := b, lifetime := st.ticketLifetime, received := w1.nowC })
      let cobj : CSess := { secret := connId, sessionID := a.newSid, suite := a.nsuite,
                            srpUsername := a.srp, serverName := a.sni, resumable := true,
                            etm := a.netm, ems := a.nems, tickets10 := tk, tickets13 := [] }
      let p : Payload := { secret := connId, version := a.ver, suite := a.nsuite,
                           created := w1.nowS, clientId := a.ncid, etm := a.netm, ems := a.nems,
                           serverName := h.serverName, completed := true }
      let w2 := issueTickets w1 a p n
      let w2' := if st.hasCache && !a.newSid.isEmpty then w2.cacheSet a.srv a.newSid (some w2.sheap.length) else w2
      let w3 : World := { w2' with sheap := w2'.sheap ++ [sobj], cheap := w2'.cheap ++ [cobj],
                                   conns := w2'.conns ++ [{ cobj := some w2'.cheap.length,
                                                            sobj := some w2'.sheap.length,
                                                            resumedFrom := none, params := some pr }] }
      (w3, obsOf h0 dec out (some pr) (some connId) (some connId))
  else
    ({ w1 with conns := w1.conns ++ [failRec] }, obsOf h0 dec out none none none)

/-- "No mutual ciphersuite" for a NEW negotiation turns a `full` decision into handshake_failure -/
def negAdjust (negFail : Bool) (d : Decision) : Decision :=
  if negFail && d == .full then .alert .handshake_failure else d

/-- one connection attempt, from the client's session object to both ends' final state -/
def stepHs (w : World) (a : HsArgs) : World × HsObs :=
  match clientPrepare (a.offer.bind (w.cheap[·]?)) a.srp a.sni with
  | none => (w, HsObs.err)
  | some sess0 =>
  let env := w.env a.sha384
  match clientHello a.sha384 a.cs sess0 a.srp a.sni w.nowC a.freshSid with
  | none => (w, HsObs.err)
  | some (sess1, h0) =>
  let w1 := w.prune a.offer sess1
  let h := a.edits.foldl applyEdit h0
  let st := a.st
  if is13 a.ver then
    let prf := prfOf env a.nsuite
    -- TLS 1.3 selects the cipher suite before it looks at the PSKs ("No mutual ciphersuite")
    let dec := if a.negFail then .alert .handshake_failure else serverResume13 env st w1.nowS a.ver prf h
    let out := outcome13 dec a.cs h (selectedIndex env st w1.nowS a.ver prf h)
    commit13 w1 a h0 h dec out
  else
    -- <=1.2 selects the cipher suite only after the resumption block
    let dec0 := serverResume12 env (w1.lookup a.srv) w1.nowS st h
    let dec := negAdjust a.negFail dec0
    let w1' := if cacheConsulted env w1.nowS st h then w1.purgeCache a.srv else w1
    let out := outcome12 dec sess1 h.sessionId a.newSid a.nsuite
    commit12 w1' a sess1 h0 h (sessionFromTicket env st w1.nowS h).isNone dec out

/-- how a connection ends: which ends run `_shutdown(False)` -/
structure CloseKind where
  clientFatal : Bool
  serverFatal : Bool
deriving Repr

def stepClose (w : World) (k : Nat) (ck : CloseKind) : World :=
  match w.conns[k]? with
  | none => w
  | some c =>
    let w1 : World := match c.cobj with
      | some j => { w with cheap := modifyAt w.cheap j (fun s => s.shutdown (!ck.clientFatal)) }
      | none => w
    match c.sobj with
    | some i => { w1 with sheap := modifyAt w1.sheap i (fun s => s.shutdown (!ck.serverFatal)) }
    | none => w1

inductive Op where
  | hs (a : HsArgs)
  | close (k : Nat) (ck : CloseKind)
  | tick (client : Bool) (dt : Nat)
  | newServer (cache : Option (Nat × Nat))           -- cap, maxAge
  | cacheFill (srv : Nat) (ids : List Bytes)
  | tamper (j : Nat) (b : Bytes)                      -- overwrite the first stored ticket of cheap[j]
deriving Repr

def tamperSess (s : CSess) (b : Bytes) : CSess :=
  match s.tickets10, s.tickets13 with
  | t :: r, _ => { s with tickets10 := { t with ticket := b } :: r }
  | [], t :: r => { s with tickets13 := { t with ticket := b } :: r }
  | [], [] => s

def step (w : World) : Op → World
  | .hs a => (stepHs w a).1
  | .close k ck => stepClose w k ck
  | .tick true dt => { w with nowC := w.nowC + dt }
  | .tick false dt => { w with nowS := w.nowS + dt }
  | .newServer none => { w with caches := w.caches ++ [none] }
  | .newServer (some (cap, age)) =>
    { w with caches := w.caches ++ [some { cap := cap, maxAge := age, entries := [] }] }
  | .cacheFill srv ids => ids.foldl (fun w id => w.cacheSet srv id none) w
  | .tamper j b => { w with cheap := modifyAt w.cheap j (fun s => tamperSess s b) }

def run (w : World) (ops : List Op) : World := ops.foldl step w

end Tls.Resume
