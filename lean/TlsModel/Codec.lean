import TlsModel.Basic
/-
  Model of tlslite/utils/codec.py: `Writer` and `Parser`, method by method.

  * A `Writer` is its buffer (`self.bytes`); a method that raises `ValueError`
    ("Can't represent value in specified length", "Tuples of different lengths",
    `bytearray.append`/`extend` of a value outside 0..255) returns `.error`;
    nothing is ever masked or truncated.  Python ints are `Nat` (negative values are
    outside the model; `to_bytes` rejects them too).
  * A `Parser` is the record of its four attributes; the buffer never changes.  A
    method that raises `DecodeError` returns `.error`; Python's `%`/`//` by a zero
    element size (ZeroDivisionError) is `.error .zeroDiv`, never a default.
-/
namespace Tls.Codec

/-- why a `Writer` method raised -/
inductive WErr where
  | overflow        -- ValueError: value does not fit the field
  | tupleMismatch   -- ValueError("Tuples of different lengths")
  deriving DecidableEq, Repr

/-- why a `Parser` method raised -/
inductive PErr where
  | readPast        -- DecodeError("Read past end of buffer")
  | notMultiple     -- DecodeError("Encoded length not a multiple of element length")
  | underOver       -- DecodeError("Under- or over-flow while reading buffer")
  | zeroDiv         -- ZeroDivisionError (element size 0), outside every caller
  deriving DecidableEq, Repr

/-! ## Writer -/

abbrev Writer := Bytes

namespace Writer

def empty : Writer := []

/-- `Writer.add(x, length)`: `x.to_bytes(length, 'big')`, `OverflowError` → `ValueError` -/
def add (w : Writer) (x length : Nat) : Except WErr Writer :=
  if x < 256 ^ length then .ok (w ++ beEncode length x) else .error .overflow

/-- `addOne`: `bytearray.append(val)` raises ValueError outside range(256) -/
def addOne (w : Writer) (x : Nat) : Except WErr Writer :=
  if x < 256 then .ok (w ++ [UInt8.ofNat x]) else .error .overflow

/-- `addTwo`: `pack('>H', val)`, `struct.error` → `ValueError` -/
def addTwo (w : Writer) (x : Nat) : Except WErr Writer :=
  if x ≤ 0xffff then .ok (w ++ beEncode 2 x) else .error .overflow

/-- `addThree`: `pack('>BH', val >> 16, val & 0xffff)`; only the high byte can overflow -/
def addThree (w : Writer) (x : Nat) : Except WErr Writer :=
  if x / 65536 ≤ 0xff then .ok (w ++ beEncode 1 (x / 65536) ++ beEncode 2 (x % 65536))
  else .error .overflow

/-- `addFour`: `pack('>I', val)` -/
def addFour (w : Writer) (x : Nat) : Except WErr Writer :=
  if x ≤ 0xffffffff then .ok (w ++ beEncode 4 x) else .error .overflow

/-- `addFixSeq(seq, length)`: `for e in seq: self.add(e, length)` -/
def addFixSeq (w : Writer) (seq : List Nat) (length : Nat) : Except WErr Writer :=
  seq.foldlM (fun w e => add w e length) w

/-- `addVarSeq(seq, length, lengthLength)`.  The three Python branches (extend / pack 'H'* /
    add per item) all append each item on `length` bytes or raise ValueError. -/
def addVarSeq (w : Writer) (seq : List Nat) (length lengthLength : Nat) : Except WErr Writer := do
  let w ← add w (seq.length * length) lengthLength
  addFixSeq w seq length

/-- `addVarTupleSeq(seq, length, lengthLength)` -/
def addVarTupleSeq (w : Writer) (seq : List (List Nat)) (length lengthLength : Nat) :
    Except WErr Writer :=
  match seq with
  | [] => add w 0 lengthLength
  | first :: _ => do
    let startPos := w.length
    let dataLength := seq.length * first.length * length
    let w ← add w dataLength lengthLength
    let w ← seq.foldlM (fun w tup => addFixSeq w tup length) w
    if startPos + dataLength + lengthLength != w.length then .error .tupleMismatch else .ok w

/-- `add_var_bytes(data, length_length)` -/
def addVarBytes (w : Writer) (data : Bytes) (lengthLength : Nat) : Except WErr Writer := do
  let w ← add w data.length lengthLength
  .ok (w ++ data)

end Writer

/-! ## Parser -/

structure Parser where
  bytes : Bytes
  index : Nat := 0
  indexCheck : Nat := 0
  lengthCheck : Nat := 0
  deriving Repr, DecidableEq

namespace Parser

def new (b : Bytes) : Parser := { bytes := b }

/-- the unread part of the buffer -/
def remaining (p : Parser) : Bytes := p.bytes.drop p.index

/-- `getFixBytes(lengthBytes)` -/
def getFixBytes (p : Parser) (n : Nat) : Except PErr (Bytes × Parser) :=
  let e := p.index + n
  if e > p.bytes.length then .error .readPast
  else .ok ((p.bytes.drop p.index).take n, { p with index := p.index + n })

/-- `get(length)`: `bytes_to_int(getFixBytes(length), 'big')` -/
def get (p : Parser) (n : Nat) : Except PErr (Nat × Parser) := do
  let (b, p) ← getFixBytes p n
  .ok (beDecode b, p)

/-- `skip_bytes(length)` -/
def skipBytes (p : Parser) (n : Nat) : Except PErr Parser :=
  if p.index + n > p.bytes.length then .error .readPast else .ok { p with index := p.index + n }

/-- `getVarBytes(lengthLength)` -/
def getVarBytes (p : Parser) (ll : Nat) : Except PErr (Bytes × Parser) := do
  let (n, p) ← get p ll
  getFixBytes p n

/-- `getFixList(length, lengthList)`: `lengthList` times `get(length)` -/
def getFixList (p : Parser) (length : Nat) : Nat → Except PErr (List Nat × Parser)
  | 0 => .ok ([], p)
  | k + 1 => do
    let (x, p) ← get p length
    let (xs, p) ← getFixList p length k
    .ok (x :: xs, p)

/-- `getVarList(length, lengthLength)` -/
def getVarList (p : Parser) (length ll : Nat) : Except PErr (List Nat × Parser) := do
  let (lengthList, p) ← get p ll
  if length = 0 then .error .zeroDiv
  else if lengthList % length ≠ 0 then .error .notMultiple
  else getFixList p length (lengthList / length)

/-- `tupleCount` times (`elemNum` times `get(elemLength)`) -/
def getTuples (p : Parser) (elemLength elemNum : Nat) : Nat → Except PErr (List (List Nat) × Parser)
  | 0 => .ok ([], p)
  | k + 1 => do
    let (t, p) ← getFixList p elemLength elemNum
    let (ts, p) ← getTuples p elemLength elemNum k
    .ok (t :: ts, p)

/-- `getVarTupleList(elemLength, elemNum, lengthLength)` -/
def getVarTupleList (p : Parser) (elemLength elemNum ll : Nat) :
    Except PErr (List (List Nat) × Parser) := do
  let (lengthList, p) ← get p ll
  if elemLength * elemNum = 0 then .error .zeroDiv
  else if lengthList % (elemLength * elemNum) ≠ 0 then .error .notMultiple
  else getTuples p elemLength elemNum (lengthList / (elemLength * elemNum))

/-- `startLengthCheck(lengthLength)` -/
def startLengthCheck (p : Parser) (ll : Nat) : Except PErr Parser := do
  let (n, p) ← get p ll
  .ok { p with lengthCheck := n, indexCheck := p.index }

/-- `setLengthCheck(length)` -/
def setLengthCheck (p : Parser) (n : Nat) : Parser :=
  { p with lengthCheck := n, indexCheck := p.index }

/-- `stopLengthCheck()`: the Python difference `index - indexCheck` is an `Int`; the index
    never decreases so it is non-negative whenever a check was started on this parser. -/
def stopLengthCheck (p : Parser) : Except PErr Unit :=
  if (p.index : Int) - p.indexCheck ≠ p.lengthCheck then .error .underOver else .ok ()

/-- `atLengthCheck()` -/
def atLengthCheck (p : Parser) : Except PErr Bool :=
  if (p.index : Int) - p.indexCheck < p.lengthCheck then .ok false
  else if (p.index : Int) - p.indexCheck = p.lengthCheck then .ok true
  else .error .readPast

/-- `getRemainingLength()`; an `Int` in Python, never negative because every method keeps
    `index ≤ len(bytes)` (`Parser.inv`, proved preserved in TlsProofs/Codec). -/
def getRemainingLength (p : Parser) : Nat := p.bytes.length - p.index

/-- the invariant every method preserves: the read position is inside the buffer -/
def inv (p : Parser) : Prop := p.index ≤ p.bytes.length

end Parser

end Tls.Codec
