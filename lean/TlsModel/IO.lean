import TlsModel.Basic
/-
  C14 — transport layer model (core Lean only).

  Mirrors, statement by statement:
    tlslite/recordlayer.py      RecordSocket._sockSendAll / _sockRecvAll / _recvHeader / recv / send
    tlslite/bufferedsocket.py   BufferedSocket.send / sendall / flush / recv
    tlslite/defragmenter.py     Defragmenter (all methods)
    tlslite/tlsrecordlayer.py   _getNextRecord / the framing checks of _getNextRecordFromSocket
    tlslite/integration/asyncstatemachine.py   AsyncStateMachine (every method)

  A socket is an EVENT LIST: every call of `sock.recv(bufsize)` consumes one receive event
  (deliver at most k bytes | would-block | EOF | other socket error), every call of
  `sock.send(data)` consumes one send event (accept at most k bytes | would-block | error).
  The bytes in flight (`stream`) are separate from the schedule, so "every schedule that
  delivers the stream S" is literally a quantifier over `rsched`.

  A Python generator that yields 0 ("want read") / 1 ("want write") becomes a function that
  returns the list of values yielded while it ran, its final result and the device state:
    Res.ok a        the generator produced its result a
    Res.exc e       it raised
    Res.pending     it is suspended at a yield and the schedule has no further event
    Res.fuelOut     internal recursion bound hit (proved unreachable, Props/C14 `*_no_fuelOut`)
-/
namespace Tls.IO

/-! ## raw socket as an event list -/

/-- what one call of `sock.recv(bufsize)` will do -/
inductive REv where
  | chunk (k : Nat)   -- return at most k of the bytes in flight (would-block if none are there)
  | wb                -- raise socket.error(EWOULDBLOCK / EAGAIN)
  | eof               -- return b""
  | err               -- raise another socket.error
  deriving Repr, DecidableEq

/-- what one call of `sock.send(data)` will do -/
inductive SEv where
  | accept (k : Nat)  -- accept at most k bytes, return the number accepted
  | wb
  | err
  deriving Repr, DecidableEq

inductive RecvRes where
  | data (b : Bytes)
  | wouldBlock
  | error
  | exhausted         -- the schedule has no further event
  deriving Repr, DecidableEq

inductive SendRes where
  | sent (k : Nat)
  | wouldBlock
  | error
  | exhausted
  deriving Repr, DecidableEq

structure Sock where
  stream : Bytes := []        -- bytes in flight towards this endpoint, not yet returned by recv
  rsched : List REv := []
  ssched : List SEv := []
  sent : Bytes := []          -- every byte the socket accepted so far, in order
  deriving Repr, DecidableEq

def Sock.recv (bufsize : Nat) (s : Sock) : RecvRes × Sock :=
  match s.rsched with
  | [] => (.exhausted, s)
  | .wb :: rest => (.wouldBlock, { s with rsched := rest })
  | .err :: rest => (.error, { s with rsched := rest })
  | .eof :: rest => (.data [], { s with rsched := rest })
  | .chunk k :: rest =>
    if s.stream.isEmpty then (.wouldBlock, { s with rsched := rest })
    else (.data (s.stream.take (min k bufsize)),
          { s with stream := s.stream.drop (min k bufsize), rsched := rest })

def Sock.send (data : Bytes) (s : Sock) : SendRes × Sock :=
  match s.ssched with
  | [] => (.exhausted, s)
  | .wb :: rest => (.wouldBlock, { s with ssched := rest })
  | .err :: rest => (.error, { s with ssched := rest })
  | .accept k :: rest =>
    (.sent (min k data.length), { s with sent := s.sent ++ data.take (min k data.length), ssched := rest })

/-- `socket.sendall`: blocking semantics, everything is accepted (DESIGN §7 item 8) -/
def Sock.sendall (data : Bytes) (s : Sock) : Sock := { s with sent := s.sent ++ data }

/-! ## BufferedSocket -/

structure BSock where
  inner : Sock := {}
  readBuf : Bytes := []            -- _read_buffer
  writeQueue : List Bytes := []    -- _write_queue
  bufferWrites : Bool := false     -- buffer_writes
  deriving Repr, DecidableEq

/-- BufferedSocket.send -/
def BSock.send (data : Bytes) (b : BSock) : SendRes × BSock :=
  if b.bufferWrites then
    (.sent data.length, { b with writeQueue := b.writeQueue ++ [data] })
  else
    let (r, i) := b.inner.send data
    (r, { b with inner := i })

/-- BufferedSocket.sendall -/
def BSock.sendall (data : Bytes) (b : BSock) : BSock :=
  if b.bufferWrites then { b with writeQueue := b.writeQueue ++ [data] }
  else { b with inner := b.inner.sendall data }

/-- BufferedSocket.flush -/
def BSock.flush (b : BSock) : BSock :=
  let buf := b.writeQueue.foldl (fun acc i => acc ++ i) []
  let b := { b with writeQueue := [] }
  if !buf.isEmpty then { b with inner := b.inner.sendall buf } else b

/-- BufferedSocket.recv: a socket exception leaves the buffer unchanged -/
def BSock.recv (bufsize : Nat) (b : BSock) : RecvRes × BSock :=
  if b.readBuf.isEmpty then
    match b.inner.recv (max 4096 bufsize) with
    | (.data d, i) =>
      let rb := b.readBuf ++ d
      (.data (rb.take bufsize), { b with inner := i, readBuf := rb.drop bufsize })
    | (r, i) => (r, { b with inner := i })
  else
    (.data (b.readBuf.take bufsize), { b with readBuf := b.readBuf.drop bufsize })

/-! ## devices -/

class Dev (σ : Type) where
  recv : Nat → σ → RecvRes × σ
  send : Bytes → σ → SendRes × σ
  budgetR : σ → Nat        -- receive events left
  budgetS : σ → Nat        -- send events left

instance : Dev Sock where
  recv := Sock.recv
  send := Sock.send
  budgetR s := s.rsched.length
  budgetS s := s.ssched.length

instance : Dev BSock where
  recv := BSock.recv
  send := BSock.send
  budgetR b := b.inner.rsched.length
  budgetS b := b.inner.ssched.length

/-! ## generator results -/

inductive Exc where
  | abruptClose          -- TLSAbruptCloseError
  | socketError          -- socket.error other than would-block
  | illegalParameter     -- TLSIllegalParameterException
  | recordOverflow       -- TLSRecordOverflow
  | syntaxError          -- Parser ran past the end (DecodeError)
  | indexError
  | valueError
  | keyError
  | unexpectedMessage    -- TLSLocalAlert(unexpected_message) raised by _sendError
  deriving Repr, DecidableEq

inductive Res (α : Type) where
  | ok (a : α)
  | exc (e : Exc)
  | pending
  | fuelOut
  deriving Repr, DecidableEq

structure Out (σ α : Type) where
  yields : List Nat
  res : Res α
  dev : σ

/-- sequencing of two generator pieces (`for r in g1(): yield r / break`, then g2) -/
def Out.bind {σ α β : Type} (o : Out σ α) (f : α → σ → Out σ β) : Out σ β :=
  match o.res with
  | .ok a => let o2 := f a o.dev; ⟨o.yields ++ o2.yields, o2.res, o2.dev⟩
  | .exc e => ⟨o.yields, .exc e, o.dev⟩
  | .pending => ⟨o.yields, .pending, o.dev⟩
  | .fuelOut => ⟨o.yields, .fuelOut, o.dev⟩

/-! ## RecordSocket -/

/-- the `while True` loop of `_sockRecvAll` -/
def recvAllLoop {σ : Type} [Dev σ] (length : Nat) : Nat → Bytes → σ → Out σ Bytes
  | 0, _, s => ⟨[], .fuelOut, s⟩
  | fuel + 1, buf, s =>
    match Dev.recv (length - buf.length) s with
    | (.wouldBlock, s') =>                                   -- yield 0; continue
      let o := recvAllLoop length fuel buf s'
      ⟨0 :: o.yields, o.res, o.dev⟩
    | (.error, s') => ⟨[], .exc .socketError, s'⟩           -- raise
    | (.exhausted, s') => ⟨[], .pending, s'⟩
    | (.data b, s') =>
      if b.length == 0 then ⟨[], .exc .abruptClose, s'⟩     -- raise TLSAbruptCloseError()
      else
        let buf' := buf ++ b
        if buf'.length == length then ⟨[], .ok buf', s'⟩    -- yield buf
        else recvAllLoop length fuel buf' s'

/-- RecordSocket._sockRecvAll -/
def sockRecvAll {σ : Type} [Dev σ] (length : Nat) (s : σ) : Out σ Bytes :=
  if length == 0 then ⟨[], .ok [], s⟩
  else recvAllLoop length (Dev.budgetR s + length + 1) [] s

/-- the `while 1` loop of `_sockSendAll` -/
def sendAllLoop {σ : Type} [Dev σ] : Nat → Bytes → σ → Out σ Unit
  | 0, _, s => ⟨[], .fuelOut, s⟩
  | fuel + 1, data, s =>
    match Dev.send data s with
    | (.wouldBlock, s') =>                                   -- yield 1; continue
      let o := sendAllLoop fuel data s'
      ⟨1 :: o.yields, o.res, o.dev⟩
    | (.error, s') => ⟨[], .exc .socketError, s'⟩
    | (.exhausted, s') => ⟨[], .pending, s'⟩
    | (.sent k, s') =>
      if k == data.length then ⟨[], .ok (), s'⟩              -- return
      else
        let o := sendAllLoop fuel (data.drop k) s'           -- data = data[bytesSent:]; yield 1
        ⟨1 :: o.yields, o.res, o.dev⟩

/-- RecordSocket._sockSendAll -/
def sockSendAll {σ : Type} [Dev σ] (data : Bytes) (s : σ) : Out σ Unit :=
  sendAllLoop (Dev.budgetS s + 1) data s

structure Header where
  type : Nat
  vmaj : Nat
  vmin : Nat
  length : Nat
  ssl2 : Bool
  padding : Nat := 0
  securityEscape : Bool := false
  deriving Repr, DecidableEq

/-- ContentType.all -/
def contentTypeAll : List Nat := [20, 21, 22, 23, 24]

/-- RecordHeader3().parse(Parser(buf)); `none` = the Parser ran past the end -/
def parseHeader3 (buf : Bytes) : Option Header :=
  match buf with
  | t :: a :: b :: l1 :: l0 :: _ =>
    some { type := t.toNat, vmaj := a.toNat, vmin := b.toNat,
           length := l1.toNat * 256 + l0.toNat, ssl2 := false }
  | _ => none

/-- RecordHeader2().parse(Parser(buf)) -/
def parseHeader2 (buf : Bytes) : Option Header :=
  match buf with
  | f :: s :: rest =>
    if f.toNat &&& 0x80 != 0 then
      some { type := 22, vmaj := 2, vmin := 0,
             length := ((f.toNat &&& 0x7f) <<< 8) ||| s.toNat, ssl2 := true }
    else
      match rest with
      | p :: _ =>
        some { type := 22, vmaj := 2, vmin := 0,
               length := ((f.toNat &&& 0x3f) <<< 8) ||| s.toNat, ssl2 := true,
               padding := p.toNat, securityEscape := f.toNat &&& 0x40 != 0 }
      | [] => none
  | _ => none

/-- the part of `_recvHeader` after the first byte is known: how many more bytes to read -/
def headerRest (b0 : UInt8) : Nat :=
  if contentTypeAll.contains b0.toNat then 4
  else if b0.toNat &&& 0x80 != 0 then 1 else 2

/-- "Parse the record header" block of `_recvHeader` -/
def parseHeader (buf : Bytes) : Res Header :=
  match buf with
  | [] => .exc .indexError
  | b0 :: _ =>
    if contentTypeAll.contains b0.toNat then
      match parseHeader3 buf with
      | none => .exc .syntaxError
      | some h => .ok h
    else
      match parseHeader2 buf with
      | none => .exc .syntaxError
      | some h =>
        if h.padding > h.length || (h.padding != 0 && h.length % 8 != 0) then
          .exc .illegalParameter
        else .ok h

/-- RecordSocket._recvHeader -/
def recvHeader {σ : Type} [Dev σ] (s : σ) : Out σ Header :=
  (sockRecvAll 1 s).bind fun buf s1 =>
    match buf with
    | [] => ⟨[], .exc .indexError, s1⟩
    | b0 :: _ =>
      (sockRecvAll (headerRest b0) s1).bind fun r2 s2 =>
        ⟨[], parseHeader (buf ++ r2), s2⟩

structure RSCfg where
  recvRecordLimit : Nat := 16384
  tls13record : Bool := false
  deriving Repr, DecidableEq

/-- the length caps of RecordSocket.recv -/
def lengthOk (cfg : RSCfg) (h : Header) : Bool :=
  !(h.length > cfg.recvRecordLimit + 1024 + 1024) &&
  !(cfg.tls13record && h.length > cfg.recvRecordLimit + 256)

/-- RecordSocket.recv -/
def recordRecv {σ : Type} [Dev σ] (cfg : RSCfg) (s : σ) : Out σ (Header × Bytes) :=
  (recvHeader s).bind fun h s1 =>
    if h.length > cfg.recvRecordLimit + 1024 + 1024 then ⟨[], .exc .recordOverflow, s1⟩
    else if cfg.tls13record && h.length > cfg.recvRecordLimit + 256 then ⟨[], .exc .recordOverflow, s1⟩
    else (sockRecvAll h.length s1).bind fun b s2 => ⟨[], .ok (h, b), s2⟩

/-- RecordHeader3.write; `none` = Writer.add raised ValueError -/
def writeHeader3 (vmaj vmin type length : Nat) : Option Bytes :=
  if type < 256 && vmaj < 256 && vmin < 256 && length < 65536 then
    some ([UInt8.ofNat type, UInt8.ofNat vmaj, UInt8.ofNat vmin] ++ beEncode 2 length)
  else none

/-- RecordHeader2.create(length, padding).write -/
def writeHeader2 (length padding : Nat) : Option Bytes :=
  let shortHeader := padding == 0
  if (shortHeader && length ≥ 0x8000) || (!shortHeader && length ≥ 0x4000) then none
  else if padding ≥ 256 then none
  else
    let firstByte := (if shortHeader then 0x80 else 0) ||| (length >>> 8)
    let secondByte := length &&& 0xff
    some ([UInt8.ofNat firstByte, UInt8.ofNat secondByte] ++
          (if shortHeader then [] else [UInt8.ofNat padding]))

/-- RecordSocket.send (version (2,0)/(0,2) uses the SSLv2 header) -/
def recordSend {σ : Type} [Dev σ] (vmaj vmin type : Nat) (data : Bytes) (padding : Nat) (s : σ) :
    Out σ Unit :=
  let hdr := if (vmaj, vmin) == (2, 0) || (vmaj, vmin) == (0, 2) then writeHeader2 data.length padding
             else writeHeader3 vmaj vmin type data.length
  match hdr with
  | none => ⟨[], .exc .valueError, s⟩
  | some h => sockSendAll (h ++ data) s

/-! ## Defragmenter -/

inductive Handler where
  | static (size : Nat)
  | dynamic (sizeOffset sizeOfSize : Nat)
  deriving Repr, DecidableEq

/-- the `size_handler` closures -/
def Handler.size (h : Handler) (data : Bytes) : Option Nat :=
  match h with
  | .static size => if data.length < size then none else some size
  | .dynamic off sos =>
    if data.length < off + sos then none
    else
      let payloadLength := beDecode ((data.drop off).take sos)
      if data.length - (off + sos) < payloadLength then none
      else some (off + sos + payloadLength)

structure Defrag where
  priorities : List Nat := []
  buffers : List (Nat × Bytes) := []
  decoders : List (Nat × Handler) := []
  deriving Repr, DecidableEq

def assocSet {β : Type} (k : Nat) (v : β) : List (Nat × β) → List (Nat × β)
  | [] => [(k, v)]
  | (k', v') :: rest => if k' == k then (k, v) :: rest else (k', v') :: assocSet k v rest

def Defrag.addStaticSize (d : Defrag) (msgType size : Nat) : Except Exc Defrag :=
  if d.priorities.contains msgType then .error .valueError
  else if size < 1 then .error .valueError
  else .ok { priorities := d.priorities ++ [msgType],
             buffers := assocSet msgType [] d.buffers,
             decoders := assocSet msgType (.static size) d.decoders }

def Defrag.addDynamicSize (d : Defrag) (msgType sizeOffset sizeOfSize : Nat) : Except Exc Defrag :=
  if d.priorities.contains msgType then .error .valueError
  else if sizeOfSize < 1 then .error .valueError
  else .ok { priorities := d.priorities ++ [msgType],
             buffers := assocSet msgType [] d.buffers,
             decoders := assocSet msgType (.dynamic sizeOffset sizeOfSize) d.decoders }

def Defrag.addData (d : Defrag) (msgType : Nat) (data : Bytes) : Except Exc Defrag :=
  if !d.priorities.contains msgType then .error .valueError
  else
    match d.buffers.lookup msgType with
    | none => .error .keyError
    | some buf => .ok { d with buffers := assocSet msgType (buf ++ data) d.buffers }

/-- the `for msg_type in self.priorities` loop of get_message -/
def Defrag.getMessageLoop (d : Defrag) : List Nat → Except Exc (Option (Nat × Bytes) × Defrag)
  | [] => .ok (none, d)
  | msgType :: rest =>
    match d.buffers.lookup msgType, d.decoders.lookup msgType with
    | some buf, some dec =>
      match dec.size buf with
      | none => d.getMessageLoop rest
      | some length =>
        .ok (some (msgType, buf.take length),
             { d with buffers := assocSet msgType (buf.drop length) d.buffers })
    | _, _ => .error .keyError

def Defrag.getMessage (d : Defrag) : Except Exc (Option (Nat × Bytes) × Defrag) :=
  d.getMessageLoop d.priorities

def Defrag.clearBuffers (d : Defrag) : Defrag :=
  { d with buffers := d.buffers.map fun (k, _) => (k, []) }

def Defrag.isEmpty (d : Defrag) : Bool := d.buffers.all fun (_, v) => v.isEmpty

/-- the defragmenter TLSRecordLayer.__init__ builds -/
def tlsDefrag : Defrag :=
  { priorities := [20, 21, 22],
    buffers := [(20, []), (21, []), (22, [])],
    decoders := [(20, .static 1), (21, .static 2), (22, .dynamic 1 3)] }

/-! ## _getNextRecord -/

structure Rec where
  type : Nat
  ssl2 : Bool := false
  data : Bytes
  deriving Repr, DecidableEq

/-- what `_getNextRecord` hands to `_getMsg` -/
inductive GOut where
  | msg (type : Nat) (data : Bytes)     -- a defragmented message (header of length 0)
  | record (r : Rec)                    -- a record passed through as read
  deriving Repr, DecidableEq

/-- framing checks at the end of `_getNextRecordFromSocket` -/
def fromSocketCheck (r : Rec) : Except Exc Rec :=
  if r.type != 23 && r.data.length == 0 then .error .unexpectedMessage
  else if !contentTypeAll.contains r.type then .error .unexpectedMessage
  else .ok r

/-- `_getNextRecord` up to its first non-0/1 item (what `_getMsg` consumes), reading already
    decrypted records from a list; `none` = waiting for a record that is not there.
    `tls13` is `self.version > (3, 3)`. -/
def getNextRecord (tls13 : Bool) (d : Defrag) : List Rec →
    Except Exc (Option GOut × Defrag × List Rec)
  | [] =>
    match d.getMessage with
    | .error e => .error e
    | .ok (some (t, m), d') => .ok (some (.msg t m), d', [])
    | .ok (none, d') => .ok (none, d', [])
  | r :: rest =>
    match d.getMessage with
    | .error e => .error e
    | .ok (some (t, m), d') => .ok (some (.msg t m), d', r :: rest)
    | .ok (none, d') =>
      match fromSocketCheck r with
      | .error e => .error e
      | .ok r =>
        if r.type == 23 || (tls13 && r.type == 20) then .ok (some (.record r), d', rest)
        else if r.type == 24 then .ok (some (.record r), d', rest)
        else if r.ssl2 then .ok (some (.record r), d', rest)
        else
          match d'.addData r.type r.data with
          | .error e => .error e
          | .ok d'' => getNextRecord tls13 d'' rest

/-- repeated `_getMsg`-style consumption: everything `_getNextRecord` delivers for a record list -/
def getAll (tls13 : Bool) : Nat → Defrag → List Rec → List GOut × Option Exc × Defrag
  | 0, d, _ => ([], none, d)
  | fuel + 1, d, recs =>
    match getNextRecord tls13 d recs with
    | .error e => ([], some e, d)
    | .ok (none, d', _) => ([], none, d')
    | .ok (some g, d', recs') =>
      let (gs, e, d'') := getAll tls13 fuel d' recs'
      (g :: gs, e, d'')

/-! ## sender side: the fragmentation loop of `_sendMsg` -/

/-- `while len(buf) > self.recordSize: send buf[:recordSize]; buf = buf[recordSize:]` then the rest.
    `fuel` bounds the iterations (the Python loop does not terminate for recordSize = 0). -/
def fragmentLoop (recordSize : Nat) : Nat → Bytes → List Bytes
  | 0, buf => [buf]
  | fuel + 1, buf =>
    if buf.length > recordSize then buf.take recordSize :: fragmentLoop recordSize fuel (buf.drop recordSize)
    else [buf]

/-- the record payloads `_sendMsg` produces for one message buffer -/
def fragmentMsg (recordSize : Nat) (buf : Bytes) : List Bytes := fragmentLoop recordSize buf.length buf

/-! ## _getNextRecord over a device, and the alert peek of `_sendMsgThroughSocket` -/

/-- RecordLayer.recvRecord before any key change (null cipher): the record as read from the
    RecordSocket, with the plaintext length cap (RFC 5246 6.2.1) -/
def recvRecordNull {σ : Type} [Dev σ] (cfg : RSCfg) (s : σ) : Out σ Rec :=
  (recordRecv cfg s).bind fun hb s' =>
    if hb.2.length > cfg.recvRecordLimit then ⟨[], .exc .recordOverflow, s'⟩
    else ⟨[], .ok { type := hb.1.type, ssl2 := hb.1.ssl2, data := hb.2 }, s'⟩

/-- `_getNextRecord` up to its first non-0/1 item, reading records from the device.
    `fuel` bounds the number of records examined (`pending` when it runs out). The alerts that
    `_getNextRecordFromSocket` would try to send on a framing error are not modelled: the
    exception it ends with is. -/
def nextMsgDev {σ : Type} [Dev σ] (cfg : RSCfg) (tls13 : Bool) : Nat → Defrag → σ → Out σ (GOut × Defrag)
  | 0, _, s => ⟨[], .pending, s⟩
  | fuel + 1, d, s =>
    match d.getMessage with
    | .error e => ⟨[], .exc e, s⟩
    | .ok (some (t, m), d') => ⟨[], .ok (.msg t m, d'), s⟩
    | .ok (none, d') =>
      (recvRecordNull cfg s).bind fun r s' =>
        match fromSocketCheck r with
        | .error e => ⟨[], .exc e, s'⟩
        | .ok r =>
          if r.type == 23 || (tls13 && r.type == 20) || r.type == 24 || r.ssl2 then
            ⟨[], .ok (.record r, d'), s'⟩
          else
            match d'.addData r.type r.data with
            | .error e => ⟨[], .exc e, s'⟩
            | .ok d'' => nextMsgDev cfg tls13 fuel d'' s'

/-- how `_sendMsgThroughSocket` ends after `send()` failed during the handshake -/
inductive PeekRes where
  | remoteAlert (level desc : Nat)   -- raise TLSRemoteAlert(alert)
  | originalError                    -- bare `raise`: the socket.error of the failed send
  deriving Repr, DecidableEq

/-- "what did `_getNextRecord` hand us": an alert is raised as TLSRemoteAlert, anything else
    re-raises the send error -/
def peekResult (g : GOut) : Res PeekRes :=
  match g with
  | .msg 21 [l, dsc] => .ok (.remoteAlert l.toNat dsc.toNat)
  | .msg 21 _ => .exc .syntaxError            -- Alert().parse on a body that is not 2 bytes
  | _ => .ok .originalError

/-- the error path of `_sendMsgThroughSocket` for a handshake message: read on (yielding 0 while
    the transport would block) until `_getNextRecord` delivers something, then classify it -/
def alertPeek {σ : Type} [Dev σ] (cfg : RSCfg) (tls13 : Bool) (fuel : Nat) (d : Defrag) (s : σ) :
    Out σ PeekRes :=
  (nextMsgDev cfg tls13 fuel d s).bind fun gd s' => ⟨[], peekResult gd.1, s'⟩

/-! ## the tail of readAsync: what a completed read returns and what stays buffered -/

/-- `if max == None: max = len(self._readBuffer)`; `returnBytes = self._readBuffer[:max]`;
    `self._readBuffer = self._readBuffer[max:]`  →  (returned, kept) -/
def readAsyncReturn (max : Option Nat) (readBuffer : Bytes) : Bytes × Bytes :=
  let m := match max with | none => readBuffer.length | some m => m
  (readBuffer.take m, readBuffer.drop m)

/-- one implicit read of AsyncStateMachine.inReadEvent (`readAsync(n)`, min = 1) on an empty
    plaintext buffer once a record with plaintext `data` has been read: bytes handed to
    outReadEvent, bytes left in `_readBuffer` (for which no further read event will come once
    the transport is drained) -/
def asmReadEvent (n : Nat) (data : Bytes) : Bytes × Bytes := readAsyncReturn (some n) data

/-! ## AsyncStateMachine -/

/-- what `next(generator)` does when the state machine calls it -/
inductive GenStep where
  | yld (v : Nat)     -- yields v (0 = want read, 1 = want write, anything else: a result object)
  | stop              -- StopIteration
  | raise             -- any other exception
  deriving Repr, DecidableEq

structure ASM where
  handshaker : Bool := false
  closer : Bool := false
  reader : Bool := false
  writer : Bool := false
  result : Option Nat := none
  deriving Repr, DecidableEq

inductive AsmEv where
  | outConnect | outClose | outRead | outWrite
  deriving Repr, DecidableEq

inductive AsmRes where
  | ok (evs : List AsmEv)
  | assertionError
  | raised              -- the generator's exception (or StopIteration out of _doReadOp)
  deriving Repr, DecidableEq

def ASM.clear : ASM := {}

def ASM.activeOps (a : ASM) : Nat :=
  (if a.handshaker then 1 else 0) + (if a.closer then 1 else 0) +
  (if a.reader then 1 else 0) + (if a.writer then 1 else 0)

/-- _checkAssert: true = passes -/
def ASM.checkAssert (a : ASM) (maxActive : Nat := 1) : Bool :=
  (match a.result with
   | none => a.activeOps == 0
   | some r => if r == 0 || r == 1 then a.activeOps == 1 else false) &&
  !(a.activeOps > maxActive)

def ASM.wantsReadEvent (a : ASM) : Option Bool :=
  match a.result with | some r => some (r == 0) | none => none

def ASM.wantsWriteEvent (a : ASM) : Option Bool :=
  match a.result with | some r => some (r == 1) | none => none

def ASM.doHandshakeOp (a : ASM) (g : GenStep) : ASM × AsmRes :=
  match g with
  | .yld v => ({ a with result := some v }, .ok [])
  | .stop => ({ a with handshaker := false, result := none }, .ok [.outConnect])
  | .raise => (a, .raised)

def ASM.doCloseOp (a : ASM) (g : GenStep) : ASM × AsmRes :=
  match g with
  | .yld v => ({ a with result := some v }, .ok [])
  | .stop => ({ a with closer := false, result := none }, .ok [.outClose])
  | .raise => (a, .raised)

def ASM.doReadOp (a : ASM) (g : GenStep) : ASM × AsmRes :=
  match g with
  | .yld v =>
    if v == 0 || v == 1 then ({ a with result := some v }, .ok [])
    else ({ a with reader := false, result := none }, .ok [.outRead])
  | .stop => (a, .raised)
  | .raise => (a, .raised)

def ASM.doWriteOp (a : ASM) (g : GenStep) : ASM × AsmRes :=
  match g with
  | .yld v => ({ a with result := some v }, .ok [])
  | .stop => ({ a with writer := false, result := none }, .ok [])
  | .raise => (a, .raised)

/-- `except: self._clear(); raise` -/
def ASM.guard (r : ASM × AsmRes) : ASM × AsmRes :=
  match r.2 with
  | .ok _ => r
  | _ => (ASM.clear, r.2)

def ASM.inReadEvent (a : ASM) (g : GenStep) : ASM × AsmRes :=
  ASM.guard <|
    if !a.checkAssert then (a, .assertionError)
    else if a.handshaker then a.doHandshakeOp g
    else if a.closer then a.doCloseOp g
    else if a.reader then a.doReadOp g
    else if a.writer then a.doWriteOp g
    else ({ a with reader := true }).doReadOp g

def ASM.inWriteEvent (a : ASM) (g : GenStep) : ASM × AsmRes :=
  ASM.guard <|
    if !a.checkAssert then (a, .assertionError)
    else if a.handshaker then a.doHandshakeOp g
    else if a.closer then a.doCloseOp g
    else if a.reader then a.doReadOp g
    else if a.writer then a.doWriteOp g
    else (a, .ok [.outWrite])

def ASM.setHandshakeOp (a : ASM) (g : GenStep) : ASM × AsmRes :=
  ASM.guard <|
    if !a.checkAssert 0 then (a, .assertionError)
    else ({ a with handshaker := true }).doHandshakeOp g

def ASM.setCloseOp (a : ASM) (g : GenStep) : ASM × AsmRes :=
  ASM.guard <|
    if !a.checkAssert 0 then (a, .assertionError)
    else ({ a with closer := true }).doCloseOp g

def ASM.setWriteOp (a : ASM) (g : GenStep) : ASM × AsmRes :=
  ASM.guard <|
    if !a.checkAssert 0 then (a, .assertionError)
    else ({ a with writer := true }).doWriteOp g

/-- `_read_ahead_pending()` apart from the buffer test: no operation active (the connection-closed
    and buffer-non-empty tests are the environment: one element of `pend` per extra read that finds
    the connection open and the read-ahead buffer non-empty) -/
def ASM.noOp (a : ASM) : Bool := !(a.handshaker || a.closer || a.reader || a.writer)

/-- the drain loop of `_doReadOp`: after a completed read, `if not self._read_ahead_pending(): break;
    self.reader = readAsync(16384); self.result = next(self.reader)` and deliver again -/
def ASM.drainLoop (r : ASM × AsmRes) : List GenStep → ASM × AsmRes
  | [] => r
  | g :: rest =>
    match r.2 with
    | .ok evs =>
      if r.1.noOp then
        let r' := ({ r.1 with reader := true }).doReadOp g
        match r'.2 with
        | .ok evs' => ASM.drainLoop (r'.1, .ok (evs ++ evs')) rest
        | _ => r'
      else r
    | _ => r

/-- `_doReadOp` with its drain loop: whenever a read completes (in whichever event), reads are
    started again while `_read_ahead_pending()`; `pend` = what those extra reads do -/
def ASM.doReadOpD (a : ASM) (g : GenStep) (pend : List GenStep) : ASM × AsmRes :=
  ASM.drainLoop (a.doReadOp g) pend

/-- inReadEvent (`pend` empty = nothing was read ahead) -/
def ASM.inReadDrain (a : ASM) (g : GenStep) (pend : List GenStep) : ASM × AsmRes :=
  ASM.guard <|
    if !a.checkAssert then (a, .assertionError)
    else if a.handshaker then a.doHandshakeOp g
    else if a.closer then a.doCloseOp g
    else if a.reader then a.doReadOpD g pend
    else if a.writer then a.doWriteOp g
    else ({ a with reader := true }).doReadOpD g pend

/-- inWriteEvent (a read that had to write completes here) -/
def ASM.inWriteDrain (a : ASM) (g : GenStep) (pend : List GenStep) : ASM × AsmRes :=
  ASM.guard <|
    if !a.checkAssert then (a, .assertionError)
    else if a.handshaker then a.doHandshakeOp g
    else if a.closer then a.doCloseOp g
    else if a.reader then a.doReadOpD g pend
    else if a.writer then a.doWriteOp g
    else (a, .ok [.outWrite])

inductive AsmOp where
  | inRead | inWrite | setHandshake | setClose | setWrite
  deriving Repr, DecidableEq

def ASM.step (a : ASM) (op : AsmOp) (g : GenStep) : ASM × AsmRes :=
  match op with
  | .inRead => a.inReadEvent g
  | .inWrite => a.inWriteEvent g
  | .setHandshake => a.setHandshakeOp g
  | .setClose => a.setCloseOp g
  | .setWrite => a.setWriteOp g

end Tls.IO
