import TlsModel.RsaDecrypt
/-
  The server's RSA-key-exchange path after ClientKeyExchange (TLS <= 1.2), as the code runs it:

    tlsconnection.py  _serverCertKeyExchange (from "Process ClientKeyExchange"):
        processClientKeyExchange -> [CertificateVerify if the client sent a certificate]
    tlsconnection.py  _serverFinished:
        _calculate_master_secret -> _calcPendingStates -> _getFinished -> _sendFinished
    tlsconnection.py  _getFinished (server role, no NPN):
        _getMsg(change_cipher_spec) -> type check -> _changeReadState ->
        verify data -> _getMsg(handshake, finished) -> compare
    tlsrecordlayer.py _getMsg / _getNextRecordFromSocket: the record-layer exception -> alert
        mapping, unexpected record types, received alerts, handshake sub-type check.

  Abstract parameters (`SrvPrims`): the key-derivation function `calc_key`, the handshake hash,
  the record layer's read side (`recvRecord` under a given read state: plaintext or the
  exception it raises) and the whole CertificateVerify check (signature-algorithm test, chain
  check, signature verification) as one function returning the alert it ends in.  In SSLv3 the
  bytes signed by CertificateVerify include the master secret (`calcVerifyBytes`), so the check
  receives it; in TLS 1.0-1.2 it does not.

  Incoming records are one handshake message per record (what tlslite's own client sends);
  fragment reassembly, heartbeat and renegotiation branches of `_getMsg` are not modelled.
  Every emitted record is logged with the number of client records the server had consumed.
-/
namespace Tls.RsaServer
open Tls.RsaDec

/-- exceptions of `RecordLayer.recvRecord` that `_getNextRecordFromSocket` turns into alerts -/
inductive RecErr where
  | unexpectedMessage | recordOverflow | illegalParameter | decryptionFailed | badRecordMac
  deriving Repr, DecidableEq

/-- `AlertDescription` sent for each record-layer exception -/
def RecErr.alert : RecErr → Nat
  | .unexpectedMessage => 10
  | .recordOverflow => 22
  | .illegalParameter => 47
  | .decryptionFailed => 21
  | .badRecordMac => 20

structure WireRec where
  ctype : Nat
  body : Bytes
  deriving Repr, DecidableEq

/-- one record the server writes: content type, whether it is written under the new write state,
    plaintext length, alert (level, description) when it is an alert, and how many client
    records had been consumed when it was written -/
structure Emit where
  ctype : Nat
  encrypted : Bool
  plainLen : Nat
  alert : Option (Nat × Nat)
  consumed : Nat
  deriving Repr, DecidableEq

inductive Outcome where
  | done                                   -- handshake generator finished
  | localAlert (desc : Nat)                -- `_sendError`: TLSLocalAlert
  | remoteAlert (level desc : Nat)         -- TLSRemoteAlert
  | wouldBlock                             -- no more input: the generator keeps yielding 0
  | pyErr (e : PyErr)                      -- an exception escaping processClientKeyExchange
  deriving Repr, DecidableEq

structure SrvResult where
  trace : List Emit
  outcome : Outcome
  deriving Repr, DecidableEq

structure SrvPrims where
  /-- `calc_key(version, secret, suite, label, seed..., output_length)` -/
  calcKey : Nat × Nat → Bytes → Bytes → Bytes → Nat → Bytes
  /-- handshake hash of the messages so far -/
  hsDigest : List Bytes → Bytes
  /-- `recvRecord` under a read state (`none` = initial null state, `some keyBlock` = the pending
      state made from the key block): the record's plaintext or the exception -/
  recv : Option Bytes → WireRec → Except RecErr Bytes
  /-- the CertificateVerify check: transcript so far, the SSLv3 master secret (only SSLv3 signs
      it), the message; `some d` = the alert description it ends in -/
  cvCheck : Nat × Nat → List Bytes → Option Bytes → Bytes → Option Nat

/-- public inputs of the run -/
structure SrvEnv where
  version : Nat × Nat
  ems : Bool                      -- `self.extendedMasterSecret`
  hasClientCert : Bool            -- `clientCertChain` is non-empty
  clientRandom : Bytes
  serverRandom : Bytes
  transcript : List Bytes         -- handshake messages up to and including ClientKeyExchange
  keyLen : Nat                    -- length of the key block of the suite
  consumed : Nat                  -- client records consumed up to and including ClientKeyExchange

def strBytes (s : String) : Bytes := s.toList.map fun c => UInt8.ofNat c.toNat

def lblMaster : Bytes := strBytes "master secret"
def lblEms : Bytes := strBytes "extended master secret"
def lblKeys : Bytes := strBytes "key expansion"
def lblClientFinished : Bytes := strBytes "client finished"

def alertEmit (level desc consumed : Nat) : Emit :=
  { ctype := 21, encrypted := false, plainLen := 2, alert := some (level, desc), consumed := consumed }

/-- `_sendError(desc)`: one fatal alert under the current (still null) write state, then
    TLSLocalAlert -/
def sendError (desc consumed : Nat) : SrvResult :=
  { trace := [alertEmit 2 desc consumed], outcome := .localAlert desc }

/-- result of `_getMsg`: the message bytes and the remaining input, or how the run ended -/
abbrev GetMsg := Except SrvResult (Bytes × List WireRec × Nat)

/-- `_getMsg(expectedType, secondaryType)` for one whole message per record -/
def getMsg (S : SrvPrims) (readState : Option Bytes) (expected : Nat) (secondary : Option Nat)
    (inc : List WireRec) (consumed : Nat) : GetMsg :=
  match inc with
  | [] => .error { trace := [], outcome := .wouldBlock }
  | r :: rest =>
    let consumed := consumed + 1
    match S.recv readState r with
    | .error e => .error (sendError e.alert consumed)       -- _getNextRecordFromSocket
    | .ok p =>
      if r.ctype ≠ expected then
        if r.ctype = 21 then
          -- a received alert: warning / close_notify are answered with close_notify
          match p with
          | level :: desc :: _ =>
            if level.toNat = 1 ∨ desc.toNat = 0 then
              .error { trace := [alertEmit 1 0 consumed], outcome := .remoteAlert level.toNat desc.toNat }
            else .error { trace := [], outcome := .remoteAlert level.toNat desc.toNat }
          | _ => .error (sendError 50 consumed)              -- Alert().parse fails: decode_error
        else .error (sendError 10 consumed)                  -- unexpected_message
      else
        match secondary with
        | none => .ok (p, rest, consumed)
        | some sub =>
          match p with
          | [] => .error (sendError 50 consumed)             -- p.get(1) on an empty record
          | t :: _ =>
            if t.toNat ≠ sub then .error (sendError 10 consumed)   -- "Expecting …, got …"
            else .ok (p, rest, consumed)

/-- state between the CertificateVerify step and the Finished step -/
structure Mid where
  transcript : List Bytes
  rest : List WireRec
  consumed : Nat
  deriving Repr, DecidableEq

/-- CertificateVerify, if relevant.  `pms` is used in SSLv3 only (`calcVerifyBytes`). -/
def certVerifyStep (S : SrvPrims) (E : SrvEnv) (pms : Bytes) (inc : List WireRec) : Except SrvResult Mid :=
  if E.hasClientCert then
    match getMsg S none 22 (some 15) inc E.consumed with
    | .error r => .error r
    | .ok (m, rest, consumed) =>
      let ssl3Master :=
        if E.version = (3, 0) then
          some (S.calcKey E.version pms lblMaster (E.clientRandom ++ E.serverRandom) 48)
        else none
      match S.cvCheck E.version E.transcript ssl3Master m with
      | some d => .error (sendError d consumed)
      | none => .ok { transcript := E.transcript ++ [m], rest := rest, consumed := consumed }
  else .ok { transcript := E.transcript, rest := inc, consumed := E.consumed }

/-- `_calculate_master_secret`: the handshake hash used for the extended master secret is the one
    taken right after ClientKeyExchange -/
def masterSecret (S : SrvPrims) (E : SrvEnv) (pms : Bytes) : Bytes :=
  if E.ems then S.calcKey E.version pms lblEms (S.hsDigest E.transcript) 48
  else S.calcKey E.version pms lblMaster (E.clientRandom ++ E.serverRandom) 48

/-- `_calcPendingStates`: the key block -/
def keyBlock (S : SrvPrims) (E : SrvEnv) (pms : Bytes) : Bytes :=
  S.calcKey E.version (masterSecret S E pms) lblKeys (E.serverRandom ++ E.clientRandom) E.keyLen

def finishedLen (version : Nat × Nat) : Nat := if version = (3, 0) then 36 else 12

/-- ChangeCipherSpec: read under the null state, type must be 1; reads nothing of the secrets -/
def ccsStep (S : SrvPrims) (M : Mid) : Except SrvResult Mid :=
  match getMsg S none 20 none M.rest M.consumed with
  | .error r => .error r
  | .ok (p, rest, consumed) =>
    match p with
    | [] => .error (sendError 50 consumed)                    -- ChangeCipherSpec().parse on nothing
    | t :: _ =>
      if t.toNat ≠ 1 then .error (sendError 47 consumed)      -- "ChangeCipherSpec type incorrect"
      else .ok { M with rest := rest, consumed := consumed }

/-- Finished under the new read state, then the server's own ChangeCipherSpec and Finished -/
def finishedStep (S : SrvPrims) (E : SrvEnv) (pms : Bytes) (M : Mid) : SrvResult :=
  let ms := masterSecret S E pms
  let kb := keyBlock S E pms
  let verifyData := S.calcKey E.version ms lblClientFinished (S.hsDigest M.transcript) (finishedLen E.version)
  match getMsg S (some kb) 22 (some 20) M.rest M.consumed with
  | .error r => r
  | .ok (p, _, consumed) =>
    -- Finished().parse: 1 byte type, 3 bytes length, verify_data
    if p.drop 4 ≠ verifyData then sendError 51 consumed       -- "Finished message is incorrect"
    else
      { trace := [{ ctype := 20, encrypted := false, plainLen := 1, alert := none, consumed := consumed },
                  { ctype := 22, encrypted := true, plainLen := 4 + finishedLen E.version, alert := none,
                    consumed := consumed }],
        outcome := .done }

/-- everything after processClientKeyExchange returned `pms` -/
def serverAfterCKE (S : SrvPrims) (E : SrvEnv) (pms : Bytes) (inc : List WireRec) : SrvResult :=
  match certVerifyStep S E pms inc with
  | .error r => r
  | .ok M =>
    match ccsStep S M with
    | .error r => r
    | .ok M' => finishedStep S E pms M'

/-- the whole path: processClientKeyExchange on the received payload, then the rest -/
def serverRun (K : Key) (P : Prims) (S : SrvPrims) (E : SrvEnv) (rand : Bytes)
    (clientVersion : Nat × Nat) (enc : Bytes) (inc : List WireRec) : SrvResult :=
  match processClientKeyExchange K P rand clientVersion E.version enc with
  | .error e => { trace := [], outcome := .pyErr e }
  | .ok pms => serverAfterCKE S E pms inc

/-- number of client records consumed once the client's Finished has been read -/
def finishedIndex (E : SrvEnv) : Nat := E.consumed + (if E.hasClientCert then 1 else 0) + 2

/-! ### a symbolic instance (used by the driver and the non-vacuity examples): an injective
    "PRF" and a record layer that accepts exactly the records protected under the same key block -/

def lenPrefixed (b : Bytes) : Bytes := beEncode 2 b.length ++ b

def symPrims : SrvPrims :=
  { calcKey := fun v secret label seed n =>
      [UInt8.ofNat v.1, UInt8.ofNat v.2] ++ lenPrefixed secret ++ lenPrefixed label ++ lenPrefixed seed ++ beEncode 2 n
    hsDigest := fun ms => ms.flatMap lenPrefixed
    recv := fun st r =>
      match st with
      | none => .ok r.body
      | some kb =>
        if (r.body.take (kb.length + 2)) = lenPrefixed kb then .ok (r.body.drop (kb.length + 2))
        else .error .badRecordMac
    cvCheck := fun _ _ m body =>
      -- the symbolic signature is the SSLv3 master secret (or nothing) the client signed
      if body.drop 4 = (match m with | some x => x | none => []) then none else some 51 }

/-- the honest client's second flight for premaster `pms` under the symbolic primitives -/
def symClientFlight (E : SrvEnv) (pms : Bytes) (ccsType : Nat) : List WireRec :=
  let S := symPrims
  let cv : List WireRec :=
    if E.hasClientCert then
      let sig := if E.version = (3, 0) then S.calcKey E.version pms lblMaster (E.clientRandom ++ E.serverRandom) 48 else []
      [{ ctype := 22, body := [15, 0, 0, 0] ++ sig }]
    else []
  let tr := E.transcript ++ cv.map (·.body)
  let ms := masterSecret S E pms
  let kb := keyBlock S E pms
  let vd := S.calcKey E.version ms lblClientFinished (S.hsDigest tr) (finishedLen E.version)
  cv ++ [{ ctype := 20, body := [UInt8.ofNat ccsType] },
         { ctype := 22, body := lenPrefixed kb ++ ([20, 0, 0, 0] ++ vd) }]

end Tls.RsaServer
