#!/bin/bash
# MANIFEST.setup_cmd: build the Lean side (models, proofs, property theorems, drivers) offline.
# Each property is built on its own so that a problem in one cannot block the others; every
# check rebuilds what it needs anyway (lake is incremental) and reports a build failure itself.
cd "$(dirname "$0")"
/venv/bin/python - <<'PY'
import os, sys
sys.path.insert(0, os.getcwd())
import translate
repo = os.environ.get("VERIF_REPO", "/repo")
for name in sorted(translate.REGISTRY):
    try:
        print("regenerated:", translate.regen([name], repo))
    except Exception as e:
        print("WARN translator %s failed: %r" % (name, e))
PY
cd lean
mkdir -p .lake
(
  flock 9
  for i in 01 02 03 04 05 06 07 08 09 10 11 12 13 14 15 16 17 18 19 20; do
    if [ -f Props/C$i.lean ]; then
      lake build Props.C$i drv_c$i 2>&1 | tail -3 || echo "WARN: C$i did not build"
    fi
  done
) 9>.lake/verif.lock
echo "setup ok"
exit 0
