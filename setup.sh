#!/bin/bash
# MANIFEST.setup_cmd: build the Lean side (models, proofs, property theorems, drivers) offline.
set -e
cd "$(dirname "$0")"
# regenerate the generated Lean modules from the repository first (translators)
/venv/bin/python - <<'PY'
import os, sys
sys.path.insert(0, os.getcwd())
import translate
repo = os.environ.get("VERIF_REPO", "/repo")
print("regenerated:", translate.regen(sorted(translate.REGISTRY), repo))
PY
cd lean
mkdir -p .lake
(
  flock 9
  lake build
  for i in 01 02 03 04 05 06 07 08 09 10 11 12 13 14 15 16 17 18 19 20; do lake build drv_c$i; done
) 9>.lake/verif.lock
echo "setup ok"
